package main

import (
	"fmt"
	"go/constant"
	"go/token"
	"go/types"
	"os"
	"regexp"
	"sort"
	"strconv"
	"strings"
	"time"

	"golang.org/x/tools/go/ssa"
)

func init() {
	register(&PropSpec{
		ID:    "C18",
		Title: "The HTTP blob protocol gives clients the same map semantics end to end",
		Explanation: "Every rule works on the EFFECTIVE BODY of its anchor (the function plus, transitively to depth 7, the unexported same-package functions/methods and function literals it calls statically, one copy per call site, parameters standing for the caller's arguments and call results for the returned values; go'd/deferred/escaping literals attached where they are spawned; dominance and dominating facts carry across a call through per-return clones of the continuation), and anchors are resolved by role: the handler bodies are those reachable from the pkg/blobserver/handlers constructors that pkg/serverinit calls under an `action == \"...\"` comparison, client requests are the net/http.NewRequest* calls of pkg/client whose URL names /camli/<action>. " +
			"Decided (structural necessary conditions of the wire protocol): " +
			"N-longpoll — in every handler body that long-polls with blobserver.WaitForBlob, under the assumptions 'long-poll requested (wait seconds != 0)' and 'the deadline has not passed' the storage query is reachable from entry and the wait is reachable after the query, and under 'the deadline has passed' the query cannot reach itself again (guard polarity of the time comparisons, evaluated symbolically on the inlined CFG, also through bool helpers and conditions hoisted into locals); " +
			"N-continue — the enumerate handler passes the request's 'after' and a limit clamped by the storage's maximum to EnumerateBlobs (every definition of the limit value that derives from the parsed request value is guarded by a comparison with MaxEnumerate or is min(.., max)), emits continueAfter only when non-empty, derives it from the last emitted ref, clears it on the short-page edge (count < the very limit passed to EnumerateBlobs), and on an enumeration error never reaches the writes that terminate a well-formed response; " +
			"N-client-page — the client's enumerate loop continues on the continueAfter member of the previous response, feeds its value into the next request's after= parameter, and what it sends on the caller's channel derives from the blobRef/size members; " +
			"N-keys — writer/reader agreement by constant values: query keys every pkg/client request writes are keys the routed handler of the same action reads (enumerate-blobs, stat, remove), JSON members the client reads are members the enumerate handler writes, numbered blobN keys use the same prefix and the same first index on both sides, stat and remove responses are encoded and decoded through the same struct types; " +
			"N-compat — the client never builds a request the handler is bound to reject: for every routed handler body the minimal conjunctions of request-key atoms (value empty / non-empty, its strconv-parsed integer != 0 / > 0) under which every path from entry ends in an error response (status >= 400) are extracted (today: enumerate after!=\"\" && int(maxwaitsec)!=0; stat camliversion==\"\"); for every request pkg/client builds for the same /camli/<action> URL (URL and body text modelled as format calls, literals, concatenations, bytes.Buffer writes, url.Values) some atom can never hold, or two atoms exclude each other on every pair of values the two keys may carry, by a guard about the very value emitted for the other key that is evaluated for the iteration being formatted; a request whose pieces arrive through the parameters of an unexported helper is judged in the helper's callers; " +
			"N-stat — the stat handler records a requested ref only when it parsed and the per-request count is within the limit, rejects for 'too many' only after having seen a non-empty value for that index (a batch of exactly the limit is answered), answers 200/JSON only when no StatBlobs call failed, and records results only from the callback's own argument; " +
			"N-get — ServeBlobRef reaches http.ServeContent only on the err==nil edge of Fetch, serves content derived from that fetch's reader with that fetch's size, and closes the reader on every path (deferred or explicit). " +
			"NOT decided: that a concrete client/server exchange over any configuration returns the reference map's answer; pagination completeness for concrete histories; batch-size limits at run time (the numeric rejections 'too many blobN', 'blob too big', malformed refs are outside N-compat: only rejections decided by key presence/emptiness/zero-ness alone are compared; header- and method-based rejections are not modelled); protocol clients outside pkg/client; the multipart/PUT upload handlers (claimed under C02 R-http) and authentication (C17); HTTP framing done by net/http.",
		RuleDocs: map[string]string{
			"N-longpoll":    "symbolic guard evaluation over the inlined CFG of each handler body that calls blobserver.WaitForBlob: reachability of the query / the wait under {wait!=0, now<deadline}; no query->query cycle under {wait!=0, now>deadline}",
			"N-continue":    "value dependence + dominance in the effective body of the enumerate-blobs handler (after/limit arguments, clamp of every limit definition, continueAfter emission, short-page reset against the limit passed on, error exit before terminator)",
			"N-client-page": "value dependence in the effective body of client.(*Client).EnumerateBlobsOpts (continueAfter member -> loop guard and next after=; sends on the caller's channel derive from blobRef/size members)",
			"N-compat":      "per routed handler body: minimal sets of request-key atoms (empty/non-empty, parsed int zero/non-zero/positive) that force an error response on every path (symbolic guard evaluation on the inlined CFG); per pkg/client request for the same action: request-text model (format calls, literals, +, bytes.Buffer writes, url.Values), per key the values it may carry traced through phis, parameters and helper results with the guards of each edge; rule: some atom unsatisfiable, or two atoms mutually exclusive on all value pairs by a same-iteration guard on the other key's emitted value",
			"N-keys":        "table agreement by go/constant values between the pkg/client request models / response readers and the routed handlers' request-key reads / written members; numbered key base; shared response struct types",
			"N-stat":        "dominance/reachability in the effective body of the stat handler (reject-before-record, over-limit reject only after a non-empty value, error exit before ReturnJSON, callback appends its own argument)",
			"N-get":         "dominance + value dependence + all-paths pairing in the effective body of gethandler.ServeBlobRef",
		},
		Run:       runC18,
		DesignRef: "DESIGN.md §4 C18",
		Technique: "static analysis on the inlined view of each anchor's effective body (contexts per call site, parameter/result mapping, per-return and per-phi-edge clones so that dominance carries across helper calls): symbolic guard evaluation (long-poll polarity; key-only rejection conjunctions of the handlers), value-dependence and dominance rules on the handlers and the client, guarded value tracing with an incarnation (loop-iteration) check for client request parameters, table agreement of protocol keys by constant values",
		LevelText: "Decides structural necessary conditions of the wire protocol only: long-poll loops query before the deadline and stop after it; the enumerate continuation is produced from the last emitted ref exactly on full pages and consumed by the client's loop; protocol keys and numbered-key bases agree between client and handlers; no pkg/client request builder can emit a combination of parameters (per loop iteration) that a routed handler rejects on key presence/emptiness/zero-ness alone; stat/get handlers answer success only on the success edge of the storage call and a stat batch of exactly the limit is not refused. Does not decide end-to-end map semantics for any concrete history or configuration.",
	})
}

func runC18(p *Program, r *Reporter) {
	t0 := time.Now()
	step := func(name string, f func(*Program, *Reporter)) {
		t := time.Now()
		f(p, r)
		if c18Debug {
			fmt.Printf("DBG time %-14s %6.0f ms\n", name, float64(time.Since(t).Microseconds())/1000)
		}
	}
	step("N-longpoll", c18Longpoll)
	step("N-continue", c18Continue)
	step("N-client-page", c18ClientPage)
	step("N-keys", c18Keys)
	step("N-compat", c18Compat)
	step("N-stat", c18Stat)
	step("N-get", c18Get)
	// an effective body that exceeded the node budget was analysed with some
	// calls left opaque: say so rather than pass silently
	seenT := map[*c18X]bool{}
	for _, x := range c18TruncatedGraphs {
		if x.P == p && !seenT[x] {
			seenT[x] = true
			r.Undecided("N-compat", FuncKey(x.Root)+"#effective-body", p.Pos(x.Root.Pos()), fmt.Sprintf("the effective body of this function exceeds the analysis budget (%d nodes): calls beyond it were left opaque", c18MaxNodes))
		}
	}
	c18TruncatedGraphs = nil
	if c18Debug {
		fmt.Printf("DBG time total %.0f ms\n", float64(time.Since(t0).Microseconds())/1000)
		for _, x := range c18XCache[p] {
			fmt.Printf("DBG graph %s truncated=%v\n", x, x.Truncated)
		}
	}
}

// ---------------------------------------------------------------------------
// shared helpers

// c18VarargElems returns the values stored into the variadic slice argument v
// (a `slice t[:]` of a `new [N]any (varargs)` array).
func c18VarargElems(v ssa.Value) []ssa.Value {
	sl, ok := v.(*ssa.Slice)
	if !ok {
		return nil
	}
	al, ok := sl.X.(*ssa.Alloc)
	if !ok {
		return nil
	}
	var out []ssa.Value
	if refs := al.Referrers(); refs != nil {
		for _, u := range *refs {
			if ia, ok := u.(*ssa.IndexAddr); ok {
				if ir := ia.Referrers(); ir != nil {
					for _, w := range *ir {
						if st, ok := w.(*ssa.Store); ok && st.Addr == ssa.Value(ia) {
							out = append(out, st.Val)
						}
					}
				}
			}
		}
	}
	return out
}

// varargs returns the elements of the variadic argument v of a call made in
// context ctx (the argument may be a parameter of an inlined helper).
func (x *c18X) varargs(ctx *c18Ctx, v ssa.Value) []c18XV {
	c := x.Canon(c18XV{ctx, v})
	var out []c18XV
	for _, e := range c18VarargElems(c.V) {
		out = append(out, c18XV{c.Ctx, e})
	}
	return out
}

type c18Fmt struct {
	Call   c18XI
	Format string
	Args   []c18XV
}

// formatCalls returns the fmt.Sprintf/Errorf/Fprintf call instances of the
// graph whose constant format string satisfies match.
func (x *c18X) formatCalls(match func(string) bool) []c18Fmt {
	var out []c18Fmt
	for _, xi := range x.Calls(func(xi c18XI, c CallSite) bool { return true }) {
		c := CallSite{xi.Ctx.Fn, xi.In.(ssa.CallInstruction)}
		fi := -1
		switch {
		case c.IsStatic("fmt", "", "Sprintf"), c.IsStatic("fmt", "", "Errorf"):
			fi = 0
		case c.IsStatic("fmt", "", "Fprintf"):
			fi = 1
		}
		if fi < 0 {
			continue
		}
		args := c.Common().Args
		f, ok := x.ConstString(c18XV{xi.Ctx, args[fi]})
		if !ok || !match(f) {
			continue
		}
		out = append(out, c18Fmt{xi, f, x.varargs(xi.Ctx, args[len(args)-1])})
	}
	return out
}

// reqKeyArg: v is the value of a request key (FormValue/PostFormValue, or Get
// on req.URL.Query() / req.Form); returns the key argument.
func (x *c18X) reqKeyArg(v c18XV) (c18XV, bool) {
	v = x.Canon(v)
	cl, ok := v.V.(*ssa.Call)
	if !ok {
		return c18XV{}, false
	}
	cs := CallSite{cl.Parent(), cl}
	switch {
	case cs.IsStatic("net/http", "Request", "FormValue"), cs.IsStatic("net/http", "Request", "PostFormValue"):
		return c18XV{v.Ctx, cl.Call.Args[1]}, true
	case cs.IsStatic("net/url", "Values", "Get"):
		fromReq := x.Depends(c18XV{v.Ctx, cl.Call.Args[0]}, func(y c18XV) bool {
			if c2, ok := y.V.(*ssa.Call); ok && (CallSite{c2.Parent(), c2}).IsStatic("net/url", "URL", "Query") {
				return true
			}
			if fa, ok := y.V.(*ssa.FieldAddr); ok {
				if pt, ok := fa.X.Type().Underlying().(*types.Pointer); ok && IsNamed(pt.Elem(), "net/http", "Request") {
					n := fieldName(pt.Elem(), fa.Field)
					return n == "Form" || n == "PostForm"
				}
			}
			return false
		})
		if fromReq {
			return c18XV{v.Ctx, cl.Call.Args[1]}, true
		}
	}
	return c18XV{}, false
}

func (x *c18X) reqKeyOf(v c18XV) (string, bool) {
	a, ok := x.reqKeyArg(v)
	if !ok {
		return "", false
	}
	return x.ConstString(a)
}

// firstValue evaluates the value an integer expression has the first time it
// is computed: constants, +const, and loop phis (taking their constant entry
// edge).
func (x *c18X) firstValue(v c18XV, depth int) (int64, bool) {
	if depth > 10 {
		return 0, false
	}
	v = x.Canon(v)
	switch t := v.V.(type) {
	case *ssa.Const:
		if t.Value != nil && t.Value.Kind() == constant.Int {
			return t.Int64(), true
		}
	case *ssa.Convert:
		return x.firstValue(c18XV{v.Ctx, t.X}, depth+1)
	case *ssa.BinOp:
		if t.Op == token.ADD {
			if c, ok := x.ConstInt(c18XV{v.Ctx, t.Y}); ok {
				if b, ok := x.firstValue(c18XV{v.Ctx, t.X}, depth+1); ok {
					return b + c, true
				}
			} else if c, ok := x.ConstInt(c18XV{v.Ctx, t.X}); ok {
				if b, ok := x.firstValue(c18XV{v.Ctx, t.Y}, depth+1); ok {
					return b + c, true
				}
			}
		}
	case *ssa.Phi:
		n, val := 0, int64(0)
		for _, e := range t.Edges {
			if z, ok := x.ConstInt(c18XV{v.Ctx, e}); ok {
				n++
				val = z
			}
		}
		if n == 1 {
			return val, true
		}
	}
	return 0, false
}

var c18NumFmtRE = regexp.MustCompile(`^([A-Za-z]+)%[dv]$`)

// numberedKey: key is "<prefix><n>" built by Sprintf("prefix%d", n),
// "prefix"+strconv.Itoa(n) or "prefix"+fmt.Sprint(n); returns the prefix and
// the first value of n (-999 when it cannot be evaluated).
func (x *c18X) numberedKey(key c18XV) (string, int64, bool) {
	key = x.Canon(key)
	first := func(v c18XV) int64 {
		if fv, ok := x.firstValue(v, 0); ok {
			return fv
		}
		return -999
	}
	switch t := key.V.(type) {
	case *ssa.Call:
		if (CallSite{t.Parent(), t}).IsStatic("fmt", "", "Sprintf") {
			if f, ok := x.ConstString(c18XV{key.Ctx, t.Call.Args[0]}); ok {
				if m := c18NumFmtRE.FindStringSubmatch(f); m != nil {
					el := x.varargs(key.Ctx, t.Call.Args[1])
					if len(el) == 1 {
						return m[1], first(el[0]), true
					}
					return m[1], -999, true
				}
			}
		}
	case *ssa.BinOp:
		if t.Op != token.ADD {
			break
		}
		pfx, ok := x.ConstString(c18XV{key.Ctx, t.X})
		if !ok || !regexp.MustCompile(`^[A-Za-z]+$`).MatchString(pfx) {
			break
		}
		num := x.Canon(c18XV{key.Ctx, t.Y})
		if cl, ok := num.V.(*ssa.Call); ok {
			cs := CallSite{cl.Parent(), cl}
			switch {
			case cs.IsStatic("strconv", "", "Itoa"), cs.IsStatic("strconv", "", "FormatInt"), cs.IsStatic("strconv", "", "FormatUint"):
				return pfx, first(c18XV{num.Ctx, cl.Call.Args[0]}), true
			case cs.IsStatic("fmt", "", "Sprint"):
				el := x.varargs(num.Ctx, cl.Call.Args[0])
				if len(el) == 1 {
					return pfx, first(el[0]), true
				}
			}
		}
		return pfx, -999, true
	}
	return "", 0, false
}

// reqKeyReads lists the request-key reads of the graph: plain constant keys and
// numbered keys with their first index.
func (x *c18X) reqKeyReads() (plain map[string]bool, numbered map[string]int64) {
	plain, numbered = map[string]bool{}, map[string]int64{}
	for _, xi := range x.Instrs(func(xi c18XI) bool { _, ok := xi.In.(*ssa.Call); return ok }) {
		a, ok := x.reqKeyArg(c18XV{xi.Ctx, xi.In.(*ssa.Call)})
		if !ok {
			continue
		}
		if s, ok := x.ConstString(a); ok {
			plain[s] = true
			continue
		}
		if pfx, fv, ok := x.numberedKey(a); ok {
			if old, have := numbered[pfx]; !have || old == -999 {
				numbered[pfx] = fv
			}
		}
	}
	return
}

func c18SetString(m map[string]bool) string {
	var s []string
	for k := range m {
		s = append(s, k)
	}
	sort.Strings(s)
	return "{" + strings.Join(s, ",") + "}"
}

func c18HasReqParam(f *ssa.Function) bool {
	for _, pa := range f.Params {
		if pt, ok := pa.Type().(*types.Pointer); ok && IsNamed(pt.Elem(), "net/http", "Request") {
			return true
		}
	}
	return false
}

// errTest interprets cond as a nil test of error value ev under the
// assumption that ev is nil: which edge is taken.
func (x *c18X) assumeNil(ev c18XV) c18Assume {
	return func(n *c18XB, cond ssa.Value) (bool, bool) {
		if k, isNil := x.condNil(n, cond, true, ev); k {
			return true, isNil
		}
		// err == <a sentinel that is never nil>
		c, val := cond, true
		for {
			if u, ok := c.(*ssa.UnOp); ok && u.Op == token.NOT {
				c, val = u.X, !val
				continue
			}
			break
		}
		if bo, ok := c.(*ssa.BinOp); ok && (bo.Op == token.EQL || bo.Op == token.NEQ) {
			l, rr := x.Resolve(n, bo.X), x.Resolve(n, bo.Y)
			if (x.Same(l, ev) && isNonNilErrorExpr(rr.V)) || (x.Same(rr, ev) && isNonNilErrorExpr(l.V)) {
				return true, (bo.Op == token.NEQ) == val
			}
		}
		return false, false
	}
}

// ---------------------------------------------------------------------------
// routed handlers (by role)

type c18Handler struct {
	Action string
	Ctor   *ssa.Function
	X      *c18X
	Req    *c18Ctx // the outermost context with a *http.Request parameter: the handler body
	Key    string  // stable name: the outermost declared function with a *http.Request parameter
}

// entry returns the entry node of the handler body.
func (h *c18Handler) entry() *c18XB {
	for _, n := range h.X.Nodes {
		if n.Ctx == h.Req && n.B == h.Req.Fn.Blocks[0] && n.Lo == 0 {
			return n
		}
	}
	return nil
}

var c18HandlerCache = map[*Program]map[string][]*c18Handler{}

// c18Handlers reads the action -> handler table by role: a constructor of
// pkg/blobserver/handlers (exported, returns http.Handler) called from
// pkg/serverinit where a dominating fact says `<string> == "<action>"` (the
// string not being the request's Method).
func c18Handlers(p *Program) map[string][]*c18Handler {
	if m, ok := c18HandlerCache[p]; ok {
		return m
	}
	c18HandlerCache = map[*Program]map[string][]*c18Handler{}
	routes := map[string][]*c18Handler{}
	var ctors []*ssa.Function
	for _, f := range p.FuncsIn("pkg/blobserver/handlers") {
		if f.Parent() != nil || f.Object() == nil || !f.Object().Exported() || f.Signature.Recv() != nil {
			continue
		}
		res := f.Signature.Results()
		for i := 0; i < res.Len(); i++ {
			if IsNamed(res.At(i).Type(), "net/http", "Handler") {
				ctors = append(ctors, f)
				break
			}
		}
	}
	mk := func(action string, ctor *ssa.Function) {
		for _, o := range routes[action] {
			if o.Ctor == ctor {
				return
			}
		}
		x := c18Graph(p, ctor)
		h := &c18Handler{Action: action, Ctor: ctor, X: x}
		for _, c := range x.Ctxs {
			if c18HasReqParam(c.Fn) && (h.Req == nil || c.Depth < h.Req.Depth) {
				h.Req = c
			}
		}
		keyFallback := FuncKey(ctor)
		if h.Req == nil {
			// the handler is a value of a type of this package (closure turned into a
			// method): its ServeHTTP is the body
			for _, rt := range c18Returns(ctor) {
				for _, rv := range rt.Results {
					v := x.Canon(c18XV{x.Ctxs[0], rv}).V
					t := v.Type()
					if pt, ok := t.(*types.Pointer); ok {
						t = pt.Elem()
					}
					n := NamedOf(t)
					if n == nil || n.Obj().Pkg() != ctor.Pkg.Pkg {
						continue
					}
					if m, declared := p.MethodOf(n, "ServeHTTP"); m != nil && declared && m.Blocks != nil && c18HasReqParam(m) && h.Req == nil {
						h.X = c18Graph(p, m)
						x = h.X
						h.Req = x.Ctxs[0]
						keyFallback = FuncKey(m)
					}
				}
			}
		}
		if h.Req == nil {
			return // the constructor delegates to another package (gethandler)
		}
		h.Key = keyFallback
		best := -1
		for _, c := range x.Ctxs {
			if c18HasReqParam(c.Fn) && c.Fn.Parent() == nil && c.Fn.Name() != "ServeHTTP" && (best < 0 || c.Depth < best) {
				best, h.Key = c.Depth, FuncKey(c.Fn)
			}
		}
		routes[action] = append(routes[action], h)
	}
	actionsAt := func(x *c18X, xi c18XI) []string {
		var out []string
		for _, f := range x.FactsOf(xi) {
			bo, ok := f.Cond.(*ssa.BinOp)
			if !ok || bo.Op != token.EQL || !f.Val {
				continue
			}
			l, rr := x.Resolve(f.At, bo.X), x.Resolve(f.At, bo.Y)
			s, ok := x.ConstString(l)
			other := rr
			if !ok {
				s, ok = x.ConstString(rr)
				other = l
			}
			if !ok {
				continue
			}
			isMethod := x.Depends(other, func(y c18XV) bool {
				fa, ok := y.V.(*ssa.FieldAddr)
				if !ok {
					return false
				}
				pt, ok := fa.X.Type().Underlying().(*types.Pointer)
				return ok && IsNamed(pt.Elem(), "net/http", "Request") && fieldName(pt.Elem(), fa.Field) == "Method"
			})
			if !isMethod {
				out = append(out, s)
			}
		}
		return out
	}
	for _, ctor := range ctors {
		for _, c := range p.StaticCallers(ctor) {
			if c.Fn.Pkg == nil || RelPkg(c.Fn.Pkg.Pkg) != "pkg/serverinit" {
				continue
			}
			roots := []*ssa.Function{TopFunc(c.Fn)}
			for level := 0; level < 3 && len(roots) > 0; level++ {
				found := false
				var next []*ssa.Function
				for _, root := range roots {
					x := c18Graph(p, root)
					for _, xi := range x.Instrs(func(xi c18XI) bool { return xi.In == c.Instr.(ssa.Instruction) }) {
						for _, a := range actionsAt(x, xi) {
							found = true
							mk(a, ctor)
						}
					}
					next = append(next, c18Liftable(p, root)...)
				}
				if found {
					break
				}
				roots = next
			}
		}
	}
	if len(routes) == 0 {
		brokenf("anchor unresolved: no pkg/blobserver/handlers constructor is called from pkg/serverinit under an `action == \"...\"` comparison")
	}
	c18HandlerCache[p] = routes
	return routes
}

func c18Handler1(p *Program, action string) *c18Handler {
	hs := c18Handlers(p)[action]
	if len(hs) == 0 {
		brokenf("anchor unresolved: no handler body routed for action %q", action)
	}
	return hs[0]
}

// c18Pos renders the position of an instruction (go/defer instructions carry
// theirs in the call).
func c18Pos(p *Program, in ssa.Instruction) string {
	if in.Pos().IsValid() {
		return p.Pos(in.Pos())
	}
	if ci, ok := in.(ssa.CallInstruction); ok {
		return p.Pos(ci.Common().Pos())
	}
	return p.Pos(in.Parent().Pos())
}

var c18Debug = os.Getenv("C18DEBUG") != ""

// ===========================================================================
// Effective bodies: the inlined view of a root function ("X-graph")
//
// Every C18 rule looks at its anchor function's EFFECTIVE BODY: the function
// plus, transitively, the unexported same-package functions/methods and the
// function literals it calls statically, each call site getting its own copy
// of the callee (a context), with parameters standing for the caller's
// arguments and call results for the callee's returned values. Literals that
// are go'd, deferred or passed on as values are attached as forks at the
// instruction that spawns them. Blocks are cut into segments at the inlined
// call sites; the continuation of a call whose result is tested (at the end of
// the call's block or up to three blocks later) is cloned per returning path
// of the callee as far as that test, and a block that branches on (or returns)
// one of its own phis - or only forwards such phis - is cloned per incoming
// edge; If edges that the bindings of a clone decide are pruned. Dominance and
// the dominating facts therefore carry across the call ("helper returned ok"
// => what dominated that return inside the helper); facts of an If that exists
// in several clones are established by a cut argument (cloneFacts). Dominators,
// facts, reach and dependence are then computed on this graph exactly as on a
// single function, which makes the rules indifferent to helper extraction,
// function splitting, closure<->method conversion and inlining.
// Known limits: a helper result that is first stored in a struct field or
// tested more than three blocks after the call is not correlated with the
// helper's returns; state moved from locals into struct fields is not
// followed by the phi-based rules (they report, they do not pass silently).

const (
	c18KRoot  = iota
	c18KCall  // inlined call: control returns to the site
	c18KFork  // go / defer / literal passed on as a value: runs some time after the site
	c18KOuter // an enclosing function that is not part of the graph
)

const (
	c18ENormal = iota
	c18ECall
	c18ERet
	c18EFork
)

const c18MaxDepth = 7
const c18MaxNodes = 12000

type c18Ctx struct {
	ID    int
	Fn    *ssa.Function
	Site  ssa.Instruction // instruction of Up.Fn that enters Fn
	Up    *c18Ctx
	Kind  int
	Depth int
	Calls []*c18XB // the nodes that end with Site
}

func (c *c18Ctx) args() []ssa.Value {
	if c == nil {
		return nil
	}
	if ci, ok := c.Site.(ssa.CallInstruction); ok {
		return ci.Common().Args
	}
	return nil
}

// within reports whether c is anc or a context entered (transitively) from anc.
func (c *c18Ctx) within(anc *c18Ctx) bool {
	for ; c != nil; c = c.Up {
		if c == anc {
			return true
		}
	}
	return false
}

type c18XV struct {
	Ctx *c18Ctx
	V   ssa.Value
}

type c18XI struct {
	Ctx *c18Ctx
	In  ssa.Instruction
}

type c18XB struct {
	ID     int
	Ctx    *c18Ctx
	B      *ssa.BasicBlock
	Lo, Hi int
	Var    string
	Bind   map[ssa.Value]c18XV  // values of B with a known definition in this clone
	BindAt map[ssa.Value]*c18XB // per binding: the node that supplied it (predecessor / return node)
	Succs  []*c18XB
	Kinds  []int
	IfSucc [2]*c18XB
	Preds  []*c18XB
	Child  *c18Ctx // context entered at the end of this segment

	idom      *c18XB
	rpo       int
	pre, post int
	facts     []c18Fact
	factsDone bool
}

func (n *c18XB) last() ssa.Instruction { return n.B.Instrs[n.Hi-1] }

func (n *c18XB) ifInstr() *ssa.If {
	if n.Hi != len(n.B.Instrs) {
		return nil
	}
	ifi, _ := n.last().(*ssa.If)
	return ifi
}

type c18NodeKey struct {
	ctx *c18Ctx
	b   *ssa.BasicBlock
	lo  int
	v   string
}

type c18X struct {
	P         *Program
	Root      *ssa.Function
	Ctxs      []*c18Ctx
	Nodes     []*c18XB
	Entry     *c18XB
	Truncated bool

	keyed   map[c18NodeKey]*c18XB
	child   map[c18XI]*c18Ctx
	outer   map[*ssa.Function]*c18Ctx
	ctxsOf  map[*ssa.Function][]*c18Ctx
	nodesOf map[c18XI][]*c18XB
	work    []*c18XB
	groups  map[c18XI][]*c18XB
}

var c18XCache = map[*Program]map[*ssa.Function]*c18X{}

// c18Graph returns the (cached) X-graph rooted at fn.
func c18Graph(p *Program, fn *ssa.Function) *c18X {
	m := c18XCache[p]
	if m == nil {
		c18XCache = map[*Program]map[*ssa.Function]*c18X{} // drop graphs of previously loaded programs
		m = map[*ssa.Function]*c18X{}
		c18XCache[p] = m
	}
	if x := m[fn]; x != nil {
		return x
	}
	x := &c18X{P: p, Root: fn, keyed: map[c18NodeKey]*c18XB{}, child: map[c18XI]*c18Ctx{}, outer: map[*ssa.Function]*c18Ctx{},
		ctxsOf: map[*ssa.Function][]*c18Ctx{}, nodesOf: map[c18XI][]*c18XB{}}
	root := &c18Ctx{Fn: fn, Kind: c18KRoot}
	x.addCtx(root)
	if len(fn.Blocks) == 0 {
		brokenf("anchor unresolved: %s has no body", FuncKey(fn))
	}
	x.Entry = x.node(root, fn.Blocks[0], 0, "", nil, nil)
	for len(x.work) > 0 {
		n := x.work[len(x.work)-1]
		x.work = x.work[:len(x.work)-1]
		x.process(n)
	}
	x.finish()
	x.prune()
	m[fn] = x
	if x.Truncated {
		c18TruncatedGraphs = append(c18TruncatedGraphs, x)
	}
	return x
}

var c18TruncatedGraphs []*c18X

func (x *c18X) addCtx(c *c18Ctx) {
	c.ID = len(x.Ctxs)
	x.Ctxs = append(x.Ctxs, c)
	x.ctxsOf[c.Fn] = append(x.ctxsOf[c.Fn], c)
}

func (x *c18X) node(ctx *c18Ctx, b *ssa.BasicBlock, lo int, variant string, bind map[ssa.Value]c18XV, at map[ssa.Value]*c18XB) *c18XB {
	k := c18NodeKey{ctx, b, lo, variant}
	if n := x.keyed[k]; n != nil {
		return n
	}
	n := &c18XB{ID: len(x.Nodes), Ctx: ctx, B: b, Lo: lo, Hi: len(b.Instrs), Var: variant, Bind: bind, BindAt: at}
	x.Nodes = append(x.Nodes, n)
	x.keyed[k] = n
	x.work = append(x.work, n)
	return n
}

func (x *c18X) edge(a, b *c18XB, kind int) {
	for i, s := range a.Succs {
		if s == b && a.Kinds[i] == kind {
			return
		}
	}
	a.Succs = append(a.Succs, b)
	a.Kinds = append(a.Kinds, kind)
	b.Preds = append(b.Preds, a)
}

// c18Inlinable: callee belongs to the effective body of a function of pkg.
func c18Inlinable(pkg *ssa.Package, callee *ssa.Function) bool {
	if callee == nil || callee.Blocks == nil || callee.Pkg == nil || callee.Pkg != pkg {
		return false
	}
	if callee.Parent() == nil {
		if callee.Synthetic != "" || callee.Object() == nil || callee.Object().Exported() {
			return false
		}
	}
	return true
}

func (x *c18X) inlinable(ctx *c18Ctx, callee *ssa.Function) bool {
	if !c18Inlinable(x.Root.Pkg, callee) || ctx.Depth >= c18MaxDepth {
		return false
	}
	for c := ctx; c != nil; c = c.Up {
		if c.Fn == callee {
			return false
		}
	}
	if len(x.Nodes) > c18MaxNodes {
		x.Truncated = true
		return false
	}
	return true
}

// c18CellLoads lists the loads of the variable cell al in its function and the
// literals nested in it.
func c18CellLoads(al *ssa.Alloc) []*ssa.UnOp {
	var out []*ssa.UnOp
	var walk func(f *ssa.Function)
	walk = func(f *ssa.Function) {
		for _, b := range f.Blocks {
			for _, in := range b.Instrs {
				if u, ok := in.(*ssa.UnOp); ok && u.Op == token.MUL {
					if c, ok := varOf(u.X); ok && c == ssa.Value(al) {
						out = append(out, u)
					}
				}
			}
		}
		for _, a := range f.AnonFuncs {
			walk(a)
		}
	}
	walk(al.Parent())
	return out
}

// c18ClosureEscapes: the closure is used other than by being called (directly
// or through the local variable it is bound to).
func c18ClosureEscapes(mc *ssa.MakeClosure) bool {
	var onlyCalled func(v ssa.Value, depth int) bool
	onlyCalled = func(v ssa.Value, depth int) bool {
		refs := v.Referrers()
		if refs == nil {
			return true
		}
		for _, r := range *refs {
			switch u := r.(type) {
			case *ssa.DebugRef:
			case ssa.CallInstruction:
				if u.Common().Value != v {
					return false
				}
				// call, go or defer of the closure itself: that instruction enters it
			case *ssa.Store:
				al, ok := u.Addr.(*ssa.Alloc)
				if u.Val != v || !ok || depth > 1 || !plainVariable(al) {
					return false
				}
				for _, ld := range c18CellLoads(al) {
					if !onlyCalled(ld, depth+1) {
						return false
					}
				}
			default:
				return false
			}
		}
		return true
	}
	return !onlyCalled(mc, 0)
}

func (x *c18X) entersAt(ctx *c18Ctx, in ssa.Instruction) (*ssa.Function, int) {
	switch t := in.(type) {
	case *ssa.Call:
		if callee := (CallSite{ctx.Fn, t}).Callee(); x.inlinable(ctx, callee) {
			return callee, c18KCall
		}
	case *ssa.Go:
		if callee := (CallSite{ctx.Fn, t}).Callee(); x.inlinable(ctx, callee) {
			return callee, c18KFork
		}
	case *ssa.Defer:
		if callee := (CallSite{ctx.Fn, t}).Callee(); x.inlinable(ctx, callee) {
			return callee, c18KFork
		}
	case *ssa.MakeClosure:
		if lit, ok := t.Fn.(*ssa.Function); ok && c18ClosureEscapes(t) && x.inlinable(ctx, lit) {
			return lit, c18KFork
		}
	}
	return nil, 0
}

var c18RetPartRE = regexp.MustCompile(`\|r[0-9]+`)

// c18TestsValue: terminator t branches on / returns a value satisfying is
// (directly, negated, or compared with a constant).
func c18TestsValue(t ssa.Instruction, is func(ssa.Value) bool) bool {
	shape := func(v ssa.Value) bool {
		for i := 0; i < 3; i++ {
			if u, ok := v.(*ssa.UnOp); ok && u.Op == token.NOT {
				v = u.X
				continue
			}
			break
		}
		if bo, ok := v.(*ssa.BinOp); ok {
			if _, isC := bo.Y.(*ssa.Const); isC {
				v = bo.X
			} else if _, isC := bo.X.(*ssa.Const); isC {
				v = bo.Y
			}
		}
		return is(v)
	}
	switch t := t.(type) {
	case *ssa.If:
		return shape(t.Cond)
	case *ssa.Return:
		for _, r := range t.Results {
			if shape(r) {
				return true
			}
		}
	}
	return false
}

// c18ResultTestedFrom: value k is tested by the terminator of block s or of a
// block at most three steps after it.
func c18ResultTestedFrom(k ssa.Value, s *ssa.BasicBlock, depth int, seen map[*ssa.BasicBlock]bool) bool {
	if seen[s] || depth > 3 || len(s.Instrs) == 0 {
		return false
	}
	seen[s] = true
	if c18TestsValue(s.Instrs[len(s.Instrs)-1], func(v ssa.Value) bool { return v == k }) {
		return true
	}
	for _, n := range s.Succs {
		if c18ResultTestedFrom(k, n, depth+1, seen) {
			return true
		}
	}
	return false
}

// c18TestedRight: a result of call c is tested by an If / Return at the end of
// its block or a few blocks later (so cloning the continuation per returning
// path pays off).
func c18TestedRight(c *ssa.Call) bool {
	if c18ResultTestedFrom(c, c.Block(), 0, map[*ssa.BasicBlock]bool{}) {
		return true
	}
	if refs := c.Referrers(); refs != nil {
		for _, r := range *refs {
			if ex, ok := r.(*ssa.Extract); ok && c18ResultTestedFrom(ex, c.Block(), 0, map[*ssa.BasicBlock]bool{}) {
				return true
			}
		}
	}
	return false
}

// c18OwnPhiTested: block s branches on (or returns) one of its own phis.
func c18OwnPhiTested(s *ssa.BasicBlock, inlined bool) bool {
	return c18OwnPhiTestedN(s, inlined, 0)
}

func c18OwnPhiTestedN(s *ssa.BasicBlock, inlined bool, depth int) bool {
	if len(s.Instrs) == 0 {
		return false
	}
	if _, ok := s.Instrs[0].(*ssa.Phi); !ok {
		return false
	}
	// a block of phis that only forwards to such a block (`a && (b || c)`: the
	// || phi feeds the && phi)
	if _, isJump := s.Instrs[len(s.Instrs)-1].(*ssa.Jump); isJump && depth < 3 {
		only := true
		for _, in := range s.Instrs[:len(s.Instrs)-1] {
			switch in.(type) {
			case *ssa.Phi, *ssa.DebugRef:
			default:
				only = false
			}
		}
		return only && len(s.Succs) == 1 && c18OwnPhiTestedN(s.Succs[0], inlined, depth+1)
	}
	own := func(v ssa.Value) bool {
		for i := 0; i < 3; i++ {
			if u, ok := v.(*ssa.UnOp); ok && u.Op == token.NOT {
				v = u.X
				continue
			}
			break
		}
		if bo, ok := v.(*ssa.BinOp); ok && (bo.Op == token.EQL || bo.Op == token.NEQ) {
			if IsNilConst(bo.Y) {
				v = bo.X
			} else if IsNilConst(bo.X) {
				v = bo.Y
			}
		}
		ph, ok := v.(*ssa.Phi)
		return ok && ph.Block() == s
	}
	switch t := s.Instrs[len(s.Instrs)-1].(type) {
	case *ssa.If:
		return own(t.Cond)
	case *ssa.Return:
		if inlined {
			for _, r := range t.Results {
				if own(r) {
					return true
				}
			}
		}
	}
	return false
}

func (x *c18X) process(n *c18XB) {
	b := n.B
	for k := n.Lo; k < len(b.Instrs); k++ {
		callee, kind := x.entersAt(n.Ctx, b.Instrs[k])
		if callee == nil {
			continue
		}
		n.Hi = k + 1
		key := c18XI{n.Ctx, b.Instrs[k]}
		child := x.child[key]
		if child == nil {
			child = &c18Ctx{Fn: callee, Site: b.Instrs[k], Up: n.Ctx, Kind: kind, Depth: n.Ctx.Depth + 1}
			x.addCtx(child)
			x.child[key] = child
		}
		child.Calls = append(child.Calls, n)
		n.Child = child
		entry := x.node(child, callee.Blocks[0], 0, "", nil, nil)
		if kind == c18KCall {
			x.edge(n, entry, c18ECall)
			// returns that were processed before this calling clone appeared
			for _, m := range x.Nodes {
				if m.Ctx == child && m.Hi == len(m.B.Instrs) {
					if rt, ok := m.last().(*ssa.Return); ok && m.Hi > m.Lo && x.processed(m) {
						x.returnTo(m, rt, n)
					}
				}
			}
			return
		}
		x.edge(n, entry, c18EFork)
		if n.Hi < len(b.Instrs) {
			x.edge(n, x.node(n.Ctx, b, n.Hi, n.Var, n.Bind, n.BindAt), c18ENormal)
		}
		return
	}
	n.Hi = len(b.Instrs)
	switch t := n.last().(type) {
	case *ssa.Return:
		if n.Ctx.Kind == c18KCall {
			for _, call := range n.Ctx.Calls {
				x.returnTo(n, t, call)
			}
		}
	default:
		for i, s := range b.Succs {
			variant := ""
			var bind map[ssa.Value]c18XV
			var at map[ssa.Value]*c18XB
			// results of inlined calls that are tested a few blocks further on stay
			// bound (the blocks in between are cloned per returning path as well)
			for k, v := range n.Bind {
				in, ok := k.(ssa.Instruction)
				if !ok || in.Block() == s || !in.Block().Dominates(s) {
					continue
				}
				if _, isPhi := k.(*ssa.Phi); isPhi {
					continue
				}
				if c18ResultTestedFrom(k, s, 0, map[*ssa.BasicBlock]bool{}) {
					if bind == nil {
						bind, at = map[ssa.Value]c18XV{}, map[ssa.Value]*c18XB{}
					}
					bind[k], at[k] = v, n.BindAt[k]
				}
			}
			if bind != nil {
				variant = strings.Join(c18RetPartRE.FindAllString(n.Var, -1), "")
			}
			if c18OwnPhiTested(s, n.Ctx.Kind == c18KCall) {
				// which incoming edge of s is this? (the i-th occurrence of b when
				// both edges of an If lead to s)
				j, occ := -1, 0
				for pi, pb := range s.Preds {
					if pb != b {
						continue
					}
					if j < 0 || (len(b.Succs) == 2 && b.Succs[0] == b.Succs[1] && occ == i) {
						j = pi
					}
					occ++
				}
				if j >= 0 {
					variant = "p" + strconv.Itoa(j) + "." + strconv.Itoa(n.ID) + variant
					if bind == nil {
						bind, at = map[ssa.Value]c18XV{}, map[ssa.Value]*c18XB{}
					}
					for _, in := range s.Instrs {
						ph, ok := in.(*ssa.Phi)
						if !ok {
							break
						}
						bind[ph], at[ph] = x.resolveRaw(n, ph.Edges[j]), n
					}
				}
			}
			m := x.node(n.Ctx, s, 0, variant, bind, at)
			x.edge(n, m, c18ENormal)
			if _, isIf := t.(*ssa.If); isIf && i < 2 {
				n.IfSucc[i] = m
			}
		}
	}
}

// processed: the node's successors have been computed (it is not waiting in
// the work list).
func (x *c18X) processed(n *c18XB) bool {
	for _, w := range x.work {
		if w == n {
			return false
		}
	}
	return true
}

// resolveRaw returns the value v has in node n without canonicalising it.
func (x *c18X) resolveRaw(n *c18XB, v ssa.Value) c18XV {
	if n != nil && n.Bind != nil {
		if b, ok := n.Bind[v]; ok {
			return b
		}
	}
	return c18XV{n.Ctx, v}
}

// returnTo links return node n (Return t) of an inlined callee to the
// continuation of calling node call.
func (x *c18X) returnTo(n *c18XB, t *ssa.Return, call *c18XB) {
	site, ok := n.Ctx.Site.(*ssa.Call)
	if !ok {
		return
	}
	k := call.Hi // the continuation starts right after the call
	variant, bind, at := call.Var, call.Bind, call.BindAt
	if c18TestedRight(site) {
		variant = call.Var + "|r" + strconv.Itoa(n.ID)
		bind, at = map[ssa.Value]c18XV{}, map[ssa.Value]*c18XB{}
		for kk, vv := range call.Bind {
			bind[kk], at[kk] = vv, call.BindAt[kk]
		}
		res := func(i int) c18XV {
			if i >= len(t.Results) {
				return c18XV{}
			}
			return x.resolveRaw(n, c18RetVal(t.Results[i], t))
		}
		if len(t.Results) == 1 {
			bind[site], at[site] = res(0), n
		} else if refs := site.Referrers(); refs != nil {
			for _, r := range *refs {
				if ex, ok := r.(*ssa.Extract); ok {
					bind[ex], at[ex] = res(ex.Index), n
				}
			}
		}
	}
	next := x.node(call.Ctx, call.B, k, variant, bind, at)
	x.edge(n, next, c18ERet)
}

// finish computes reachability, predecessor lists, dominators and the
// instruction index.
func (x *c18X) finish() {
	// reverse post-order from the entry over all edges
	seen := map[*c18XB]bool{}
	var order []*c18XB
	var dfs func(n *c18XB)
	dfs = func(n *c18XB) {
		seen[n] = true
		for _, s := range n.Succs {
			if !seen[s] {
				dfs(s)
			}
		}
		order = append(order, n)
	}
	dfs(x.Entry)
	for i, j := 0, len(order)-1; i < j; i, j = i+1, j-1 {
		order[i], order[j] = order[j], order[i]
	}
	for i, n := range order {
		n.rpo = i
		n.idom = nil
		n.factsDone = false
		n.facts = nil
	}
	// drop unreachable nodes and their edges
	for _, n := range order {
		var ps []*c18XB
		for _, p := range n.Preds {
			if seen[p] {
				ps = append(ps, p)
			}
		}
		n.Preds = ps
	}
	x.Nodes = order
	for i, n := range x.Nodes {
		n.ID = i
	}
	// Cooper-Harvey-Kennedy
	intersect := func(a, b *c18XB) *c18XB {
		for a != b {
			for a.rpo > b.rpo {
				a = a.idom
			}
			for b.rpo > a.rpo {
				b = b.idom
			}
		}
		return a
	}
	x.Entry.idom = x.Entry
	for changed := true; changed; {
		changed = false
		for _, n := range order[1:] {
			var nd *c18XB
			for _, p := range n.Preds {
				if p.idom == nil {
					continue
				}
				if nd == nil {
					nd = p
				} else {
					nd = intersect(p, nd)
				}
			}
			if nd != nil && n.idom != nd {
				n.idom = nd
				changed = true
			}
		}
	}
	x.Entry.idom = nil
	// pre/post numbering of the dominator tree
	kids := map[*c18XB][]*c18XB{}
	for _, n := range order[1:] {
		if n.idom != nil {
			kids[n.idom] = append(kids[n.idom], n)
		}
	}
	t := 0
	var num func(n *c18XB)
	num = func(n *c18XB) {
		t++
		n.pre = t
		for _, k := range kids[n] {
			num(k)
		}
		t++
		n.post = t
	}
	num(x.Entry)
	x.groups = nil
	x.nodesOf = map[c18XI][]*c18XB{}
	for _, n := range x.Nodes {
		for k := n.Lo; k < n.Hi; k++ {
			xi := c18XI{n.Ctx, n.B.Instrs[k]}
			x.nodesOf[xi] = append(x.nodesOf[xi], n)
		}
	}
}

// Dominates: a == b or a strictly dominates b.
func (x *c18X) Dominates(a, b *c18XB) bool {
	return a.pre <= b.pre && b.post <= a.post
}

// prune removes the If edges that the bindings of a clone decide (a caller's
// `if !ok` after the helper's `return ..., false`), then recomputes dominators.
func (x *c18X) prune() {
	for round := 0; round < 3; round++ {
		changed := false
		for _, n := range x.Nodes {
			ifi := n.ifInstr()
			if ifi == nil || n.IfSucc[0] == nil || n.IfSucc[1] == nil || n.IfSucc[0] == n.IfSucc[1] {
				continue
			}
			k, v := false, false
			if len(n.Bind) > 0 {
				k, v = x.evalBound(n, ifi.Cond)
			}
			if !k && n.Ctx.Kind == c18KCall {
				k, v = x.evalLen(n, ifi.Cond)
			}
			if !k {
				continue
			}
			dead := 1
			if !v {
				dead = 0
			}
			d := n.IfSucc[dead]
			n.IfSucc[dead] = nil
			for i, s := range n.Succs {
				if s == d {
					n.Succs = append(n.Succs[:i:i], n.Succs[i+1:]...)
					n.Kinds = append(n.Kinds[:i:i], n.Kinds[i+1:]...)
					break
				}
			}
			for i, p := range d.Preds {
				if p == n {
					d.Preds = append(d.Preds[:i:i], d.Preds[i+1:]...)
					break
				}
			}
			changed = true
		}
		if !changed {
			return
		}
		x.finish()
	}
}

// ---------------------------------------------------------------------------
// values

func c18ValueFn(v ssa.Value) *ssa.Function {
	switch t := v.(type) {
	case *ssa.Parameter:
		return t.Parent()
	case *ssa.FreeVar:
		return t.Parent()
	case ssa.Instruction:
		return t.Parent()
	}
	return nil
}

func (x *c18X) outerCtx(f *ssa.Function) *c18Ctx {
	if c := x.outer[f]; c != nil {
		return c
	}
	c := &c18Ctx{ID: -1 - len(x.outer), Fn: f, Kind: c18KOuter}
	x.outer[f] = c
	return c
}

// at places value v (of function f) relative to context ctx: the nearest
// enclosing context executing f.
func (x *c18X) at(ctx *c18Ctx, v ssa.Value) c18XV {
	f := c18ValueFn(v)
	if f == nil {
		return c18XV{nil, v}
	}
	for c := ctx; c != nil; c = c.Up {
		if c.Fn == f {
			return c18XV{c, v}
		}
	}
	if cs := x.ctxsOf[f]; len(cs) == 1 {
		return c18XV{cs[0], v}
	}
	return c18XV{x.outerCtx(f), v}
}

// ctxsFor lists the contexts executing f that a value seen from ctx may
// belong to.
func (x *c18X) ctxsFor(ctx *c18Ctx, f *ssa.Function) []*c18Ctx {
	for c := ctx; c != nil; c = c.Up {
		if c.Fn == f {
			return []*c18Ctx{c}
		}
	}
	if cs := x.ctxsOf[f]; len(cs) > 0 {
		return cs
	}
	return []*c18Ctx{x.outerCtx(f)}
}

func (x *c18X) argOf(v c18XV) (c18XV, bool) {
	pa, ok := v.V.(*ssa.Parameter)
	if !ok || v.Ctx == nil || v.Ctx.Site == nil || v.Ctx.Fn != pa.Parent() {
		return v, false
	}
	args := v.Ctx.args()
	if len(args) != len(v.Ctx.Fn.Params) {
		return v, false
	}
	for i, q := range v.Ctx.Fn.Params {
		if q == pa {
			return c18XV{v.Ctx.Up, args[i]}, true
		}
	}
	return v, false
}

// returned lists the values result idx of the inlined call may have.
func (x *c18X) returned(ctx *c18Ctx, call *ssa.Call, idx int) ([]c18XV, bool) {
	child := x.child[c18XI{ctx, call}]
	if child == nil || child.Kind != c18KCall {
		return nil, false
	}
	var out []c18XV
	for _, rt := range c18Returns(child.Fn) {
		if idx < len(rt.Results) {
			out = append(out, c18XV{child, c18RetVal(rt.Results[idx], rt)})
		}
	}
	return out, true
}

// c18Returns lists the explicit returns of fn (the synthetic recover block is skipped).
func c18Returns(fn *ssa.Function) []*ssa.Return {
	var out []*ssa.Return
	for _, b := range fn.Blocks {
		if b == fn.Recover || len(b.Instrs) == 0 {
			continue
		}
		if rt, ok := b.Instrs[len(b.Instrs)-1].(*ssa.Return); ok {
			out = append(out, rt)
		}
	}
	return out
}

// c18RetVal undoes the "store to result local; rundefers; load; return"
// sequence of functions with defer - only for plain result variables (a
// local whose address is passed on may have been filled by the callee).
func c18RetVal(v ssa.Value, ret *ssa.Return) ssa.Value {
	if ld, ok := v.(*ssa.UnOp); ok && ld.Op == token.MUL {
		if al, ok := ld.X.(*ssa.Alloc); ok && plainVariable(al) {
			return resolveReturnValue(v, ret)
		}
	}
	return v
}

// Canon strips value-preserving wrappers, resolves loads of single-assignment
// variables, parameters of inlined callees (-> the argument), captured
// variables (-> the binding) and results of inlined calls that return one
// value on every path (-> that value).
func (x *c18X) Canon(v c18XV) c18XV {
	for i := 0; i < 64 && v.V != nil; i++ {
		switch t := v.V.(type) {
		case *ssa.ChangeType:
			v.V = t.X
		case *ssa.MakeInterface:
			v.V = t.X
		case *ssa.ChangeInterface:
			v.V = t.X
		case *ssa.UnOp:
			if t.Op != token.MUL {
				return x.fix(v)
			}
			r := resolveLoad(t)
			if r == nil {
				// a field of a local struct that is assigned once (struct literal
				// hoisted into a variable, parameters bundled in a struct)
				if fa, ok := t.X.(*ssa.FieldAddr); ok {
					if fv, ok := x.fieldOf(x.fix(c18XV{v.Ctx, fa.X}), fa.Field, t, 0); ok {
						v = fv
						continue
					}
				}
				return x.fix(v)
			}
			v = x.at(x.fix(v).Ctx, r)
		case *ssa.Field:
			fv, ok := x.fieldOf(x.fix(c18XV{v.Ctx, t.X}), t.Field, nil, 0)
			if !ok {
				return x.fix(v)
			}
			v = fv
		case *ssa.Phi:
			var first ssa.Value
			same := true
			for _, e := range t.Edges {
				if e == ssa.Value(t) {
					continue
				}
				if first == nil {
					first = e
				} else if e != first {
					same = false
				}
			}
			if !same || first == nil {
				return x.fix(v)
			}
			v.V = first
		case *ssa.Parameter:
			v = x.fix(v)
			a, ok := x.argOf(v)
			if !ok {
				return v
			}
			v = a
		case *ssa.FreeVar:
			b := bindingOf(t)
			if b == nil {
				return x.fix(v)
			}
			v = x.at(x.fix(v).Ctx, b)
		case *ssa.Call:
			v = x.fix(v)
			if t.Call.Signature().Results().Len() != 1 {
				return v
			}
			r, ok := x.singleReturn(v.Ctx, t, 0)
			if !ok {
				return v
			}
			v = r
		case *ssa.Extract:
			v = x.fix(v)
			c, ok := t.Tuple.(*ssa.Call)
			if !ok {
				return v
			}
			r, ok := x.singleReturn(v.Ctx, c, t.Index)
			if !ok {
				return v
			}
			v = r
		default:
			return x.fix(v)
		}
	}
	return x.fix(v)
}

// c18StructUses collects the uses of local struct al (and of the free variables
// literals capture it by): field stores, whole-value stores; ok is false when
// the address is used in any other way than field accesses and whole-value
// loads/stores.
func c18StructUses(al *ssa.Alloc) (fieldStores map[int][]*ssa.Store, wholeStores []*ssa.Store, ok bool) {
	if _, isStruct := al.Type().(*types.Pointer).Elem().Underlying().(*types.Struct); !isStruct {
		return nil, nil, false
	}
	fieldStores = map[int][]*ssa.Store{}
	ok = true
	var visit func(addr ssa.Value, depth int)
	visit = func(addr ssa.Value, depth int) {
		refs := addr.Referrers()
		if refs == nil || depth > 4 {
			return
		}
		for _, r := range *refs {
			switch u := r.(type) {
			case *ssa.DebugRef:
			case *ssa.FieldAddr:
				if fr := u.Referrers(); fr != nil {
					for _, w := range *fr {
						switch y := w.(type) {
						case *ssa.DebugRef:
						case *ssa.UnOp:
							if y.Op != token.MUL {
								ok = false
							}
						case *ssa.Store:
							if y.Addr != ssa.Value(u) {
								ok = false
							} else {
								fieldStores[u.Field] = append(fieldStores[u.Field], y)
							}
						default:
							ok = false
						}
					}
				}
			case *ssa.UnOp:
				if u.Op != token.MUL {
					ok = false
				}
			case *ssa.Store:
				if u.Addr != addr {
					ok = false
				} else {
					wholeStores = append(wholeStores, u)
				}
			case *ssa.MakeClosure:
				fn := u.Fn.(*ssa.Function)
				for i, bnd := range u.Bindings {
					if bnd == addr {
						visit(fn.FreeVars[i], depth+1)
					}
				}
			default:
				ok = false
			}
		}
	}
	visit(al, 0)
	return
}

// fieldOf returns the value of field f of the struct that base denotes (the
// address of a local struct, or a struct value), when that field is assigned
// exactly once on the way: by a field store, or as part of the whole value
// stored into the local (a parameter of an inlined callee -> the caller's
// struct). use, when given, is the load being resolved: a store of the same
// function must come before it.
func (x *c18X) fieldOf(base c18XV, f int, use ssa.Instruction, depth int) (c18XV, bool) {
	if depth > 6 || base.V == nil {
		return c18XV{}, false
	}
	switch t := base.V.(type) {
	case *ssa.Alloc:
		fs, whole, ok := c18StructUses(t)
		if !ok {
			return c18XV{}, false
		}
		before := func(st *ssa.Store) bool {
			return use == nil || use.Parent() != st.Parent() || Precedes(st, use)
		}
		switch {
		case len(fs[f]) == 1 && len(whole) == 0 && fs[f][0].Parent() == t.Parent() && before(fs[f][0]):
			return x.Canon(c18XV{base.Ctx, fs[f][0].Val}), true
		case len(fs[f]) == 0 && len(whole) == 1 && whole[0].Parent() == t.Parent() && before(whole[0]):
			return x.fieldOf(x.fix(c18XV{base.Ctx, whole[0].Val}), f, nil, depth+1)
		}
		return c18XV{}, false
	case *ssa.UnOp:
		if t.Op == token.MUL {
			// a whole-struct load of a local
			if al, ok := t.X.(*ssa.Alloc); ok {
				return x.fieldOf(c18XV{base.Ctx, al}, f, t, depth+1)
			}
		}
	case *ssa.Parameter:
		if a, ok := x.argOf(base); ok {
			return x.fieldOf(x.fix(a), f, nil, depth+1)
		}
	case *ssa.FreeVar:
		if b := bindingOf(t); b != nil {
			return x.fieldOf(x.at(base.Ctx, b), f, nil, depth+1)
		}
	}
	return c18XV{}, false
}

// fix normalises the context of a value: nil for values that belong to no
// function, the nearest context executing the value's function otherwise.
func (x *c18X) fix(v c18XV) c18XV {
	if v.V == nil {
		return v
	}
	f := c18ValueFn(v.V)
	if f == nil {
		v.Ctx = nil
		return v
	}
	if v.Ctx != nil && v.Ctx.Fn == f {
		return v
	}
	return x.at(v.Ctx, v.V)
}

func (x *c18X) singleReturn(ctx *c18Ctx, call *ssa.Call, idx int) (c18XV, bool) {
	rs, ok := x.returned(ctx, call, idx)
	if !ok || len(rs) == 0 {
		return c18XV{}, false
	}
	first := x.Canon(rs[0])
	for _, r := range rs[1:] {
		if !c18SameXV(x.Canon(r), first) {
			return c18XV{}, false
		}
	}
	return first, true
}

func c18SameXV(a, b c18XV) bool {
	if a.V == nil || b.V == nil {
		return false
	}
	if a == b {
		return true
	}
	ca, ok1 := a.V.(*ssa.Const)
	cb, ok2 := b.V.(*ssa.Const)
	if ok1 && ok2 {
		if ca.Value == nil || cb.Value == nil {
			return ca.Value == nil && cb.Value == nil && types.Identical(ca.Type(), cb.Type())
		}
		return ca.Value.Kind() == cb.Value.Kind() && constant.Compare(ca.Value, token.EQL, cb.Value)
	}
	return false
}

// Same: the two values denote the same run-time value as far as the analysis
// can tell (the X counterpart of sameOrigin).
func (x *c18X) Same(a, b c18XV) bool {
	ca, cb := x.Canon(a), x.Canon(b)
	if c18SameXV(ca, cb) {
		return true
	}
	// loads of one variable cell
	if la, ok := ca.V.(*ssa.UnOp); ok && la.Op == token.MUL {
		if lb, ok := cb.V.(*ssa.UnOp); ok && lb.Op == token.MUL {
			c1, ok1 := varOf(la.X)
			c2, ok2 := varOf(lb.X)
			if ok1 && ok2 && c1 == c2 {
				f := c18ValueFn(c1)
				if f == nil {
					return true
				}
				return x.at(ca.Ctx, c1) == x.at(cb.Ctx, c1)
			}
		}
	}
	// a phi one of whose incoming values is the other
	if ph, ok := ca.V.(*ssa.Phi); ok {
		for _, e := range ph.Edges {
			if c18SameXV(x.Canon(c18XV{ca.Ctx, e}), cb) {
				return true
			}
		}
	}
	if ph, ok := cb.V.(*ssa.Phi); ok {
		for _, e := range ph.Edges {
			if c18SameXV(x.Canon(c18XV{cb.Ctx, e}), ca) {
				return true
			}
		}
	}
	return false
}

// MayBe: v may be the very value target: equal after canonicalisation, or a phi
// / the result of an inlined call one of whose incoming / returned values may be.
func (x *c18X) MayBe(v, target c18XV) bool {
	target = x.Canon(target)
	seen := map[c18XV]bool{}
	var walk func(v c18XV, d int) bool
	walk = func(v c18XV, d int) bool {
		v = x.Canon(v)
		if d > 16 || seen[v] {
			return false
		}
		seen[v] = true
		if c18SameXV(v, target) {
			return true
		}
		switch t := v.V.(type) {
		case *ssa.Phi:
			for _, e := range t.Edges {
				if walk(c18XV{v.Ctx, e}, d+1) {
					return true
				}
			}
		case *ssa.Call:
			if rs, ok := x.returned(v.Ctx, t, 0); ok && t.Call.Signature().Results().Len() == 1 {
				for _, r := range rs {
					if walk(r, d+1) {
						return true
					}
				}
			}
		case *ssa.Extract:
			if c, ok := t.Tuple.(*ssa.Call); ok {
				if rs, ok := x.returned(v.Ctx, c, t.Index); ok {
					for _, r := range rs {
						if walk(r, d+1) {
							return true
						}
					}
				}
			}
		}
		return false
	}
	return walk(v, 0)
}

// Resolve returns the canonical value of v as seen in node n (clone bindings
// applied).
func (x *c18X) Resolve(n *c18XB, v ssa.Value) c18XV {
	return x.Canon(x.resolveRaw(n, v))
}

// ResolveIn resolves operand v of a value that lives in context ctx, using
// n's bindings when the value belongs to n's own context.
func (x *c18X) ResolveIn(n *c18XB, ctx *c18Ctx, v ssa.Value) c18XV {
	if n != nil && n.Ctx == ctx {
		return x.Resolve(n, v)
	}
	return x.Canon(c18XV{ctx, v})
}

func (x *c18X) ConstString(v c18XV) (string, bool) {
	c, ok := x.Canon(v).V.(*ssa.Const)
	if ok && c.Value != nil && c.Value.Kind() == constant.String {
		return constant.StringVal(c.Value), true
	}
	return "", false
}

func (x *c18X) ConstInt(v c18XV) (int64, bool) {
	c, ok := x.Canon(v).V.(*ssa.Const)
	if ok && c.Value != nil && c.Value.Kind() == constant.Int {
		return c.Int64(), true
	}
	return 0, false
}

// c18RootAlloc follows field/element addresses down to a local Alloc.
func c18RootAlloc(a ssa.Value) *ssa.Alloc {
	for i := 0; i < 8; i++ {
		switch t := a.(type) {
		case *ssa.Alloc:
			return t
		case *ssa.FieldAddr:
			a = t.X
		case *ssa.IndexAddr:
			a = t.X
		case *ssa.FreeVar:
			b := bindingOf(t)
			if b == nil {
				return nil
			}
			a = b
		default:
			return nil
		}
	}
	return nil
}

// Depends: v transitively depends on a value satisfying target - through
// operands, variable cells (every store, and every call that receives the
// cell's address), local structs/arrays, parameters of inlined callees (the
// caller's argument) and results of inlined calls (the returned values).
func (x *c18X) Depends(v c18XV, target func(c18XV) bool) bool {
	seen := map[c18XV]bool{}
	var walk func(v c18XV, d int) bool
	cellDeps := func(ctx *c18Ctx, al *ssa.Alloc, d int) bool {
		fn := al.Parent()
		var fns []*ssa.Function
		var coll func(f *ssa.Function)
		coll = func(f *ssa.Function) {
			fns = append(fns, f)
			for _, a := range f.AnonFuncs {
				coll(a)
			}
		}
		coll(fn)
		for _, f := range fns {
			for _, b := range f.Blocks {
				for _, in := range b.Instrs {
					switch t := in.(type) {
					case *ssa.Store:
						root := c18RootAlloc(t.Addr)
						if root == nil {
							if c, ok := varOf(t.Addr); ok {
								root, _ = c.(*ssa.Alloc)
							}
						}
						if root == al {
							for _, c := range x.ctxsFor(ctx, f) {
								if walk(c18XV{c, t.Val}, d+1) {
									return true
								}
							}
						}
					case ssa.CallInstruction:
						for _, a := range t.Common().Args {
							ra := a
							for i := 0; i < 4; i++ {
								switch w := ra.(type) {
								case *ssa.MakeInterface:
									ra = w.X
								case *ssa.ChangeType:
									ra = w.X
								case *ssa.ChangeInterface:
									ra = w.X
								}
							}
							root := c18RootAlloc(ra)
							if root == nil {
								if c, ok := varOf(ra); ok {
									root, _ = c.(*ssa.Alloc)
								}
							}
							if root == al {
								// the callee may fill the cell from its other arguments
								for _, o := range t.Common().Args {
									if o != a {
										for _, c := range x.ctxsFor(ctx, f) {
											if walk(c18XV{c, o}, d+1) {
												return true
											}
										}
									}
								}
							}
						}
					}
				}
			}
		}
		return false
	}
	walk = func(v c18XV, d int) bool {
		if v.V == nil || d > 90 {
			return false
		}
		v = x.fix(v)
		if seen[v] {
			return false
		}
		seen[v] = true
		if target(v) {
			return true
		}
		switch t := v.V.(type) {
		case *ssa.Parameter:
			if a, ok := x.argOf(v); ok {
				return walk(a, d+1)
			}
			return false
		case *ssa.FreeVar:
			if b := bindingOf(t); b != nil {
				return walk(x.at(v.Ctx, b), d+1)
			}
			return false
		case *ssa.Alloc:
			return cellDeps(v.Ctx, t, d)
		case *ssa.UnOp:
			if t.Op == token.MUL {
				if c := x.Canon(v); c != v {
					// a load the analysis resolves exactly (single assignment, field of a local struct)
					return walk(c, d+1)
				}
				if cell, ok := varOf(t.X); ok {
					if cell != t.X && target(x.at(v.Ctx, cell)) {
						return true
					}
					if al, ok := cell.(*ssa.Alloc); ok {
						if cellDeps(v.Ctx, al, d) {
							return true
						}
					}
				} else if al := c18RootAlloc(t.X); al != nil {
					if cellDeps(v.Ctx, al, d) {
						return true
					}
				}
			}
		case *ssa.Call:
			if child := x.child[c18XI{v.Ctx, t}]; child != nil && child.Kind == c18KCall {
				for _, rt := range c18Returns(child.Fn) {
					for _, r := range rt.Results {
						if walk(c18XV{child, c18RetVal(r, rt)}, d+1) {
							return true
						}
					}
				}
				return false
			}
		case *ssa.Extract:
			if c, ok := t.Tuple.(*ssa.Call); ok {
				if rs, ok := x.returned(v.Ctx, c, t.Index); ok {
					for _, r := range rs {
						if walk(r, d+1) {
							return true
						}
					}
					return false
				}
			}
		}
		if in, ok := v.V.(ssa.Instruction); ok {
			for _, op := range in.Operands(nil) {
				if *op != nil && walk(c18XV{v.Ctx, *op}, d+1) {
					return true
				}
			}
		}
		return false
	}
	return walk(v, 0)
}

// ---------------------------------------------------------------------------
// facts

type c18Fact struct {
	At   *c18XB // the node whose If established it
	Cond ssa.Value
	Val  bool
}

// FactsAt returns the branch conditions known on every path to node n.
func (x *c18X) FactsAt(n *c18XB) []c18Fact {
	if n.factsDone {
		return n.facts
	}
	var out []c18Fact
	for d := n.idom; d != nil; d = d.idom {
		ifi := d.ifInstr()
		if ifi == nil || d.IfSucc[0] == d.IfSucc[1] {
			continue
		}
		if len(x.ifGroups()[c18XI{d.Ctx, ifi}]) > 1 {
			continue // an If that exists in several clones: see cloneFacts
		}
		for i := 0; i < 2; i++ {
			s := d.IfSucc[i]
			if s == nil || !x.Dominates(s, n) {
				continue
			}
			okEdge := true
			for _, p := range s.Preds {
				if p != d && !x.Dominates(s, p) {
					okEdge = false
				}
			}
			if okEdge {
				out = append(out, c18Fact{d, ifi.Cond, i == 0})
			}
		}
	}
	out = append(out, x.cloneFacts(n, out)...)
	n.facts, n.factsDone = out, true
	return out
}

// ifGroups: the If instructions that occur in several clones.
func (x *c18X) ifGroups() map[c18XI][]*c18XB {
	if x.groups == nil {
		x.groups = map[c18XI][]*c18XB{}
		all := map[c18XI][]*c18XB{}
		for _, n := range x.Nodes {
			if ifi := n.ifInstr(); ifi != nil {
				k := c18XI{n.Ctx, ifi}
				all[k] = append(all[k], n)
			}
		}
		for k, ns := range all {
			if len(ns) > 1 {
				x.groups[k] = ns
			}
		}
	}
	return x.groups
}

// reachAvoiding: target is reachable from one of starts without taking a cut edge.
func (x *c18X) reachAvoiding(starts []*c18XB, cut map[[2]*c18XB]bool, target *c18XB) bool {
	seen := map[*c18XB]bool{}
	var stack []*c18XB
	for _, s := range starts {
		if s != nil && !seen[s] {
			seen[s] = true
			stack = append(stack, s)
		}
	}
	for len(stack) > 0 {
		n := stack[len(stack)-1]
		stack = stack[:len(stack)-1]
		if n == target {
			return true
		}
		for _, s := range n.Succs {
			if !seen[s] && !cut[[2]*c18XB{n, s}] {
				seen[s] = true
				stack = append(stack, s)
			}
		}
	}
	return false
}

// cloneFacts: facts established by an If that exists in several clones (the
// continuation of a call cloned per returning path, a block cloned per phi
// edge): the condition had value val the last time it was evaluated on every
// path to n iff, with the val-edges of all clones removed, n is reachable
// neither from the entry nor from the other edges' targets.
func (x *c18X) cloneFacts(n *c18XB, have []c18Fact) []c18Fact {
	var out []c18Fact
	var keys []c18XI
	for k := range x.ifGroups() {
		keys = append(keys, k)
	}
	sort.Slice(keys, func(i, j int) bool {
		if keys[i].Ctx.ID != keys[j].Ctx.ID {
			return keys[i].Ctx.ID < keys[j].Ctx.ID
		}
		return keys[i].In.Pos() < keys[j].In.Pos()
	})
	for _, k := range keys {
		ns := x.groups[k]
		ifi := k.In.(*ssa.If)
		dup := false
		for _, f := range have {
			if f.Cond == ifi.Cond && f.At.Ctx == k.Ctx {
				dup = true
			}
		}
		if dup {
			continue
		}
		for vi := 0; vi < 2; vi++ {
			cut := map[[2]*c18XB]bool{}
			starts := []*c18XB{x.Entry}
			bad := false
			for _, d := range ns {
				if d.IfSucc[0] != nil && d.IfSucc[0] == d.IfSucc[1] {
					bad = true
				}
				if d.IfSucc[vi] != nil {
					cut[[2]*c18XB{d, d.IfSucc[vi]}] = true
				}
				if d.IfSucc[1-vi] != nil {
					starts = append(starts, d.IfSucc[1-vi])
				}
			}
			if bad || len(cut) == 0 {
				continue
			}
			if n == x.Entry || x.reachAvoiding(starts, cut, n) {
				continue
			}
			at := ns[0]
			if len(ns) > 1 {
				at = &c18XB{ID: -1, Ctx: k.Ctx, B: ns[0].B, Lo: ns[0].Lo, Hi: ns[0].Hi} // unbound view of the block
			}
			out = append(out, c18Fact{at, ifi.Cond, vi == 0})
		}
	}
	return out
}

// EdgeFacts: what is known when control passes from pred to node n.
func (x *c18X) EdgeFacts(pred, n *c18XB) []c18Fact {
	out := append([]c18Fact(nil), x.FactsAt(pred)...)
	if ifi := pred.ifInstr(); ifi != nil && pred.IfSucc[0] != pred.IfSucc[1] {
		for i := 0; i < 2; i++ {
			if pred.IfSucc[i] == n {
				out = append(out, c18Fact{pred, ifi.Cond, i == 0})
			}
		}
	}
	return out
}

// FactsOf: facts at (every clone of) the instruction instance: those common
// to all clones.
func (x *c18X) FactsOf(xi c18XI) []c18Fact {
	ns := x.nodesOf[xi]
	if len(ns) == 0 {
		return nil
	}
	out := x.FactsAt(ns[0])
	for _, n := range ns[1:] {
		var keep []c18Fact
		for _, f := range out {
			for _, g := range x.FactsAt(n) {
				if f.Cond == g.Cond && f.Val == g.Val && f.At.Ctx == g.At.Ctx {
					keep = append(keep, f)
					break
				}
			}
		}
		out = keep
	}
	return out
}

// condNil interprets fact f as a statement about v's nil-ness.
func (x *c18X) condNil(at *c18XB, cond ssa.Value, val bool, v c18XV) (known, isNil bool) {
	switch c := cond.(type) {
	case *ssa.BinOp:
		if c.Op != token.EQL && c.Op != token.NEQ {
			return false, false
		}
		var other ssa.Value
		if IsNilConst(c.Y) {
			other = c.X
		} else if IsNilConst(c.X) {
			other = c.Y
		} else {
			return false, false
		}
		if !x.Same(x.resolveRaw(at, other), v) {
			return false, false
		}
		return true, (c.Op == token.EQL) == val
	case *ssa.UnOp:
		if c.Op == token.NOT {
			return x.condNil(at, c.X, !val, v)
		}
	}
	return false, false
}

func (x *c18X) NilFact(facts []c18Fact, v c18XV) (known, isNil bool) {
	for _, f := range facts {
		if k, n := x.condNil(f.At, f.Cond, f.Val, v); k {
			return true, n
		}
	}
	return false, false
}

// evalLen decides `len(s) <op> <const>` in an inlined callee when s is a
// parameter bound to a variadic argument list of known length (or to nil).
func (x *c18X) evalLen(n *c18XB, cond ssa.Value) (known, val bool) {
	if u, ok := cond.(*ssa.UnOp); ok && u.Op == token.NOT {
		k, v := x.evalLen(n, u.X)
		return k, !v
	}
	bo, ok := cond.(*ssa.BinOp)
	if !ok {
		return false, false
	}
	lenOf := func(v ssa.Value) (int64, bool) {
		cl, ok := v.(*ssa.Call)
		if !ok {
			return 0, false
		}
		b, ok := cl.Call.Value.(*ssa.Builtin)
		if !ok || b.Name() != "len" || len(cl.Call.Args) != 1 {
			return 0, false
		}
		if _, isParam := cl.Call.Args[0].(*ssa.Parameter); !isParam {
			return 0, false
		}
		a := x.Canon(c18XV{n.Ctx, cl.Call.Args[0]})
		switch t := a.V.(type) {
		case *ssa.Const:
			if t.Value == nil {
				return 0, true
			}
		case *ssa.Slice:
			if t.Low == nil && t.High == nil {
				if al, ok := t.X.(*ssa.Alloc); ok {
					if at, ok := al.Type().(*types.Pointer).Elem().Underlying().(*types.Array); ok {
						return at.Len(), true
					}
				}
			}
		}
		return 0, false
	}
	l, okl := lenOf(bo.X)
	c, okc := x.ConstInt(c18XV{n.Ctx, bo.Y})
	if !okl || !okc {
		return false, false
	}
	switch bo.Op {
	case token.GTR:
		return true, l > c
	case token.GEQ:
		return true, l >= c
	case token.LSS:
		return true, l < c
	case token.LEQ:
		return true, l <= c
	case token.EQL:
		return true, l == c
	case token.NEQ:
		return true, l != c
	}
	return false, false
}

// evalBound decides an If condition of a clone from its bindings.
func (x *c18X) evalBound(n *c18XB, cond ssa.Value) (known, val bool) {
	switch c := cond.(type) {
	case *ssa.UnOp:
		if c.Op == token.NOT {
			k, v := x.evalBound(n, c.X)
			return k, !v
		}
	case *ssa.BinOp:
		if c.Op != token.EQL && c.Op != token.NEQ {
			return false, false
		}
		_, bx := n.Bind[c.X]
		_, by := n.Bind[c.Y]
		if !bx && !by {
			return false, false
		}
		lx, ly := x.Resolve(n, c.X), x.Resolve(n, c.Y)
		nx, ny := IsNilConst(lx.V), IsNilConst(ly.V)
		if nx || ny {
			other := lx
			if nx {
				other = ly
			}
			switch {
			case nx && ny:
				return true, c.Op == token.EQL
			case isNonNilErrorExpr(other.V):
				return true, c.Op == token.NEQ
			}
			for _, key := range []ssa.Value{c.X, c.Y} {
				if o := n.BindAt[key]; o != nil {
					if k, isNil := x.NilFact(x.FactsAt(o), other); k {
						return true, isNil == (c.Op == token.EQL)
					}
				}
			}
			return false, false
		}
		cx, ok1 := lx.V.(*ssa.Const)
		cy, ok2 := ly.V.(*ssa.Const)
		if ok1 && ok2 && cx.Value != nil && cy.Value != nil && cx.Value.Kind() == cy.Value.Kind() {
			return true, constant.Compare(cx.Value, token.EQL, cy.Value) == (c.Op == token.EQL)
		}
		return false, false
	}
	if _, ok := n.Bind[cond]; !ok {
		return false, false
	}
	r := x.Resolve(n, cond)
	if c, ok := r.V.(*ssa.Const); ok && c.Value != nil && c.Value.Kind() == constant.Bool {
		return true, constant.BoolVal(c.Value)
	}
	if o := n.BindAt[cond]; o != nil {
		for _, f := range x.FactsAt(o) {
			fc, fv := f.Cond, f.Val
			for {
				if u, ok := fc.(*ssa.UnOp); ok && u.Op == token.NOT {
					fc, fv = u.X, !fv
					continue
				}
				break
			}
			if c18SameXV(x.Resolve(f.At, fc), r) {
				return true, fv
			}
		}
	}
	return false, false
}

// ---------------------------------------------------------------------------
// search, order, reach

// Instrs lists the instruction instances of the graph satisfying pred, in
// graph order, each once.
func (x *c18X) Instrs(pred func(c18XI) bool) []c18XI {
	var out []c18XI
	seen := map[c18XI]bool{}
	for _, n := range x.Nodes {
		for k := n.Lo; k < n.Hi; k++ {
			xi := c18XI{n.Ctx, n.B.Instrs[k]}
			if seen[xi] {
				continue
			}
			seen[xi] = true
			if pred(xi) {
				out = append(out, xi)
			}
		}
	}
	return out
}

// Calls lists the call/go/defer instances satisfying pred.
func (x *c18X) Calls(pred func(c18XI, CallSite) bool) []c18XI {
	return x.Instrs(func(xi c18XI) bool {
		ci, ok := xi.In.(ssa.CallInstruction)
		return ok && pred(xi, CallSite{xi.Ctx.Fn, ci})
	})
}

// c18UniqInstr drops instances of an instruction already seen in another
// context.
func c18UniqInstr(xs []c18XI) []c18XI {
	seen := map[ssa.Instruction]bool{}
	var out []c18XI
	for _, xi := range xs {
		if !seen[xi.In] {
			seen[xi.In] = true
			out = append(out, xi)
		}
	}
	return out
}

// Anchor lifts an instance out of the forked contexts that do not contain
// keep, to the instruction that spawned them (forked code runs concurrently
// with what follows the fork).
func (x *c18X) Anchor(xi c18XI, keep *c18Ctx) c18XI {
	var outer *c18Ctx
	for c := xi.Ctx; c != nil; c = c.Up {
		if c.Kind == c18KFork && !keep.within(c) {
			outer = c
		}
	}
	if outer != nil {
		return c18XI{outer.Up, outer.Site}
	}
	return xi
}

// TopSite returns the instruction of the root context through which the
// instance is reached (itself when it is in the root context).
func (x *c18X) TopSite(xi c18XI) ssa.Instruction {
	in := xi.In
	for c := xi.Ctx; c != nil && c.Up != nil; c = c.Up {
		in = c.Site
	}
	return in
}

func (x *c18X) idx(n *c18XB, in ssa.Instruction) int {
	for k := n.Lo; k < n.Hi; k++ {
		if n.B.Instrs[k] == in {
			return k
		}
	}
	return -1
}

// Precedes: a executes before b on every path to (every clone of) b: with
// the nodes of a removed, no node of b is reachable from the entry (a node that
// holds both counts when a comes first in it).
func (x *c18X) Precedes(a, b c18XI) bool {
	nb := x.nodesOf[b]
	na := map[*c18XB]bool{}
	for _, m := range x.nodesOf[a] {
		na[m] = true
	}
	if len(nb) == 0 || len(na) == 0 {
		return false
	}
	targets := map[*c18XB]bool{}
	for _, n := range nb {
		if na[n] {
			if x.idx(n, a.In) < x.idx(n, b.In) {
				continue
			}
			return false
		}
		targets[n] = true
	}
	if len(targets) == 0 {
		return true
	}
	if na[x.Entry] {
		return true
	}
	seen := map[*c18XB]bool{x.Entry: true}
	stack := []*c18XB{x.Entry}
	for len(stack) > 0 {
		n := stack[len(stack)-1]
		stack = stack[:len(stack)-1]
		if targets[n] {
			return false
		}
		for _, s := range n.Succs {
			if !seen[s] && !na[s] {
				seen[s] = true
				stack = append(stack, s)
			}
		}
	}
	return true
}

type c18Assume func(n *c18XB, cond ssa.Value) (known, val bool)

// Reach returns the instruction instances that may execute after xi when the
// branch conditions decided by assume are followed along the decided edge only.
func (x *c18X) Reach(xi c18XI, assume c18Assume) map[c18XI]bool {
	out := map[c18XI]bool{}
	seen := map[*c18XB]bool{}
	var walk func(n *c18XB, from int)
	walk = func(n *c18XB, from int) {
		for k := from; k < n.Hi; k++ {
			out[c18XI{n.Ctx, n.B.Instrs[k]}] = true
		}
		if ifi := n.ifInstr(); ifi != nil && assume != nil {
			if k, v := assume(n, ifi.Cond); k {
				s := n.IfSucc[1]
				if v {
					s = n.IfSucc[0]
				}
				if s != nil && !seen[s] {
					seen[s] = true
					walk(s, s.Lo)
				}
				return
			}
		}
		for _, s := range n.Succs {
			if !seen[s] {
				seen[s] = true
				walk(s, s.Lo)
			}
		}
	}
	for _, n := range x.nodesOf[xi] {
		walk(n, x.idx(n, xi.In)+1)
	}
	return out
}

// ReachFromNode is Reach starting at the first instruction of node n.
func (x *c18X) ReachFromNode(n *c18XB, assume c18Assume) map[c18XI]bool {
	out := map[c18XI]bool{}
	seen := map[*c18XB]bool{n: true}
	var walk func(n *c18XB)
	walk = func(n *c18XB) {
		for k := n.Lo; k < n.Hi; k++ {
			out[c18XI{n.Ctx, n.B.Instrs[k]}] = true
		}
		if ifi := n.ifInstr(); ifi != nil && assume != nil {
			if k, v := assume(n, ifi.Cond); k {
				s := n.IfSucc[1]
				if v {
					s = n.IfSucc[0]
				}
				if s != nil && !seen[s] {
					seen[s] = true
					walk(s)
				}
				return
			}
		}
		for _, s := range n.Succs {
			if !seen[s] {
				seen[s] = true
				walk(s)
			}
		}
	}
	walk(n)
	return out
}

// Leaks explores every path from the start nodes (starting at index from of
// each) that does not enter forked code: a path ends well at an instruction
// satisfying stop or where control cannot continue (panic, a callee that does
// not return); it leaks when it reaches a Return of context exit (or of the
// root) without having passed a stop. Returns the leaking return instances.
func (x *c18X) Leaks(starts []*c18XB, from func(*c18XB) int, stop func(n *c18XB, in ssa.Instruction) bool, assume c18Assume, exit *c18Ctx) []c18XI {
	var leaks []c18XI
	seen := map[*c18XB]bool{}
	var walk func(n *c18XB, lo int)
	walk = func(n *c18XB, lo int) {
		for k := lo; k < n.Hi; k++ {
			if stop(n, n.B.Instrs[k]) {
				return
			}
		}
		if rt, ok := n.last().(*ssa.Return); ok && n.Hi == len(n.B.Instrs) {
			if n.Ctx == exit || n.Ctx.Kind == c18KRoot {
				leaks = append(leaks, c18XI{n.Ctx, rt})
				return
			}
		}
		next := func(s *c18XB) {
			if s != nil && !seen[s] {
				seen[s] = true
				walk(s, s.Lo)
			}
		}
		if ifi := n.ifInstr(); ifi != nil && assume != nil {
			if k, v := assume(n, ifi.Cond); k {
				if v {
					next(n.IfSucc[0])
				} else {
					next(n.IfSucc[1])
				}
				return
			}
		}
		for i, s := range n.Succs {
			if n.Kinds[i] != c18EFork {
				next(s)
			}
		}
	}
	for _, n := range starts {
		lo := n.Lo
		if from != nil {
			lo = from(n)
		}
		walk(n, lo)
	}
	return leaks
}

// ---------------------------------------------------------------------------
// roots

// c18Liftable: every execution of fn starts at one of its static call sites in
// its own package (unexported, never used as a value), so a question that
// cannot be settled inside fn can be settled in its callers' effective bodies.
func c18Liftable(p *Program, fn *ssa.Function) []*ssa.Function {
	if fn.Parent() != nil {
		return []*ssa.Function{TopFunc(fn)}
	}
	if !c18Inlinable(fn.Pkg, fn) || len(p.FuncValueUses(fn)) > 0 {
		return nil
	}
	if fn.Signature.Recv() != nil && len(p.InvokeSites(fn)) > 0 {
		return nil // may be reached through an interface
	}
	var out []*ssa.Function
	seen := map[*ssa.Function]bool{}
	for _, c := range p.StaticCallers(fn) {
		t := TopFunc(c.Fn)
		if t.Pkg != fn.Pkg {
			return nil
		}
		if !seen[t] && t != fn {
			seen[t] = true
			out = append(out, t)
		}
	}
	sort.Slice(out, func(i, j int) bool { return FuncKey(out[i]) < FuncKey(out[j]) })
	return out
}

func (x *c18X) String() string {
	return fmt.Sprintf("X(%s: %d contexts, %d nodes)", FuncKey(x.Root), len(x.Ctxs), len(x.Nodes))
}

// ---------------------------------------------------------------------------
// phis and returns

type c18PhiEdge struct {
	Val   c18XV
	Pred  *c18XB
	Node  *c18XB
	Facts []c18Fact // what is known when control takes this edge
}

// PhiEdges lists the incoming values of phi v over every clone of its block,
// with the facts of each edge.
func (x *c18X) PhiEdges(v c18XV) []c18PhiEdge {
	ph, ok := v.V.(*ssa.Phi)
	if !ok {
		return nil
	}
	var out []c18PhiEdge
	blk := ph.Block()
	for _, n := range x.nodesOf[c18XI{v.Ctx, ph}] {
		if b, ok := n.Bind[ph]; ok && n.BindAt[ph] != nil {
			out = append(out, c18PhiEdge{b, n.BindAt[ph], n, x.EdgeFacts(n.BindAt[ph], n)})
			continue
		}
		for _, pn := range n.Preds {
			if pn.Ctx != n.Ctx {
				continue
			}
			// the SSA edges pn stands for (both, when both branches of its If lead here)
			for j, pb := range blk.Preds {
				if pb != pn.B {
					continue
				}
				out = append(out, c18PhiEdge{x.resolveRaw(pn, ph.Edges[j]), pn, n, x.EdgeFacts(pn, n)})
			}
		}
	}
	return out
}

// returnNodes lists the nodes of context c that end in a Return.
func (x *c18X) returnNodes(c *c18Ctx) []*c18XB {
	var out []*c18XB
	for _, n := range x.Nodes {
		if n.Ctx == c && n.Hi == len(n.B.Instrs) {
			if _, ok := n.last().(*ssa.Return); ok {
				out = append(out, n)
			}
		}
	}
	return out
}

// ---------------------------------------------------------------------------
// N-longpoll

func c18Longpoll(p *Program, r *Reporter) {
	wait := p.Func("pkg/blobserver", "", "WaitForBlob")
	isWaitCall := func(xi c18XI, c CallSite) bool { return c.Callee() == wait }
	// the handler bodies that contain a wait: the routed ones, plus the effective
	// bodies of any other caller in pkg/blobserver/handlers
	type body struct {
		x   *c18X
		key string
	}
	var bodies []body
	covered := map[ssa.Instruction]bool{}
	var actions []string
	hs := c18Handlers(p)
	for a := range hs {
		actions = append(actions, a)
	}
	sort.Strings(actions)
	seenX := map[*c18X]bool{}
	for _, a := range actions {
		for _, h := range hs[a] {
			if seenX[h.X] {
				continue
			}
			seenX[h.X] = true
			ws := h.X.Calls(isWaitCall)
			if len(ws) == 0 {
				continue
			}
			for _, w := range ws {
				covered[w.In] = true
			}
			bodies = append(bodies, body{h.X, h.Key})
		}
	}
	for _, c := range p.StaticCallers(wait) {
		if c.Fn.Pkg == nil || RelPkg(c.Fn.Pkg.Pkg) != "pkg/blobserver/handlers" || covered[c.Instr.(ssa.Instruction)] {
			continue
		}
		root := TopFunc(c.Fn)
		for i := 0; i < 3; i++ {
			up := c18Liftable(p, root)
			if len(up) != 1 {
				break
			}
			root = up[0]
		}
		x := c18Graph(p, root)
		if seenX[x] {
			continue
		}
		seenX[x] = true
		for _, w := range x.Calls(isWaitCall) {
			covered[w.In] = true
		}
		bodies = append(bodies, body{x, FuncKey(TopFunc(c.Fn))})
	}
	n := 0
	for _, b := range bodies {
		x, key := b.x, b.key
		n++
		for _, w := range c18UniqInstr(x.Calls(isWaitCall)) {
			c18LongpollOne(p, r, x, key, w)
		}
	}
	r.Floor("N-longpoll", 6)
	r.Analysed("longpoll_handlers", n)
}

func c18LongpollOne(p *Program, r *Reporter, x *c18X, key string, w c18XI) {
	site := c18Pos(p, w.In)
	wc := w.In.(ssa.CallInstruction).Common()
	deadline := x.Canon(c18XV{w.Ctx, wc.Args[1]})
	add, ok := deadline.V.(*ssa.Call)
	if !ok || !(CallSite{add.Parent(), add}).IsStatic("time", "Time", "Add") {
		r.Undecided("N-longpoll", key+"#deadline", site, "the deadline passed to WaitForBlob is not a time.Now().Add(d) value computed in the handler's effective body; cannot evaluate the long-poll guards")
		return
	}
	dur := c18XV{deadline.Ctx, add.Call.Args[1]}
	waitMemo := map[c18XV]bool{}
	isWait := func(v c18XV) bool {
		o := x.Canon(v)
		if res, ok := waitMemo[o]; ok {
			return res
		}
		res := false
		if _, isConst := o.V.(*ssa.Const); !isConst {
			if b, ok := o.V.Type().Underlying().(*types.Basic); ok && b.Info()&types.IsInteger != 0 {
				res = x.Depends(dur, func(y c18XV) bool { return c18SameXV(x.Canon(y), o) || y == o })
			}
		}
		waitMemo[o] = res
		return res
	}
	nowCall := func(v c18XV) bool {
		cl, ok := v.V.(*ssa.Call)
		return ok && (CallSite{cl.Parent(), cl}).IsStatic("time", "", "Now")
	}
	mkAssume := func(before bool) c18Assume {
		var ev func(n *c18XB, ctx *c18Ctx, cond ssa.Value, depth int) (bool, bool)
		ev = func(n *c18XB, ctx *c18Ctx, cond ssa.Value, depth int) (bool, bool) {
			if depth > 8 {
				return false, false
			}
			rv := x.ResolveIn(n, ctx, cond)
			switch t := rv.V.(type) {
			case *ssa.Const:
				if t.Value != nil && t.Value.Kind() == constant.Bool {
					return true, constant.BoolVal(t.Value)
				}
			case *ssa.UnOp:
				if t.Op == token.NOT {
					k, v := ev(n, rv.Ctx, t.X, depth+1)
					return k, !v
				}
			case *ssa.BinOp:
				if t.Op == token.EQL || t.Op == token.NEQ {
					l, rr := x.ResolveIn(n, rv.Ctx, t.X), x.ResolveIn(n, rv.Ctx, t.Y)
					var other c18XV
					if z, ok := x.ConstInt(rr); ok && z == 0 {
						other = l
					} else if z, ok := x.ConstInt(l); ok && z == 0 {
						other = rr
					}
					if other.V != nil && isWait(other) {
						return true, t.Op == token.NEQ // wait != 0 is assumed
					}
				}
			case *ssa.Call:
				cs := CallSite{t.Parent(), t}
				isBefore := cs.IsStatic("time", "Time", "Before")
				isAfter := cs.IsStatic("time", "Time", "After")
				if (isBefore || isAfter) && len(t.Call.Args) == 2 {
					recv, arg := x.ResolveIn(n, rv.Ctx, t.Call.Args[0]), x.ResolveIn(n, rv.Ctx, t.Call.Args[1])
					switch {
					case nowCall(recv) && c18SameXV(arg, deadline):
						return true, isBefore == before
					case c18SameXV(recv, deadline) && nowCall(arg):
						return true, isAfter == before
					}
				}
			}
			return false, false
		}
		return func(n *c18XB, cond ssa.Value) (bool, bool) { return ev(n, n.Ctx, cond, 0) }
	}
	// the storage queries, lifted out of go'd literals to the instruction that spawns them
	var queries []c18XI
	seenQ := map[c18XI]bool{}
	for _, q := range x.Calls(func(xi c18XI, c CallSite) bool {
		cc := c.Common()
		return cc.IsInvoke() && (cc.Method.Name() == "EnumerateBlobs" || cc.Method.Name() == "StatBlobs")
	}) {
		a := x.Anchor(q, w.Ctx)
		if !seenQ[a] {
			seenQ[a] = true
			queries = append(queries, a)
		}
	}
	if len(queries) == 0 {
		r.Undecided("N-longpoll", key+"#query", site, "no EnumerateBlobs/StatBlobs query found in a handler that long-polls")
		return
	}
	qpos := c18Pos(p, queries[0].In)
	entry := c18XI{x.Entry.Ctx, x.Entry.B.Instrs[0]}
	beforeReach := x.Reach(entry, mkAssume(true))
	anyBefore, waitAfter, again := false, false, false
	for _, q := range queries {
		if beforeReach[q] || q == entry {
			anyBefore = true
		}
		if x.Reach(q, mkAssume(true))[w] {
			waitAfter = true
		}
		late := x.Reach(q, mkAssume(false))
		for _, q2 := range queries {
			if late[q2] {
				again = true
			}
		}
	}
	if os.Getenv("C18DEBUG") == "graph" {
		x.dump()
	}
	r.Check(anyBefore, "N-longpoll", key+"#query-before-deadline", qpos,
		"with long-poll requested and the deadline not yet passed, the storage query is reachable from entry",
		"with long-poll requested (wait seconds != 0) and the deadline not yet passed, no path from entry reaches the storage query: the handler answers without ever asking the storage (time comparison has the wrong polarity)")
	r.Check(waitAfter, "N-longpoll", key+"#wait-after-query", site,
		"with long-poll requested and the deadline not yet passed, WaitForBlob is reachable after the query",
		"with long-poll requested and the deadline not yet passed, WaitForBlob is unreachable after the query: the handler cannot wait for new blobs")
	r.Check(!again, "N-longpoll", key+"#stops-at-deadline", qpos,
		"once the deadline has passed the query cannot be reached again (the loop ends)",
		"with the deadline passed the storage query can still reach itself: the long-poll loop does not stop at the deadline")
}

// ---------------------------------------------------------------------------
// N-continue

// c18Def is one way a value may have been defined, with the facts known where
// that definition was chosen.
type c18Def struct {
	V     c18XV
	Facts []c18Fact
	Clamp bool // the definition is min(.., max)
}

// defs expands v through phis (per incoming edge), multi-store variables (per
// store), integer conversions and results of inlined calls (per return) down
// to the values that were assigned.
func (x *c18X) defs(v c18XV, isMax func(c18XV) bool) []c18Def {
	var out []c18Def
	seen := map[c18XV]bool{}
	var walk func(v c18XV, facts []c18Fact, depth int)
	walk = func(v c18XV, facts []c18Fact, depth int) {
		v = x.Canon(v)
		if depth > 24 || seen[v] {
			return
		}
		seen[v] = true
		switch t := v.V.(type) {
		case *ssa.Phi:
			for _, e := range x.PhiEdges(v) {
				walk(e.Val, e.Facts, depth+1)
			}
			return
		case *ssa.Convert:
			walk(c18XV{v.Ctx, t.X}, facts, depth+1)
			return
		case *ssa.UnOp:
			if t.Op == token.MUL {
				if cell, ok := varOf(t.X); ok {
					sts := storesTo(cell)
					for _, st := range sts {
						for _, c := range x.ctxsFor(v.Ctx, st.Parent()) {
							walk(c18XV{c, st.Val}, x.FactsOf(c18XI{c, st}), depth+1)
						}
					}
					if len(sts) > 0 {
						return
					}
				}
			}
		case *ssa.Call:
			if b, ok := t.Call.Value.(*ssa.Builtin); ok && b.Name() == "min" {
				for _, a := range t.Call.Args {
					if isMax != nil && isMax(c18XV{v.Ctx, a}) {
						out = append(out, c18Def{v, facts, true})
						return
					}
				}
			}
			if child := x.child[c18XI{v.Ctx, t}]; child != nil && child.Kind == c18KCall && t.Call.Signature().Results().Len() == 1 {
				for _, rn := range x.returnNodes(child) {
					rt := rn.last().(*ssa.Return)
					walk(x.resolveRaw(rn, c18RetVal(rt.Results[0], rt)), x.FactsAt(rn), depth+1)
				}
				return
			}
		case *ssa.Extract:
			if c, ok := t.Tuple.(*ssa.Call); ok {
				if child := x.child[c18XI{v.Ctx, c}]; child != nil && child.Kind == c18KCall {
					for _, rn := range x.returnNodes(child) {
						rt := rn.last().(*ssa.Return)
						if t.Index < len(rt.Results) {
							walk(x.resolveRaw(rn, c18RetVal(rt.Results[t.Index], rt)), x.FactsAt(rn), depth+1)
						}
					}
					return
				}
			}
		}
		out = append(out, c18Def{v, facts, false})
	}
	walk(v, nil, 0)
	return out
}

func c18Continue(p *Program, r *Reporter) {
	h := c18Handler1(p, "enumerate-blobs")
	x, key := h.X, h.Key
	enumIface := p.Iface("pkg/blobserver", "BlobEnumerator")
	qs := c18UniqInstr(x.Calls(func(xi c18XI, c CallSite) bool { return c.IsMethod("EnumerateBlobs", enumIface) }))
	if len(qs) != 1 {
		brokenf("anchor unresolved: expected exactly one EnumerateBlobs call in the effective body of %s, found %d", key, len(qs))
	}
	q := qs[0]
	qc := CallSite{q.Ctx.Fn, q.In.(ssa.CallInstruction)}
	qpos := c18Pos(p, q.In)
	args := qc.Args() // recv, ctx, dest, after, limit
	formCall := func(name string) func(c18XV) bool {
		return func(v c18XV) bool {
			if _, ok := v.V.(*ssa.Call); !ok {
				return false
			}
			s, ok := x.reqKeyOf(v)
			return ok && s == name
		}
	}
	afterArg, limitArg := c18XV{q.Ctx, args[3]}, c18XV{q.Ctx, args[4]}
	r.Check(x.Depends(afterArg, formCall("after")), "N-continue", key+"#after-arg", qpos,
		"the cursor passed to EnumerateBlobs derives from the request's 'after' parameter",
		"the cursor passed to EnumerateBlobs does not derive from FormValue(\"after\"): a continuation request restarts or skips")
	r.Check(x.Depends(limitArg, formCall("limit")), "N-continue", key+"#limit-arg", qpos,
		"the limit passed to EnumerateBlobs derives from the request's 'limit' parameter",
		"the limit passed to EnumerateBlobs does not derive from FormValue(\"limit\")")
	// every definition of the limit value that derives from the parsed request
	// value is on the not-greater edge of a comparison with the storage maximum
	isParsed := func(v c18XV) bool {
		cl, ok := v.V.(*ssa.Call)
		if !ok {
			return false
		}
		cs := CallSite{cl.Parent(), cl}
		return cs.IsStatic("strconv", "", "ParseUint") || cs.IsStatic("strconv", "", "Atoi") || cs.IsStatic("strconv", "", "ParseInt")
	}
	depParsed := func(v c18XV) bool { return x.Depends(v, isParsed) }
	isMax := func(v c18XV) bool {
		return x.Depends(v, func(y c18XV) bool {
			cl, ok := y.V.(*ssa.Call)
			return ok && cl.Call.IsInvoke() && cl.Call.Method.Name() == "MaxEnumerate"
		})
	}
	okClamp, parsedDefs, why := true, 0, ""
	for _, d := range x.defs(limitArg, isMax) {
		if !depParsed(d.V) {
			continue
		}
		parsedDefs++
		clamped := d.Clamp
		for _, f := range d.Facts {
			bo, ok := f.Cond.(*ssa.BinOp)
			if !ok {
				continue
			}
			l, rr := x.resolveRaw(f.At, bo.X), x.resolveRaw(f.At, bo.Y)
			lp, rp := depParsed(l), depParsed(rr)
			lm, rm := isMax(l), isMax(rr)
			switch {
			case lp && rm && (bo.Op == token.GTR && !f.Val || bo.Op == token.LEQ && f.Val || bo.Op == token.GEQ && !f.Val || bo.Op == token.LSS && f.Val):
				clamped = true
			case rp && lm && (bo.Op == token.LSS && !f.Val || bo.Op == token.GEQ && f.Val || bo.Op == token.LEQ && !f.Val || bo.Op == token.GTR && f.Val):
				clamped = true
			}
		}
		if !clamped {
			okClamp = false
			line := 0
			if in, ok := d.V.V.(ssa.Instruction); ok {
				line = p.Fset.Position(in.Pos()).Line
			}
			why = fmt.Sprintf("the parsed request value assigned to the limit at line %d is not guarded by a comparison with the storage's MaxEnumerate", line)
		}
	}
	if parsedDefs == 0 {
		okClamp, why = false, "no assignment of the parsed 'limit' value to the limit passed to EnumerateBlobs found"
	}
	r.Check(okClamp, "N-continue", key+"#limit-clamp", qpos,
		"the client-supplied limit reaches EnumerateBlobs only when not greater than the storage's maximum", why)
	// continueAfter emission
	conts := x.formatCalls(func(f string) bool { return strings.Contains(f, "continueAfter") })
	{
		seen := map[ssa.Instruction]bool{}
		var u []c18Fmt
		for _, c := range conts {
			if !seen[c.Call.In] {
				seen[c.Call.In] = true
				u = append(u, c)
			}
		}
		conts = u
	}
	if len(conts) != 1 || len(conts[0].Args) != 1 {
		r.Violation("N-continue", key+"#continueAfter", p.Pos(h.Req.Fn.Pos()), "the handler no longer writes exactly one continueAfter member from one value: full pages cannot be continued")
		r.Floor("N-continue", 7)
		return
	}
	cont := conts[0]
	cpos := c18Pos(p, cont.Call.In)
	cv := x.Canon(cont.Args[0])
	// (1) emitted only when non-empty
	nonEmpty := false
	for _, f := range x.FactsOf(cont.Call) {
		if bo, ok := f.Cond.(*ssa.BinOp); ok && (bo.Op == token.NEQ && f.Val || bo.Op == token.EQL && !f.Val) {
			l, rr := x.resolveRaw(f.At, bo.X), x.resolveRaw(f.At, bo.Y)
			if s, ok := x.ConstString(rr); ok && s == "" && x.Same(l, cv) {
				nonEmpty = true
			}
			if s, ok := x.ConstString(l); ok && s == "" && x.Same(rr, cv) {
				nonEmpty = true
			}
		}
		if v, kind, pos, isStr, ok := x.cmpZero(f.At, f.Cond, f.Val); ok && isStr && kind == c18NonEmpty && pos && x.Same(v, cv) {
			nonEmpty = true
		}
	}
	r.Check(nonEmpty, "N-continue", key+"#continueAfter-nonempty", cpos,
		"continueAfter is written only under value != \"\"", "continueAfter is written without testing that the value is non-empty: clients loop forever on the last page")
	// (2) derives from Ref.String() of a value received from the channel fed by the query
	fromRecv := x.Depends(cv, func(y c18XV) bool {
		cl, ok := y.V.(*ssa.Call)
		if !ok || !(CallSite{cl.Parent(), cl}).IsStatic("perkeep.org/pkg/blob", "Ref", "String") {
			return false
		}
		return x.Depends(c18XV{y.Ctx, cl.Call.Args[0]}, func(z c18XV) bool {
			u, ok := z.V.(*ssa.UnOp)
			if ok && u.Op == token.ARROW {
				return true
			}
			// `for sb := range ch` over a channel: Next of a Range is not used for channels; select receive
			_, isSel := z.V.(*ssa.Select)
			return isSel
		})
	})
	r.Check(fromRecv, "N-continue", key+"#continueAfter-last-ref", cpos,
		"the continueAfter value derives from the String() of a ref received from the enumeration channel",
		"the continueAfter value does not derive from a ref received from the enumeration: the next page would not start after the last emitted blob")
	// (3) cleared on the short-page edge
	cleared, clearWhy := c18ShortPageReset(x, cv, limitArg)
	r.Check(cleared, "N-continue", key+"#short-page-reset", cpos,
		"the continuation value is reset to \"\" on the edge where fewer blobs than the limit were received", clearWhy)
	// (4) an enumeration error exits before the terminator writes
	errRecvs := x.Instrs(func(xi c18XI) bool {
		u, ok := xi.In.(*ssa.UnOp)
		return ok && u.Op == token.ARROW && isErrorType(u.Type())
	})
	if len(errRecvs) == 0 {
		r.Violation("N-continue", key+"#error-exit", qpos, "the handler no longer receives the enumeration's error result: a failed enumeration would be reported as a complete list")
	} else {
		okErr := false
		why := "the enumeration error is never tested"
		for _, er := range errRecvs {
			ev := c18XV{er.Ctx, er.In.(*ssa.UnOp)}
			for _, n := range x.Nodes {
				ifi := n.ifInstr()
				if ifi == nil {
					continue
				}
				k, isNil := x.condNil(n, ifi.Cond, true, ev)
				if !k {
					continue
				}
				errSucc := n.IfSucc[0]
				if isNil {
					errSucc = n.IfSucc[1]
				}
				if errSucc == nil {
					continue
				}
				okErr = true
				for xi := range x.ReachFromNode(errSucc, nil) {
					ci, ok := xi.In.(ssa.CallInstruction)
					if !ok {
						continue
					}
					cs := CallSite{xi.Ctx.Fn, ci}
					if cs.IsStatic("io", "", "WriteString") || cs.IsStatic("fmt", "", "Fprintf") || cs.IsStatic("fmt", "", "Fprint") {
						for _, a := range cs.Common().Args {
							if s, ok := x.ConstString(c18XV{xi.Ctx, a}); ok && (strings.Contains(s, "]") || strings.Contains(s, "continueAfter")) && !strings.Contains(s, "{{{") {
								okErr = false
								why = fmt.Sprintf("from the err != nil edge of the enumeration result the write %q at line %d is reachable: a failed enumeration is answered as a well-formed (truncated) list", s, p.Fset.Position(cs.Pos()).Line)
							}
						}
					}
				}
			}
		}
		r.Check(okErr, "N-continue", key+"#error-exit", c18Pos(p, errRecvs[len(errRecvs)-1].In),
			"on the err != nil edge of the enumeration result the list/continuation terminator writes are unreachable", why)
	}
	r.Floor("N-continue", 7)
}

// c18ShortPageReset: somewhere on the phi chain feeding cv there is a phi with
// a "" edge coming from the true edge of `count < limit` (or an equivalent
// form), where limit is the very value passed to EnumerateBlobs and count is a
// loop counter (phi of 0 and itself+1).
func c18ShortPageReset(x *c18X, cv, limit c18XV) (bool, string) {
	seen := map[c18XV]bool{}
	type edge struct {
		facts []c18Fact
	}
	var empties []edge
	var walk func(v c18XV, depth int)
	walk = func(v c18XV, depth int) {
		v = x.Canon(v)
		if seen[v] || depth > 24 {
			return
		}
		seen[v] = true
		if _, ok := v.V.(*ssa.Phi); ok {
			for _, e := range x.PhiEdges(v) {
				if s, ok := x.ConstString(e.Val); ok && s == "" {
					empties = append(empties, edge{e.Facts})
					continue
				}
				walk(e.Val, depth+1)
			}
			return
		}
		// results of inlined helpers returning on several paths
		for _, d := range x.defs(v, nil) {
			if d.V != v {
				if s, ok := x.ConstString(d.V); ok && s == "" {
					empties = append(empties, edge{d.Facts})
					continue
				}
				walk(d.V, depth+1)
			}
		}
	}
	walk(cv, 0)
	isCounter := func(v c18XV) bool {
		v = x.Canon(v)
		ph, ok := v.V.(*ssa.Phi)
		if !ok {
			return false
		}
		zero, inc := false, false
		for _, e := range ph.Edges {
			if z, ok := x.ConstInt(c18XV{v.Ctx, e}); ok && z == 0 {
				zero = true
			}
			if bo, ok := e.(*ssa.BinOp); ok && bo.Op == token.ADD && bo.X == ssa.Value(ph) {
				if o, ok := x.ConstInt(c18XV{v.Ctx, bo.Y}); ok && o == 1 {
					inc = true
				}
			}
		}
		return zero && inc
	}
	isLimit := func(v c18XV) bool {
		a, b := x.Canon(v), x.Canon(limit)
		if c18SameXV(a, b) {
			return true
		}
		la, ok1 := a.V.(*ssa.UnOp)
		lb, ok2 := b.V.(*ssa.UnOp)
		if ok1 && ok2 && la.Op == token.MUL && lb.Op == token.MUL {
			c1, k1 := varOf(la.X)
			c2, k2 := varOf(lb.X)
			return k1 && k2 && c1 == c2
		}
		return false
	}
	for _, e := range empties {
		for _, f := range e.facts {
			bo, ok := f.Cond.(*ssa.BinOp)
			if !ok {
				continue
			}
			l, rr := x.resolveRaw(f.At, bo.X), x.resolveRaw(f.At, bo.Y)
			cl := isCounter(l) && isLimit(rr)
			lc := isLimit(l) && isCounter(rr)
			switch {
			case cl && (bo.Op == token.LSS && f.Val || bo.Op == token.GEQ && !f.Val || bo.Op == token.NEQ && f.Val || bo.Op == token.EQL && !f.Val):
				return true, ""
			case lc && (bo.Op == token.GTR && f.Val || bo.Op == token.LEQ && !f.Val || bo.Op == token.NEQ && f.Val || bo.Op == token.EQL && !f.Val):
				return true, ""
			}
		}
	}
	return false, "the continuation value is never reset to \"\" on a 'received count < limit' edge (limit being the value passed to EnumerateBlobs): a short (last) page would still announce a continuation, or a full page would not"
}

// ---------------------------------------------------------------------------
// request-key atoms

// atom kinds, ordered by implication: kind k holds => every lower kind holds.
const (
	c18NonEmpty   = 0 // the key's value is not ""
	c18IntNonZero = 1 // the key's value parses to an integer != 0
	c18IntPos     = 2 // the key's value parses to an integer > 0
)

type c18Atom struct {
	Key  string
	Kind int
	Pos  bool
}

func (a c18Atom) String() string {
	switch a.Kind {
	case c18NonEmpty:
		if a.Pos {
			return a.Key + `!=""`
		}
		return a.Key + `==""`
	case c18IntNonZero:
		if a.Pos {
			return "int(" + a.Key + ")!=0"
		}
		return "int(" + a.Key + ")==0"
	default:
		if a.Pos {
			return "int(" + a.Key + ")>0"
		}
		return "int(" + a.Key + ")<=0"
	}
}

func c18AtomsString(as []c18Atom) string {
	var s []string
	for _, a := range as {
		s = append(s, a.String())
	}
	return strings.Join(s, " && ")
}

// cmpZero normalises a comparison (evaluated in node n) of some value with the
// constants "" / 0 / 1 into (value, kind, pos): "cond == val" means atom(kind)
// on value has polarity pos. isStr tells which constant family matched. The
// returned value is canonical.
func (x *c18X) cmpZero(n *c18XB, cond ssa.Value, val bool) (v c18XV, kind int, pos, isStr, ok bool) {
	rc := x.resolveRaw(n, cond)
	ctx := rc.Ctx
	res := func(o ssa.Value) c18XV {
		if ctx == n.Ctx {
			return x.Resolve(n, o)
		}
		return x.Canon(c18XV{ctx, o})
	}
	cur := rc.V
	for {
		u, isNot := cur.(*ssa.UnOp)
		if !isNot || u.Op != token.NOT {
			break
		}
		cur, val = u.X, !val
	}
	bo, isBin := cur.(*ssa.BinOp)
	if !isBin {
		return c18XV{}, 0, false, false, false
	}
	op := bo.Op
	lhs, rhs := res(bo.X), res(bo.Y)
	rawL := bo.X
	if _, lc := lhs.V.(*ssa.Const); lc {
		lhs, rhs = rhs, lhs
		rawL = bo.Y
		switch op {
		case token.LSS:
			op = token.GTR
		case token.GTR:
			op = token.LSS
		case token.LEQ:
			op = token.GEQ
		case token.GEQ:
			op = token.LEQ
		}
	}
	if s, isS := x.ConstString(rhs); isS {
		if s != "" {
			return c18XV{}, 0, false, false, false
		}
		switch op {
		case token.EQL:
			return lhs, c18NonEmpty, !val, true, true
		case token.NEQ:
			return lhs, c18NonEmpty, val, true, true
		}
		return c18XV{}, 0, false, false, false
	}
	c, isI := x.ConstInt(rhs)
	if !isI {
		return c18XV{}, 0, false, false, false
	}
	// len(s) compared with 0/1 is a statement about s's emptiness
	lenOf := func(v ssa.Value, vctx *c18Ctx) (c18XV, bool) {
		cl, isCall := v.(*ssa.Call)
		if !isCall {
			return c18XV{}, false
		}
		if b, isB := cl.Call.Value.(*ssa.Builtin); isB && b.Name() == "len" && len(cl.Call.Args) == 1 {
			if bt, isBasic := cl.Call.Args[0].Type().Underlying().(*types.Basic); isBasic && bt.Info()&types.IsString != 0 {
				return x.Canon(c18XV{vctx, cl.Call.Args[0]}), true
			}
		}
		return c18XV{}, false
	}
	sv, isLen := lenOf(lhs.V, lhs.Ctx)
	if !isLen {
		sv, isLen = lenOf(rawL, ctx)
	}
	if isLen {
		switch {
		case c == 0 && op == token.EQL, c == 0 && op == token.LEQ, c == 1 && op == token.LSS:
			return sv, c18NonEmpty, !val, true, true
		case c == 0 && op == token.NEQ, c == 0 && op == token.GTR, c == 1 && op == token.GEQ:
			return sv, c18NonEmpty, val, true, true
		}
		return c18XV{}, 0, false, false, false
	}
	switch {
	case c == 0 && op == token.EQL:
		return lhs, c18IntNonZero, !val, false, true
	case c == 0 && op == token.NEQ:
		return lhs, c18IntNonZero, val, false, true
	case c == 0 && op == token.GTR, c == 1 && op == token.GEQ:
		return lhs, c18IntPos, val, false, true
	case c == 0 && op == token.LEQ, c == 1 && op == token.LSS:
		return lhs, c18IntPos, !val, false, true
	}
	return c18XV{}, 0, false, false, false
}

// reqIntKeyOf: v is the integer parsed from the value of request key K.
func (x *c18X) reqIntKeyOf(v c18XV) (string, bool) {
	for i := 0; i < 4; i++ {
		o := x.Canon(v)
		if cv, ok := o.V.(*ssa.Convert); ok {
			v = c18XV{o.Ctx, cv.X}
			continue
		}
		ex, ok := o.V.(*ssa.Extract)
		if !ok || ex.Index != 0 {
			return "", false
		}
		cl, ok := ex.Tuple.(*ssa.Call)
		if !ok {
			return "", false
		}
		cs := CallSite{cl.Parent(), cl}
		if cs.IsStatic("strconv", "", "Atoi") || cs.IsStatic("strconv", "", "ParseInt") || cs.IsStatic("strconv", "", "ParseUint") {
			return x.reqKeyOf(c18XV{o.Ctx, cl.Call.Args[0]})
		}
		return "", false
	}
	return "", false
}

// serverAtom interprets a handler branch condition as an atom over a request key.
func (x *c18X) serverAtom(n *c18XB, cond ssa.Value, val bool) (c18Atom, bool) {
	v, kind, pos, isStr, ok := x.cmpZero(n, cond, val)
	if !ok {
		return c18Atom{}, false
	}
	if isStr {
		if k, ok := x.reqKeyOf(v); ok {
			return c18Atom{k, kind, pos}, true
		}
		return c18Atom{}, false
	}
	if k, ok := x.reqIntKeyOf(v); ok {
		return c18Atom{k, kind, pos}, true
	}
	return c18Atom{}, false
}

// ---------------------------------------------------------------------------
// N-stat

// c18IsReject: the instruction instance writes an error response (status >= 400).
func (x *c18X) isReject(ctx *c18Ctx, in ssa.Instruction) bool {
	cl, ok := in.(*ssa.Call)
	if !ok {
		return false
	}
	cs := CallSite{cl.Parent(), cl}
	if f := cs.Callee(); f != nil && f.Pkg != nil {
		switch f.Pkg.Pkg.Path() {
		case "perkeep.org/internal/httputil":
			if f.Name() == "ReturnJSONCode" {
				c, ok := x.ConstInt(c18XV{ctx, cl.Call.Args[1]})
				return ok && c >= 400
			}
			n := f.Name()
			return len(n) >= 5 && n[len(n)-5:] == "Error" || n == "ErrorRouting"
		case "net/http":
			if f.Name() == "Error" || f.Name() == "NotFound" {
				return true
			}
		}
	}
	if cs.MethodName() == "WriteHeader" {
		args := cs.Args()
		if len(args) == 2 {
			c, ok := x.ConstInt(c18XV{ctx, args[1]})
			return ok && c >= 400
		}
	}
	return false
}

func c18Stat(p *Program, r *Reporter) {
	h := c18Handler1(p, "stat")
	x, key := h.X, h.Key
	isFormCall := func(v c18XV) bool {
		if _, ok := v.V.(*ssa.Call); !ok {
			return false
		}
		_, ok := x.reqKeyArg(v)
		return ok
	}
	// (1) the map update recording a requested ref is dominated by blob.Parse ok==true on the form value
	// and by the within-limit edge of the count check
	upds := c18UniqInstr(x.Instrs(func(xi c18XI) bool {
		mu, ok := xi.In.(*ssa.MapUpdate)
		if !ok {
			return false
		}
		n := NamedOf(mu.Key.Type())
		return n != nil && n.Obj().Name() == "Ref" && x.Depends(c18XV{xi.Ctx, mu.Key}, isFormCall)
	}))
	if len(upds) == 0 {
		// a recording that does not derive from the form value at all
		upds = c18UniqInstr(x.Instrs(func(xi c18XI) bool {
			mu, ok := xi.In.(*ssa.MapUpdate)
			if !ok {
				return false
			}
			n := NamedOf(mu.Key.Type())
			return n != nil && n.Obj().Name() == "Ref"
		}))
	}
	if len(upds) == 0 {
		brokenf("anchor unresolved: map update recording a requested ref in the effective body of %s", key)
	}
	for _, upd := range upds {
		mu := upd.In.(*ssa.MapUpdate)
		facts := x.FactsOf(upd)
		parseOK, fromForm := false, false
		kv := x.Canon(c18XV{upd.Ctx, mu.Key})
		if ex, ok := kv.V.(*ssa.Extract); ok {
			if cl, ok := ex.Tuple.(*ssa.Call); ok && (CallSite{cl.Parent(), cl}).IsStatic("perkeep.org/pkg/blob", "", "Parse") {
				fromForm = x.Depends(c18XV{kv.Ctx, cl.Call.Args[0]}, isFormCall)
				if okv := ResultValue(cl, 1); okv != nil {
					okx := c18XV{kv.Ctx, okv}
					for _, f := range facts {
						if f.Val && x.Same(x.resolveRaw(f.At, f.Cond), okx) {
							parseOK = true
						}
						if u, isNot := f.Cond.(*ssa.UnOp); isNot && u.Op == token.NOT && !f.Val && x.Same(x.resolveRaw(f.At, u.X), okx) {
							parseOK = true
						}
					}
				}
			}
		}
		r.Check(parseOK && fromForm, "N-stat", key+"#record-parsed", c18Pos(p, upd.In),
			"a requested ref is recorded only when blob.Parse of the form value succeeded",
			"the ref recorded for stat is not the successfully parsed form value: malformed requests are silently answered")
		bound := false
		for _, f := range facts {
			if bo, ok := f.Cond.(*ssa.BinOp); ok {
				l, rr := x.resolveRaw(f.At, bo.X), x.resolveRaw(f.At, bo.Y)
				if c, ok := x.ConstInt(rr); ok && c >= 1 && (bo.Op == token.GTR && !f.Val || bo.Op == token.LEQ && f.Val || bo.Op == token.GEQ && !f.Val || bo.Op == token.LSS && f.Val) {
					if _, ok := x.firstValue(l, 0); ok {
						bound = true
					}
				}
				if c, ok := x.ConstInt(l); ok && c >= 1 && (bo.Op == token.LSS && !f.Val || bo.Op == token.GEQ && f.Val || bo.Op == token.LEQ && !f.Val || bo.Op == token.GTR && f.Val) {
					if _, ok := x.firstValue(rr, 0); ok {
						bound = true
					}
				}
			}
		}
		r.Check(bound, "N-stat", key+"#count-bound", c18Pos(p, upd.In),
			"recording a requested ref is on the within-limit edge of the per-request count check",
			"the per-request count check no longer guards the recording of requested refs")
	}
	// (1b) the 'too many' rejection is decided only after a non-empty value was
	// read for that index: a batch of exactly the limit is answered
	overLimit := func(f c18Fact) bool {
		bo, ok := f.Cond.(*ssa.BinOp)
		if !ok {
			return false
		}
		l, rr := x.resolveRaw(f.At, bo.X), x.resolveRaw(f.At, bo.Y)
		if c, ok := x.ConstInt(rr); ok && c >= 1 && (bo.Op == token.GTR && f.Val || bo.Op == token.LEQ && !f.Val || bo.Op == token.GEQ && f.Val || bo.Op == token.LSS && !f.Val) {
			_, ok := x.firstValue(l, 0)
			return ok
		}
		if c, ok := x.ConstInt(l); ok && c >= 1 && (bo.Op == token.LSS && f.Val || bo.Op == token.GEQ && !f.Val || bo.Op == token.LEQ && f.Val || bo.Op == token.GTR && !f.Val) {
			_, ok := x.firstValue(rr, 0)
			return ok
		}
		return false
	}
	nOver := 0
	for _, rj := range c18UniqInstr(x.Instrs(func(xi c18XI) bool { return xi.Ctx.within(h.Req) && x.isReject(xi.Ctx, xi.In) })) {
		facts := x.FactsOf(rj)
		isOver := false
		for _, f := range facts {
			isOver = isOver || overLimit(f)
		}
		if !isOver {
			continue
		}
		nOver++
		present := false
		for _, f := range facts {
			v, kind, pos, isStr, ok := x.cmpZero(f.At, f.Cond, f.Val)
			if !ok || !isStr || kind != c18NonEmpty || !pos {
				continue
			}
			if a, ok := x.reqKeyArg(v); ok {
				if _, _, ok := x.numberedKey(a); ok {
					present = true
				}
			}
		}
		r.Check(present, "N-stat", key+"#limit-reject-after-presence", c18Pos(p, rj.In),
			"the 'too many blobs' rejection is reached only after a non-empty value was read for the numbered key of that index",
			"the per-request count is rejected before the numbered key of that index was found non-empty: a stat batch of exactly the limit (the documented always-supported size) is refused with an error")
	}
	if nOver == 0 {
		r.OKTable("N-stat", key+"#limit-reject-after-presence", p.Pos(h.Req.Fn.Pos()), "the handler has no count-based rejection")
	}
	// (2) error exit: from err != nil of StatBlobs, ReturnJSON unreachable
	statIface := p.Iface("pkg/blobserver", "BlobStatter")
	qs := c18UniqInstr(x.Calls(func(xi c18XI, c CallSite) bool { return c.IsMethod("StatBlobs", statIface) && c.Value() != nil }))
	if len(qs) != 1 {
		brokenf("anchor unresolved: StatBlobs call in the effective body of %s (found %d)", key, len(qs))
	}
	q := qs[0]
	qcall := q.In.(*ssa.Call)
	rets := x.Calls(func(xi c18XI, c CallSite) bool { return c.IsStatic("perkeep.org/internal/httputil", "", "ReturnJSON") })
	okErr := len(rets) > 0
	why := "no ReturnJSON call found"
	ev, _, discarded := ErrValue(qcall)
	if discarded || ev == nil {
		okErr, why = false, "the error result of StatBlobs is discarded"
	} else {
		evx := c18XV{q.Ctx, ev}
		tested := false
		for _, n := range x.Nodes {
			ifi := n.ifInstr()
			if ifi == nil {
				continue
			}
			k, isNil := x.condNil(n, ifi.Cond, true, evx)
			if !k {
				continue
			}
			tested = true
			errSucc := n.IfSucc[0]
			if isNil {
				errSucc = n.IfSucc[1]
			}
			if errSucc == nil {
				continue
			}
			reach := x.ReachFromNode(errSucc, nil)
			for _, rc := range rets {
				if reach[rc] {
					okErr = false
					why = "ReturnJSON (200 + JSON) is reachable from the err != nil edge of StatBlobs: a failed stat is answered as 'these blobs are absent'"
				}
			}
		}
		if !tested {
			okErr, why = false, "the error of StatBlobs is never tested"
		}
	}
	r.Check(okErr, "N-stat", key+"#error-exit", c18Pos(p, q.In), "ReturnJSON is unreachable from the err != nil edge of StatBlobs", why)
	// (3) the callback appends its own argument
	okCb := false
	for _, lit := range FuncArgClosures(CallSite{q.Ctx.Fn, qcall}) {
		if len(lit.Params) != 1 {
			continue
		}
		for _, cb := range x.ctxsOf[lit] {
			param := c18XV{cb, lit.Params[0]}
			for _, ap := range x.Calls(func(xi c18XI, c CallSite) bool {
				b, ok := c.Common().Value.(*ssa.Builtin)
				return ok && b.Name() == "append" && xi.Ctx.within(cb)
			}) {
				for _, el := range x.varargs(ap.Ctx, ap.In.(ssa.CallInstruction).Common().Args[1]) {
					if x.Depends(el, func(y c18XV) bool { return y == param }) {
						okCb = true
					}
				}
			}
		}
	}
	r.Check(okCb, "N-stat", key+"#callback-appends-arg", c18Pos(p, q.In),
		"the StatBlobs callback appends its own SizedRef argument to the response",
		"the StatBlobs callback does not append its own argument to the response")
	r.Floor("N-stat", 5)
}

// ---------------------------------------------------------------------------
// N-get

func c18Get(p *Program, r *Reporter) {
	fn := p.Func("pkg/blobserver/gethandler", "", "ServeBlobRef")
	x := c18Graph(p, fn)
	key := FuncKey(fn)
	fetchIface := p.Iface("pkg/blob", "Fetcher")
	fs := c18UniqInstr(x.Calls(func(xi c18XI, c CallSite) bool { return c.IsMethod("Fetch", fetchIface) && c.Value() != nil }))
	if len(fs) != 1 {
		brokenf("anchor unresolved: Fetch call in the effective body of %s (found %d)", key, len(fs))
	}
	f := fs[0]
	fcall := f.In.(*ssa.Call)
	serves := x.Calls(func(xi c18XI, c CallSite) bool { return c.IsStatic("net/http", "", "ServeContent") })
	if len(serves) == 0 {
		brokenf("anchor unresolved: http.ServeContent call in the effective body of %s", key)
	}
	rc, size := ResultValue(fcall, 0), ResultValue(fcall, 1)
	ev, hasErr, discarded := ErrValue(fcall)
	evx := c18XV{f.Ctx, ev}
	for _, s := range serves {
		ok, why := x.Precedes(f, s), "call does not dominate the site"
		if ok && hasErr {
			switch {
			case discarded || ev == nil:
				ok, why = false, "error result of the call is discarded"
			default:
				k, isNil := x.NilFact(x.FactsOf(s), evx)
				if !(k && isNil) {
					ok, why = false, "site is not on the err==nil edge of the call"
				}
			}
		}
		r.Check(ok, "N-get", key+"#serve-after-fetch-ok", c18Pos(p, s.In),
			"http.ServeContent is reached only on the err==nil edge of Fetch", "http.ServeContent is reachable without a successful Fetch: "+why)
		content := c18XV{s.Ctx, s.In.(ssa.CallInstruction).Common().Args[4]}
		depRC := rc != nil && x.Depends(content, func(y c18XV) bool { return y == c18XV{f.Ctx, rc} })
		depSize := size != nil && x.Depends(content, func(y c18XV) bool { return y == c18XV{f.Ctx, size} })
		r.Check(depRC && depSize, "N-get", key+"#content-from-fetch", c18Pos(p, s.In),
			"the served content derives from the reader and the size returned by that Fetch",
			fmt.Sprintf("the served content does not derive from both results of the Fetch (reader: %v, size: %v): length or bytes may differ from the stored blob", depRC, depSize))
	}
	// the reader is closed on every path after a successful fetch: every path
	// from the fetch (followed along err == nil) to an exit passes a Close of
	// the reader, called or deferred
	closed, cwhy := false, "the fetched reader is not used"
	if rc != nil && ev != nil {
		rcx := c18XV{f.Ctx, rc}
		stop := func(n *c18XB, in ssa.Instruction) bool {
			ci, ok := in.(ssa.CallInstruction)
			if !ok {
				return false
			}
			cc := ci.Common()
			if cc.IsInvoke() && cc.Method.Name() == "Close" {
				return x.MayBe(x.resolveRaw(n, cc.Value), rcx)
			}
			return false
		}
		leaks := x.Leaks(x.nodesOf[f], func(n *c18XB) int { return x.idx(n, f.In) + 1 }, stop, x.assumeNil(evx), x.Ctxs[0])
		closed = len(leaks) == 0
		if !closed {
			cwhy = fmt.Sprintf("the fetched reader is not closed on every path after a successful Fetch (leaks a file descriptor / gate slot per request): the return at %s is reached without a Close, called or deferred", c18Pos(p, leaks[0].In))
		}
	}
	r.Check(closed, "N-get", key+"#reader-closed", c18Pos(p, f.In),
		"on every path from a successful Fetch to an exit the reader's Close is called or deferred", cwhy)
	r.Floor("N-get", 3)
}

// ---------------------------------------------------------------------------
// client side: request text model (on the effective body of the function
// that creates the request)

type c18GFact struct {
	c18Fact
	N int // number of value-phis crossed (from the emission outward) when the fact was collected
}

type c18Frag struct {
	At      c18XI // formatting point
	Text    string
	Literal bool // Text is literal text, not a format string
	Args    []c18XV
	Guards  []c18Fact // facts under which the fragment is part of the request (phi edges, helper returns)
	Phis    []c18XI   // phis (and multi-return helper calls) crossed between the fragment and the request
	Uncond  bool      // part of every request created at the call
	Buf     c18XV     // buffer written to (zero for expression fragments)
}

type c18Request struct {
	X      *c18X
	Call   c18XI // the net/http.NewRequest* call instance
	Action string
	Frags  []*c18Frag
	Opaque []string
}

var c18ActionRE = regexp.MustCompile(`(?:^|/)camli/([a-z][a-z-]*)(?:$|\?)`)

// requests models every HTTP request created in the graph for a /camli/<action> URL.
func (x *c18X) requests() []*c18Request {
	var out []*c18Request
	for _, xi := range x.Calls(func(xi c18XI, c CallSite) bool {
		return c.Value() != nil && (c.IsStatic("net/http", "", "NewRequest") || c.IsStatic("net/http", "", "NewRequestWithContext"))
	}) {
		args := xi.In.(*ssa.Call).Call.Args
		var urlArg ssa.Value
		var bodyArgs []ssa.Value
		switch len(args) {
		case 3:
			urlArg, bodyArgs = args[1], args[2:]
		case 4:
			urlArg, bodyArgs = args[2], args[3:]
		default:
			continue
		}
		action := ""
		x.Depends(c18XV{xi.Ctx, urlArg}, func(y c18XV) bool {
			if c, ok := y.V.(*ssa.Const); ok && c.Value != nil && c.Value.Kind() == constant.String {
				if m := c18ActionRE.FindStringSubmatch(constant.StringVal(c.Value)); m != nil {
					action = m[1]
					return true
				}
			}
			return false
		})
		if action == "" {
			continue
		}
		rq := &c18Request{X: x, Call: xi, Action: action}
		rq.walkText(c18XV{xi.Ctx, urlArg}, nil, nil, true, map[c18XV]bool{}, 0)
		for _, b := range bodyArgs {
			rq.walkText(c18XV{xi.Ctx, b}, nil, nil, true, map[c18XV]bool{}, 0)
		}
		out = append(out, rq)
	}
	return out
}

func (rq *c18Request) opaque(v c18XV) {
	if v.V == nil {
		return
	}
	rq.Opaque = append(rq.Opaque, v.V.Name()+" ("+v.V.Type().String()+")")
}

func c18IsBufType(t types.Type) bool {
	pt, ok := t.(*types.Pointer)
	return ok && (IsNamed(pt.Elem(), "bytes", "Buffer") || IsNamed(pt.Elem(), "strings", "Builder"))
}

func (rq *c18Request) walkText(v c18XV, guards []c18Fact, phis []c18XI, uncond bool, seen map[c18XV]bool, depth int) {
	x := rq.X
	if v.V == nil || depth > 32 {
		return
	}
	v = x.Canon(v)
	add := func(f *c18Frag) {
		f.Guards = append([]c18Fact(nil), guards...)
		f.Phis = append([]c18XI(nil), phis...)
		rq.Frags = append(rq.Frags, f)
	}
	switch t := v.V.(type) {
	case *ssa.Const:
		if t.Value != nil && t.Value.Kind() == constant.String {
			add(&c18Frag{At: rq.Call, Text: constant.StringVal(t.Value), Literal: true, Uncond: uncond})
		}
	case *ssa.Convert:
		rq.walkText(c18XV{v.Ctx, t.X}, guards, phis, uncond, seen, depth+1)
	case *ssa.BinOp:
		if t.Op != token.ADD {
			rq.opaque(v)
			return
		}
		n := len(rq.Frags)
		rq.walkText(c18XV{v.Ctx, t.X}, guards, phis, uncond, seen, depth+1)
		y := c18XV{v.Ctx, t.Y}
		if x.texty(y, 0) {
			rq.walkText(y, guards, phis, uncond, seen, depth+1)
		} else if len(rq.Frags) > n && strings.HasSuffix(rq.Frags[len(rq.Frags)-1].Text, "=") {
			// "...key=" + value: the value of the last key of the preceding text
			last := rq.Frags[len(rq.Frags)-1]
			if last.Literal {
				last.Literal = false
				last.Text = strings.ReplaceAll(last.Text, "%", "%%")
			}
			last.Text += "%s"
			last.Args = append(last.Args, y)
		} else {
			rq.opaque(y)
		}
	case *ssa.Phi:
		if seen[v] {
			return
		}
		seen[v] = true
		if es := x.PhiEdges(v); len(es) == 1 {
			// the other edges are infeasible in this context: a copy
			rq.walkText(es[0].Val, guards, phis, uncond, seen, depth+1)
		} else {
			for _, e := range es {
				g := append(append([]c18Fact(nil), guards...), e.Facts...)
				rq.walkText(e.Val, g, append(append([]c18XI(nil), phis...), c18XI{v.Ctx, t}), false, seen, depth+1)
			}
		}
		delete(seen, v)
	case *ssa.Slice:
		for _, e := range c18VarargElems(t) {
			rq.walkText(c18XV{v.Ctx, e}, guards, phis, uncond, seen, depth+1)
		}
	case *ssa.UnOp:
		if t.Op == token.MUL {
			// element k of a variadic slice (newRequest(ctx, method, url, body...): body[0])
			if ia, ok := t.X.(*ssa.IndexAddr); ok {
				sl := x.Canon(c18XV{v.Ctx, ia.X})
				if c, isConst := sl.V.(*ssa.Const); isConst && c.Value == nil {
					return // indexing a nil slice: this path carries no text
				}
				if k, ok := x.ConstInt(c18XV{v.Ctx, ia.Index}); ok {
					if s, ok := sl.V.(*ssa.Slice); ok {
						if al, ok := s.X.(*ssa.Alloc); ok {
							found := false
							if refs := al.Referrers(); refs != nil {
								for _, u := range *refs {
									ia2, ok := u.(*ssa.IndexAddr)
									if !ok {
										continue
									}
									if k2, ok := ConstInt(ia2.Index); !ok || k2 != k {
										continue
									}
									if ir := ia2.Referrers(); ir != nil {
										for _, w := range *ir {
											if st, ok := w.(*ssa.Store); ok && st.Addr == ssa.Value(ia2) {
												found = true
												rq.walkText(c18XV{sl.Ctx, st.Val}, guards, phis, uncond, seen, depth+1)
											}
										}
									}
								}
							}
							if found {
								return
							}
						}
					}
				}
			}
		}
		rq.opaque(v)
	case *ssa.Alloc:
		if c18IsBufType(t.Type()) {
			rq.bufferWrites(v, guards, phis, uncond)
			return
		}
		rq.opaque(v)
	case *ssa.Call:
		cs := CallSite{t.Parent(), t}
		switch {
		case cs.IsStatic("fmt", "", "Sprintf"):
			if f, ok := x.ConstString(c18XV{v.Ctx, t.Call.Args[0]}); ok {
				add(&c18Frag{At: c18XI{v.Ctx, t}, Text: f, Args: x.varargs(v.Ctx, t.Call.Args[1]), Uncond: uncond})
				return
			}
			rq.opaque(v)
		case cs.IsStatic("strings", "", "NewReader"), cs.IsStatic("bytes", "", "NewReader"), cs.IsStatic("bytes", "", "NewBufferString"), cs.IsStatic("bytes", "", "NewBuffer"),
			cs.IsStatic("bytes", "Buffer", "String"), cs.IsStatic("strings", "Builder", "String"), cs.IsStatic("bytes", "Buffer", "Bytes"):
			rq.walkText(c18XV{v.Ctx, t.Call.Args[0]}, guards, phis, uncond, seen, depth+1)
		case cs.IsStatic("net/url", "Values", "Encode"):
			rq.valuesWrites(c18XV{v.Ctx, t.Call.Args[0]}, guards, phis, uncond)
		default:
			if rq.walkReturns(v, t, 0, guards, phis, seen, depth) {
				return
			}
			rq.opaque(v)
		}
	case *ssa.Extract:
		if c, ok := t.Tuple.(*ssa.Call); ok && rq.walkReturns(v, c, t.Index, guards, phis, seen, depth) {
			return
		}
		rq.opaque(v)
	case *ssa.Parameter, *ssa.FreeVar:
		rq.opaque(v)
	default:
		rq.opaque(v)
	}
}

// walkReturns: the text is the result of an inlined helper that returns on
// several paths: each returned value, under the facts of its return.
func (rq *c18Request) walkReturns(v c18XV, call *ssa.Call, idx int, guards []c18Fact, phis []c18XI, seen map[c18XV]bool, depth int) bool {
	x := rq.X
	child := x.child[c18XI{v.Ctx, call}]
	if child == nil || child.Kind != c18KCall {
		return false
	}
	rns := x.returnNodes(child)
	if len(rns) == 0 {
		return false
	}
	if seen[v] {
		return true
	}
	seen[v] = true
	for _, rn := range rns {
		rt := rn.last().(*ssa.Return)
		if idx >= len(rt.Results) {
			continue
		}
		g := append(append([]c18Fact(nil), guards...), x.FactsAt(rn)...)
		rq.walkText(x.resolveRaw(rn, c18RetVal(rt.Results[idx], rt)), g, append(append([]c18XI(nil), phis...), c18XI{v.Ctx, call}), false, seen, depth+1)
	}
	delete(seen, v)
	return true
}

// texty: v is a shape walkText models as request text (rather than as the
// value following a trailing "key=").
func (x *c18X) texty(v c18XV, depth int) bool {
	if depth > 6 {
		return false
	}
	v = x.Canon(v)
	switch t := v.V.(type) {
	case *ssa.Const:
		return true
	case *ssa.BinOp:
		return t.Op == token.ADD
	case *ssa.Phi:
		for _, e := range t.Edges {
			if x.texty(c18XV{v.Ctx, e}, depth+1) {
				return true
			}
		}
	case *ssa.Call:
		cs := CallSite{t.Parent(), t}
		return cs.IsStatic("fmt", "", "Sprintf") || cs.IsStatic("net/url", "Values", "Encode")
	}
	return false
}

func (rq *c18Request) bufferWrites(buf c18XV, guards []c18Fact, phis []c18XI, uncond bool) {
	x := rq.X
	isBuf := func(ctx *c18Ctx, v ssa.Value) bool { return x.Canon(c18XV{ctx, v}) == buf }
	n := 0
	for _, xi := range x.Calls(func(xi c18XI, c CallSite) bool { return c.Value() != nil }) {
		cl := xi.In.(*ssa.Call)
		c := CallSite{xi.Ctx.Fn, cl}
		args := c.Args()
		var f *c18Frag
		switch {
		case c.IsStatic("fmt", "", "Fprintf") && len(args) == 3 && isBuf(xi.Ctx, args[0]):
			if s, ok := x.ConstString(c18XV{xi.Ctx, args[1]}); ok {
				f = &c18Frag{At: xi, Text: s, Args: x.varargs(xi.Ctx, args[2])}
			}
		case (c.IsStatic("bytes", "Buffer", "WriteString") || c.IsStatic("strings", "Builder", "WriteString") || c.IsStatic("io", "", "WriteString")) && len(args) == 2 && isBuf(xi.Ctx, args[0]):
			if s, ok := x.ConstString(c18XV{xi.Ctx, args[1]}); ok {
				f = &c18Frag{At: xi, Text: s, Literal: true}
			} else if sp, ok := x.Canon(c18XV{xi.Ctx, args[1]}).V.(*ssa.Call); ok && (CallSite{sp.Parent(), sp}).IsStatic("fmt", "", "Sprintf") {
				sctx := x.Canon(c18XV{xi.Ctx, args[1]}).Ctx
				if s, ok := x.ConstString(c18XV{sctx, sp.Call.Args[0]}); ok {
					f = &c18Frag{At: xi, Text: s, Args: x.varargs(sctx, sp.Call.Args[1])}
				}
			}
		default:
			continue
		}
		if f == nil {
			rq.Opaque = append(rq.Opaque, "write to "+buf.V.Name()+" with non-constant text")
			continue
		}
		f.Buf = buf
		f.Uncond = uncond && x.Precedes(xi, rq.Call)
		f.Guards = append([]c18Fact(nil), guards...)
		f.Phis = append([]c18XI(nil), phis...)
		rq.Frags = append(rq.Frags, f)
		n++
	}
	if n == 0 {
		rq.Opaque = append(rq.Opaque, "buffer "+buf.V.Name()+" without modelled writes")
	}
}

func (rq *c18Request) valuesWrites(m c18XV, guards []c18Fact, phis []c18XI, uncond bool) {
	x := rq.X
	mo := x.Canon(m)
	if _, ok := mo.V.(*ssa.MakeMap); !ok {
		rq.opaque(m)
		return
	}
	for _, xi := range x.Calls(func(xi c18XI, c CallSite) bool {
		return c.Value() != nil && (c.IsStatic("net/url", "Values", "Add") || c.IsStatic("net/url", "Values", "Set"))
	}) {
		args := xi.In.(*ssa.Call).Call.Args
		if len(args) != 3 || x.Canon(c18XV{xi.Ctx, args[0]}) != mo {
			continue
		}
		f := &c18Frag{At: xi, Uncond: uncond && x.Precedes(xi, rq.Call)}
		ka := x.Canon(c18XV{xi.Ctx, args[1]})
		if s, ok := x.ConstString(ka); ok {
			f.Text, f.Args = strings.ReplaceAll(s, "%", "%%")+"=%s", []c18XV{{xi.Ctx, args[2]}}
		} else if sp, ok := ka.V.(*ssa.Call); ok && (CallSite{sp.Parent(), sp}).IsStatic("fmt", "", "Sprintf") {
			s, ok := x.ConstString(c18XV{ka.Ctx, sp.Call.Args[0]})
			if !ok {
				rq.opaque(ka)
				continue
			}
			f.Text, f.Args = s+"=%s", append(x.varargs(ka.Ctx, sp.Call.Args[1]), c18XV{xi.Ctx, args[2]})
		} else {
			rq.opaque(ka)
			continue
		}
		f.Guards = append([]c18Fact(nil), guards...)
		f.Phis = append([]c18XI(nil), phis...)
		rq.Frags = append(rq.Frags, f)
	}
}

type c18Emit struct {
	Key      string
	Numbered bool
	Index    int64 // for literal numbered keys ("blob1="): the index, else -1
	Frag     *c18Frag
	IsConst  bool
	ConstVal string
	Val      c18XV // zero: unknown value
	NumArg   c18XV // for numbered keys: the value formatted into the key
}

var c18EmitRE = regexp.MustCompile(`(?:^|[?&])([A-Za-z]+)([0-9]+)?(%[dv])?=([^&]*)`)
var c18VerbRE = regexp.MustCompile(`%[a-zA-Z]`)

// Emits lists the key=value emissions of the request.
func (rq *c18Request) Emits() []*c18Emit {
	var out []*c18Emit
	for _, f := range rq.Frags {
		text := f.Text
		if !f.Literal {
			text = strings.ReplaceAll(text, "%%", "\x00\x00")
		}
		q := text
		off := 0
		if i := strings.Index(q, "?"); i >= 0 {
			q, off = q[i:], i
		}
		argAt := func(pos int) c18XV {
			idx := 0
			for _, vb := range c18VerbRE.FindAllStringIndex(text, -1) {
				if vb[0] < off+pos {
					idx++
				}
			}
			if !f.Literal && idx < len(f.Args) {
				return f.Args[idx]
			}
			return c18XV{}
		}
		for _, m := range c18EmitRE.FindAllStringSubmatchIndex(q, -1) {
			e := &c18Emit{Key: q[m[2]:m[3]], Numbered: m[6] >= 0 && !f.Literal, Index: -1, Frag: f}
			if m[4] >= 0 {
				if m[6] >= 0 {
					continue // "key12%d=": not a shape we know
				}
				fmt.Sscanf(q[m[4]:m[5]], "%d", &e.Index)
				e.Numbered = true
			} else if e.Numbered {
				e.NumArg = argAt(m[6])
			}
			vt := q[m[8]:m[9]]
			switch {
			case f.Literal:
				if m[9] == len(q) && vt == "" {
					// the literal ends with "key=": the value is whatever follows, not modelled
				} else {
					e.IsConst, e.ConstVal = true, vt
				}
			case !strings.Contains(vt, "%"):
				e.IsConst, e.ConstVal = true, strings.ReplaceAll(vt, "\x00\x00", "%")
			case c18VerbRE.MatchString(vt) && len(vt) == 2:
				e.Val = argAt(m[8])
			}
			out = append(out, e)
		}
		// a key built on its own: Sprintf("blob%v", n+1) used as a url.Values key is
		// modelled by valuesWrites as "blob%v=%s" and handled above
	}
	return out
}

// ---------------------------------------------------------------------------
// which function answers for a request

var c18ReqCache = map[*Program]map[*ssa.Function][]*c18Request{}

// c18ClientRequests models the requests of every top-level function of
// pkg/client whose effective body creates one.
func c18ClientRequests(p *Program) map[*ssa.Function][]*c18Request {
	if m, ok := c18ReqCache[p]; ok {
		return m
	}
	c18ReqCache = map[*Program]map[*ssa.Function][]*c18Request{}
	fns := p.FuncsIn("pkg/client")
	// does the effective body of f contain a request creation?
	memo := map[*ssa.Function]int{} // 1 yes, 2 no, 3 in progress
	var has func(f *ssa.Function, depth int) bool
	has = func(f *ssa.Function, depth int) bool {
		if st := memo[f]; st == 1 {
			return true
		} else if st == 2 || st == 3 {
			return false
		}
		if depth > c18MaxDepth {
			return false
		}
		memo[f] = 3
		res := false
		for _, c := range CallsIn(f, false) {
			if c.IsStatic("net/http", "", "NewRequest") || c.IsStatic("net/http", "", "NewRequestWithContext") {
				res = true
				break
			}
			if g := c.Callee(); g != nil && c18Inlinable(f.Pkg, g) && has(g, depth+1) {
				res = true
				break
			}
		}
		if !res {
			for _, a := range f.AnonFuncs {
				if has(a, depth+1) {
					res = true
					break
				}
			}
		}
		if res {
			memo[f] = 1
		} else {
			memo[f] = 2
		}
		return res
	}
	out := map[*ssa.Function][]*c18Request{}
	for _, f := range fns {
		if f.Parent() != nil || !has(f, 0) {
			continue
		}
		if rs := c18Graph(p, f).requests(); len(rs) > 0 {
			out[f] = rs
		}
	}
	c18ReqCache[p] = out
	return out
}

// chain names a request instance by the call sites that lead to it from the
// root, innermost last.
func (rq *c18Request) chain() []ssa.Instruction {
	var rev []ssa.Instruction
	rev = append(rev, rq.Call.In)
	for c := rq.Call.Ctx; c != nil && c.Up != nil; c = c.Up {
		rev = append(rev, c.Site)
	}
	for i, j := 0, len(rev)-1; i < j; i, j = i+1, j-1 {
		rev[i], rev[j] = rev[j], rev[i]
	}
	return rev
}

func c18ChainKey(ch []ssa.Instruction) string {
	var b strings.Builder
	for _, in := range ch {
		fmt.Fprintf(&b, "%p/", in)
	}
	return b.String()
}

// c18Reported selects, for a rule with verdict ok(rq), the request instances
// the rule reports: an instance inlined from a function that already answers
// for it with a good verdict is left to that function; an instance with a bad
// verdict in an unexported helper whose callers (all in the package, never
// through a function value) each inline it is left to the callers, where the
// helper's parameters are the callers' arguments.
func c18Reported(p *Program, ok func(*c18Request) bool) []*c18Request {
	all := c18ClientRequests(p)
	var roots []*ssa.Function
	for f := range all {
		roots = append(roots, f)
	}
	sort.Slice(roots, func(i, j int) bool { return FuncKey(roots[i]) < FuncKey(roots[j]) })
	verdict := map[*c18Request]bool{}
	type inst struct {
		f   *ssa.Function
		key string
	}
	own := map[inst]*c18Request{}      // the instance as judged in its own function
	lifted := map[inst][]*c18Request{} // the same instance inlined into other functions
	inner := func(rq *c18Request) []inst {
		ch := rq.chain()
		var ctxs []*c18Ctx
		for c := rq.Call.Ctx; c != nil && c.Up != nil; c = c.Up {
			ctxs = append([]*c18Ctx{c}, ctxs...)
		}
		var out []inst
		for j, c := range ctxs {
			if c.Fn.Parent() == nil {
				out = append(out, inst{c.Fn, c18ChainKey(ch[j+1:])})
			}
		}
		return out
	}
	for _, f := range roots {
		for _, rq := range all[f] {
			verdict[rq] = ok(rq)
			own[inst{f, c18ChainKey(rq.chain())}] = rq
			for _, in := range inner(rq) {
				lifted[in] = append(lifted[in], rq)
			}
		}
	}
	// answers(in): the function of in reports the instance itself
	answers := func(in inst) bool {
		rq := own[in]
		if rq == nil {
			return false
		}
		if verdict[rq] {
			return true
		}
		ups := c18Liftable(p, in.f)
		if len(ups) == 0 {
			return true
		}
		// a bad verdict in an unexported helper: left to the callers when each of
		// them inlines the helper and settles the question
		seenUp := map[*ssa.Function]bool{}
		for _, l := range lifted[in] {
			if !verdict[l] {
				return true
			}
			seenUp[l.X.Root] = true
		}
		for _, u := range ups {
			if !seenUp[u] {
				return true
			}
		}
		return false
	}
	var out []*c18Request
	for _, f := range roots {
		for _, rq := range all[f] {
			covered := false
			for _, in := range inner(rq) {
				if answers(in) {
					covered = true
				}
			}
			if covered || !answers(inst{f, c18ChainKey(rq.chain())}) {
				continue
			}
			out = append(out, rq)
		}
	}
	return out
}

// ---------------------------------------------------------------------------
// N-client-page

// memberReads lists the reads of response member `name`: map lookups with that
// constant key on a map[string]any (the key may be the parameter of an inlined
// accessor).
func (x *c18X) memberReads(name string) []c18XI {
	return x.Instrs(func(xi c18XI) bool {
		lk, ok := xi.In.(*ssa.Lookup)
		if !ok {
			return false
		}
		if _, isMap := lk.X.Type().Underlying().(*types.Map); !isMap {
			return false
		}
		s, ok := x.ConstString(c18XV{xi.Ctx, lk.Index})
		return ok && s == name
	})
}

// producedBy: v is the lookup itself or a result of an inlined call whose
// effective body contains it (the accessor's results stand for the member).
func (x *c18X) producedBy(v c18XV, reads []c18XI) bool {
	for _, rd := range reads {
		if v.V == ssa.Value(rd.In.(*ssa.Lookup)) && v.Ctx == rd.Ctx {
			return true
		}
		var call *ssa.Call
		switch t := v.V.(type) {
		case *ssa.Call:
			call = t
		case *ssa.Extract:
			call, _ = t.Tuple.(*ssa.Call)
		}
		if call != nil {
			if child := x.child[c18XI{v.Ctx, call}]; child != nil && rd.Ctx.within(child) {
				return true
			}
		}
	}
	return false
}

func c18ClientPage(p *Program, r *Reporter) {
	fn := p.Func("pkg/client", "Client", "EnumerateBlobsOpts")
	x := c18Graph(p, fn)
	key := FuncKey(fn)
	conts := x.memberReads("continueAfter")
	if len(c18UniqInstr(conts)) != 1 {
		r.Violation("N-client-page", key+"#continueAfter-read", p.Pos(fn.Pos()), "the client no longer reads the continueAfter member exactly once per page")
		r.Floor("N-client-page", 4)
		return
	}
	fromCont := func(y c18XV) bool { return x.producedBy(y, conts) }
	var rqs []*c18Request
	for _, rq := range x.requests() {
		if rq.Action == "enumerate-blobs" {
			rqs = append(rqs, rq)
		}
	}
	if len(rqs) != 1 {
		brokenf("anchor unresolved: enumerate-blobs request in the effective body of %s (found %d)", key, len(rqs))
	}
	rq := rqs[0]
	site := c18Pos(p, x.TopSite(rq.Call))
	dependsVal, afterPos := false, false
	for _, f := range rq.Frags {
		for _, a := range f.Args {
			if x.Depends(a, fromCont) {
				dependsVal = true
			}
		}
	}
	for _, e := range rq.Emits() {
		if e.Key == "after" && e.Val.V != nil && x.Depends(e.Val, fromCont) {
			afterPos = true
		}
	}
	r.Check(dependsVal, "N-client-page", key+"#next-after", site,
		"the next request's URL depends on the continueAfter value of the previous response",
		"the request URL does not depend on the previous response's continueAfter value: every page would be the first page")
	r.Check(afterPos, "N-client-page", key+"#after-key", site,
		"the continuation value is sent as the after= parameter", "the continuation value is not placed after \"after=\" in the request URL")
	// data dependence, or control dependence: a phi (chain) one of whose edges is
	// taken under a fact about the member (`ok` of the lookup selects true/false)
	var ctlDep func(v c18XV, depth int, seen map[c18XV]bool) bool
	ctlDep = func(v c18XV, depth int, seen map[c18XV]bool) bool {
		v = x.Canon(v)
		if depth > 6 || seen[v] {
			return false
		}
		seen[v] = true
		if x.Depends(v, fromCont) {
			return true
		}
		if u, ok := v.V.(*ssa.UnOp); ok && u.Op == token.NOT {
			return ctlDep(c18XV{v.Ctx, u.X}, depth+1, seen)
		}
		if _, ok := v.V.(*ssa.Phi); ok {
			for _, e := range x.PhiEdges(v) {
				for _, f := range e.Facts {
					if x.Depends(x.resolveRaw(f.At, f.Cond), fromCont) {
						return true
					}
				}
				if ctlDep(e.Val, depth+1, seen) {
					return true
				}
			}
		}
		return false
	}
	guard := false
	for _, f := range x.FactsOf(rq.Call) {
		if f.Val && ctlDep(x.resolveRaw(f.At, f.Cond), 0, map[c18XV]bool{}) {
			guard = true
		}
	}
	r.Check(guard, "N-client-page", key+"#loop-guard", site,
		"the request loop is guarded by the continueAfter member of the previous response",
		"the request loop is not guarded by the presence of continueAfter in the previous response: paging stops early or never")
	// sends on the caller's channel
	var chParam c18XV
	for _, pa := range fn.Params {
		if ct, ok := pa.Type().Underlying().(*types.Chan); ok && ct.Dir() != types.RecvOnly {
			chParam = c18XV{x.Ctxs[0], pa}
		}
	}
	refReads, sizeReads := x.memberReads("blobRef"), x.memberReads("size")
	nSend, okSend := 0, true
	chk := func(ch, v c18XV) {
		if chParam.V == nil || !x.Same(ch, chParam) {
			return
		}
		nSend++
		if !x.Depends(v, func(y c18XV) bool { return x.producedBy(y, refReads) }) || !x.Depends(v, func(y c18XV) bool { return x.producedBy(y, sizeReads) }) {
			okSend = false
		}
	}
	for _, xi := range c18UniqInstr(x.Instrs(func(xi c18XI) bool {
		switch xi.In.(type) {
		case *ssa.Send, *ssa.Select:
			return true
		}
		return false
	})) {
		switch t := xi.In.(type) {
		case *ssa.Send:
			chk(c18XV{xi.Ctx, t.Chan}, c18XV{xi.Ctx, t.X})
		case *ssa.Select:
			for _, st := range t.States {
				if st.Dir == types.SendOnly {
					chk(c18XV{xi.Ctx, st.Chan}, c18XV{xi.Ctx, st.Send})
				}
			}
		}
	}
	r.Check(okSend && nSend > 0, "N-client-page", key+"#sends", p.Pos(fn.Pos()),
		fmt.Sprintf("%d send(s) on the caller's channel: every value sent derives from the blobRef and size members of a response item", nSend),
		"a value sent to the caller does not derive from both the blobRef and the size member of a response item")
	r.Floor("N-client-page", 4)
}

// ---------------------------------------------------------------------------
// N-keys

// clientKeys lists the plain keys and the numbered keys (with the first value
// of their index) a request writes.
func (rq *c18Request) clientKeys() (plain map[string]bool, numbered map[string]int64) {
	plain, numbered = map[string]bool{}, map[string]int64{}
	for _, e := range rq.Emits() {
		switch {
		case e.Numbered && e.Index >= 0:
			if old, ok := numbered[e.Key]; !ok || e.Index < old {
				numbered[e.Key] = e.Index
			}
		case e.Numbered:
			fv := int64(-999)
			if e.NumArg.V != nil {
				if v, ok := rq.X.firstValue(e.NumArg, 0); ok {
					fv = v
				}
			}
			numbered[e.Key] = fv
		default:
			plain[e.Key] = true
		}
	}
	return
}

func c18Keys(p *Program, r *Reporter) {
	hs := c18Handlers(p)
	type want struct {
		action, what string
		plain, num   int
	}
	reqs := c18Reported(p, func(rq *c18Request) bool {
		hl := hs[rq.Action]
		if len(hl) == 0 {
			return true
		}
		sp, sn := hl[0].X.reqKeyReads()
		cp, cn := rq.clientKeys()
		for k := range cp {
			if !sp[k] {
				return false
			}
		}
		for k, v := range cn {
			if sv, ok := sn[k]; !ok || sv != v || v == -999 {
				return false
			}
		}
		return len(rq.Opaque) == 0
	})
	for _, w := range []want{{"enumerate-blobs", "enumerate", 3, 0}, {"stat", "stat", 2, 1}, {"remove", "remove", 0, 1}} {
		h := c18Handler1(p, w.action)
		sp, sn := h.X.reqKeyReads()
		maxPlain, maxNum, n := 0, 0, 0
		firstKey, firstSite := "pkg/client", "?"
		for _, rq := range reqs {
			if rq.Action != w.action {
				continue
			}
			ckey := FuncKey(rq.X.Root)
			site := c18Pos(p, rq.X.TopSite(rq.Call))
			if n == 0 {
				firstKey, firstSite = ckey, site
			}
			n++
			cp, cn := rq.clientKeys()
			if len(cp) > maxPlain {
				maxPlain = len(cp)
			}
			if len(cn) > maxNum {
				maxNum = len(cn)
			}
			var names []string
			for k := range cp {
				names = append(names, k)
			}
			sort.Strings(names)
			for _, k := range names {
				r.Check(sp[k], "N-keys", ckey+"#"+w.what+"-key-"+k, site,
					"request key '"+k+"' written by the client is read by the handler",
					"request key '"+k+"' written by the client is not read by the handler (request keys read: "+c18SetString(sp)+")")
			}
			names = names[:0]
			for k := range cn {
				names = append(names, k)
			}
			sort.Strings(names)
			for _, k := range names {
				sv, ok := sn[k]
				r.Check(ok && sv == cn[k] && sv != -999, "N-keys", ckey+"#"+w.what+"-numbered-"+k, site,
					fmt.Sprintf("numbered key '%sN' starts at %d on both sides", k, sv),
					fmt.Sprintf("numbered key '%sN': client starts at %d, handler at %d (present=%v): the handler's scan stops at the first missing index, so every blob of the request is ignored or the first one is", k, cn[k], sv, ok))
			}
		}
		if maxPlain < w.plain || maxNum < w.num {
			r.Violation("N-keys", firstKey+"#"+w.what+"-extract", firstSite, fmt.Sprintf("extracted only %d plain / %d numbered request keys from the %d pkg/client request(s) for /camli/%s (expected at least %d / %d): the request builder changed shape; cannot compare", maxPlain, maxNum, n, w.action, w.plain, w.num))
		}
	}
	// JSON members read by the client vs text written by the enumerate handler
	hEnum := c18Handler1(p, "enumerate-blobs")
	var written []string
	for _, xi := range hEnum.X.Instrs(func(c18XI) bool { return true }) {
		for _, op := range xi.In.Operands(nil) {
			if *op == nil {
				continue
			}
			if c, ok := (*op).(*ssa.Const); ok && c.Value != nil && c.Value.Kind() == constant.String {
				written = append(written, constant.StringVal(c.Value))
			}
		}
	}
	wr := strings.Join(written, "\x00")
	cEnum := p.Func("pkg/client", "Client", "EnumerateBlobsOpts")
	cx := c18Graph(p, cEnum)
	var enumReq c18XI
	for _, rq := range cx.requests() {
		if rq.Action == "enumerate-blobs" {
			enumReq = rq.Call
		}
	}
	members := map[string]bool{}
	for _, xi := range cx.Instrs(func(xi c18XI) bool { _, ok := xi.In.(*ssa.Lookup); return ok }) {
		lk := xi.In.(*ssa.Lookup)
		mt, isMap := lk.X.Type().Underlying().(*types.Map)
		if !isMap || !isEmptyInterface(mt.Elem()) {
			continue
		}
		s, ok := cx.ConstString(c18XV{xi.Ctx, lk.Index})
		if !ok {
			continue
		}
		// only maps decoded from the response to the enumerate request
		if enumReq.In != nil && !cx.Depends(c18XV{xi.Ctx, lk.X}, func(y c18XV) bool { return y.V == ssa.Value(enumReq.In.(*ssa.Call)) && y.Ctx == enumReq.Ctx }) {
			continue
		}
		members[s] = true
	}
	var ms []string
	for m := range members {
		ms = append(ms, m)
	}
	sort.Strings(ms)
	for _, m := range ms {
		r.Check(strings.Contains(wr, `"`+m+`"`), "N-keys", FuncKey(cEnum)+"#enumerate-member-"+m, p.Pos(cEnum.Pos()),
			"response member \""+m+"\" read by the client is written by the handler",
			"response member \""+m+"\" read by the client is not written by the enumerate handler")
	}
	if len(ms) < 4 {
		r.Violation("N-keys", FuncKey(cEnum)+"#enumerate-members", p.Pos(cEnum.Pos()), fmt.Sprintf("only %d response members found on the client side (blobs, blobRef, size, continueAfter expected)", len(ms)))
	}
	// --- response struct types shared: the handler body allocates (encodes) the
	// type, and some pkg/client function that creates a request for the action
	// allocates (decodes into) it
	usesType := func(x *c18X, n *types.Named) bool {
		return len(x.Instrs(func(xi c18XI) bool {
			al, ok := xi.In.(*ssa.Alloc)
			if !ok {
				return false
			}
			nn := NamedOf(al.Type().(*types.Pointer).Elem())
			return nn != nil && nn.Obj() == n.Obj()
		})) > 0
	}
	clientUses := func(action string, n *types.Named) (bool, string) {
		all := c18ClientRequests(p)
		var roots []*ssa.Function
		for f := range all {
			roots = append(roots, f)
		}
		sort.Slice(roots, func(i, j int) bool { return FuncKey(roots[i]) < FuncKey(roots[j]) })
		site := "?"
		for _, f := range roots {
			for _, rq := range all[f] {
				if rq.Action == action {
					if site == "?" {
						site = p.Pos(f.Pos())
					}
					if usesType(rq.X, n) {
						return true, p.Pos(f.Pos())
					}
				}
			}
		}
		return false, site
	}
	statResp := p.NamedType("pkg/blobserver/protocol", "StatResponse")
	cu, csite := clientUses("stat", statResp)
	r.Check(usesType(c18Handler1(p, "stat").X, statResp) && cu, "N-keys", "pkg/blobserver/protocol.StatResponse#shared", csite,
		"the stat handler encodes and the client decodes the same struct type protocol.StatResponse",
		"the stat handler and the client no longer share protocol.StatResponse: member names can drift apart")
	remResp := p.NamedType("pkg/blobserver/handlers", "RemoveResponse")
	cu, csite = clientUses("remove", remResp)
	r.Check(usesType(c18Handler1(p, "remove").X, remResp) && cu, "N-keys", "pkg/blobserver/handlers.RemoveResponse#shared", csite,
		"the remove handler encodes and the client decodes the same struct type handlers.RemoveResponse",
		"the remove handler and the client no longer share handlers.RemoveResponse")
	r.Floor("N-keys", 13)
}

func isEmptyInterface(t types.Type) bool {
	it, ok := t.Underlying().(*types.Interface)
	return ok && it.NumMethods() == 0
}

// ---------------------------------------------------------------------------
// N-compat: the client never builds a request the handler is bound to reject
//
// Server side: for every routed handler body (effective body of the
// constructor's handler literal), the key atoms (both polarities) that occur
// in its branch conditions are the literals; a consistent set of at most three
// literals is a rejection conjunction when, with exactly these atoms assumed
// (everything else unknown), no path from the body's entry reaches its return
// without passing an error response, and no subset is.
// Client side: for every request built in pkg/client for the same action, the
// request text (URL + body) is modelled as fragments with the facts under
// which each fragment is part of the request; for every atom the values that
// may satisfy it are traced to their leaves together with the facts guarding
// each leaf.
// Obligation: some atom can never hold, or two atoms exclude each other on
// every pair of leaves by a fact about the very value emitted for the other
// key - with no phi at or above that value's definition crossed between the
// fact and the request (the fact holds for the iteration that is formatted).

// c18EvalAtom: truth of the positive atom (key, kind) when conj is assumed.
func c18EvalAtom(conj []c18Atom, key string, kind int) (known, val bool) {
	for _, c := range conj {
		if c.Key != key {
			continue
		}
		if c.Pos && c.Kind >= kind {
			return true, true
		}
		if !c.Pos && kind >= c.Kind {
			return true, false
		}
	}
	return false, false
}

type c18Rejection struct {
	H     *c18Handler
	Sites []c18XI // the error responses a request satisfying Atoms ends in
	Atoms []c18Atom
}

func c18Rejections(h *c18Handler) (out []c18Rejection, sites, literals int) {
	x := h.X
	litSet := map[c18Atom]bool{}
	sites = len(c18UniqInstr(x.Instrs(func(xi c18XI) bool { return xi.Ctx.within(h.Req) && x.isReject(xi.Ctx, xi.In) })))
	for _, n := range x.Nodes {
		if !n.Ctx.within(h.Req) {
			continue
		}
		if ifi := n.ifInstr(); ifi != nil {
			if a, ok := x.serverAtom(n, ifi.Cond, true); ok {
				litSet[a] = true
				litSet[c18Atom{a.Key, a.Kind, !a.Pos}] = true
			}
		}
	}
	if sites == 0 || len(litSet) == 0 {
		return nil, sites, 0
	}
	var lits []c18Atom
	for a := range litSet {
		lits = append(lits, a)
	}
	sort.Slice(lits, func(i, j int) bool { return lits[i].String() < lits[j].String() })
	literals = len(lits)
	if len(lits) > 24 {
		lits = lits[:24]
	}
	consistent := func(set []c18Atom) bool {
		for _, a := range set {
			for _, b := range set {
				if a.Key != b.Key {
					continue
				}
				if a.Pos && !b.Pos && a.Kind >= b.Kind {
					return false // a implies the atom b denies
				}
				if a != b && a.Pos == b.Pos {
					return false // one of the two is implied by the other: not minimal
				}
			}
		}
		return true
	}
	var found [][]c18Atom
	hasSubset := func(set []c18Atom) bool {
		for _, f := range found {
			n := 0
			for _, a := range f {
				for _, b := range set {
					if a == b {
						n++
					}
				}
			}
			if n == len(f) {
				return true
			}
		}
		return false
	}
	try := func(set []c18Atom) {
		if !consistent(set) || hasSubset(set) {
			return
		}
		if ok, at := c18BoundToReject(h, set); ok && len(at) > 0 {
			cp := append([]c18Atom(nil), set...)
			found = append(found, cp)
			out = append(out, c18Rejection{h, at, cp})
		}
	}
	for i := range lits {
		try([]c18Atom{lits[i]})
	}
	for i := range lits {
		for j := i + 1; j < len(lits); j++ {
			try([]c18Atom{lits[i], lits[j]})
		}
	}
	for i := range lits {
		for j := i + 1; j < len(lits); j++ {
			for k := j + 1; k < len(lits); k++ {
				try([]c18Atom{lits[i], lits[j], lits[k]})
			}
		}
	}
	return
}

// c18BoundToReject: with conj assumed and every other condition unknown, no
// path from the handler body's entry reaches its return before an error
// response (calls into the effective body are followed, forks are not).
// Returns the error responses such paths end in.
func c18BoundToReject(h *c18Handler, conj []c18Atom) (bool, []c18XI) {
	x := h.X
	entry := h.entry()
	if entry == nil {
		return false, nil
	}
	var at []c18XI
	seenAt := map[c18XI]bool{}
	stop := func(n *c18XB, in ssa.Instruction) bool {
		if x.isReject(n.Ctx, in) {
			xi := c18XI{n.Ctx, in}
			if !seenAt[xi] {
				seenAt[xi] = true
				at = append(at, xi)
			}
			return true
		}
		return false
	}
	assume := func(n *c18XB, cond ssa.Value) (bool, bool) {
		if a, ok := x.serverAtom(n, cond, true); ok {
			if k, v := c18EvalAtom(conj, a.Key, a.Kind); k {
				return true, v == a.Pos
			}
		}
		return false, false
	}
	if leaks := x.Leaks([]*c18XB{entry}, nil, stop, assume, h.Req); len(leaks) > 0 {
		return false, nil
	}
	// name the responses that are guarded by one of conj's keys (the others are
	// rejections for unrelated reasons met on the way)
	var own []c18XI
	for _, xi := range at {
		mine := false
		for _, f := range x.FactsOf(xi) {
			if a, ok := x.serverAtom(f.At, f.Cond, f.Val); ok {
				for _, c := range conj {
					if c.Key == a.Key {
						mine = true
					}
				}
			}
		}
		if mine {
			own = append(own, xi)
		}
	}
	if len(own) > 0 {
		at = own
	}
	sort.Slice(at, func(i, j int) bool { return at[i].In.Pos() < at[j].In.Pos() })
	return true, at
}

// --- client side: leaves

type c18ChainVal struct {
	V c18XV
	N int // value-phis crossed before reaching V
}

type c18Leaf struct {
	Atom   c18Atom
	Emit   *c18Emit
	Guards []c18GFact
	Phis   []c18XI       // value-phis crossed, outward from the emission
	Chain  []c18ChainVal // values that satisfy the atom iff the leaf does
	What   string
	Mem    bool // the leaf is a memory load the analysis cannot follow
}

func c18IsNumeric(t types.Type) bool {
	b, ok := t.Underlying().(*types.Basic)
	return ok && b.Info()&(types.IsInteger|types.IsFloat|types.IsBoolean) != 0
}

func c18ConstSatisfies(c *ssa.Const, kind int) bool {
	if c.Value == nil {
		return false
	}
	switch c.Value.Kind() {
	case constant.String:
		return c18TextSatisfies(constant.StringVal(c.Value), kind)
	case constant.Int:
		if kind == c18NonEmpty {
			return true
		}
		n := c.Int64()
		if kind == c18IntNonZero {
			return n != 0
		}
		return n > 0
	}
	return kind == c18NonEmpty
}

func c18TextSatisfies(s string, kind int) bool {
	if kind == c18NonEmpty {
		return s != ""
	}
	n, neg, digits := int64(0), false, 0
	for i, r := range s {
		switch {
		case i == 0 && (r == '-' || r == '+'):
			neg = r == '-'
		case r >= '0' && r <= '9':
			digits++
			if n < 1<<40 {
				n = n*10 + int64(r-'0')
			}
		default:
			return false // does not parse: the handler sees 0
		}
	}
	if digits == 0 || n == 0 {
		return false
	}
	return kind == c18IntNonZero || !neg
}

func c18EmptinessPreserving(cl *ssa.Call) bool {
	cs := CallSite{cl.Parent(), cl}
	return cs.IsStatic("net/url", "", "QueryEscape") || cs.IsStatic("net/url", "", "PathEscape")
}

// c18Leaves: the ways emission e may satisfy the positive atom.
func c18Leaves(p *Program, x *c18X, e *c18Emit, atom c18Atom) []*c18Leaf {
	var base []c18GFact
	for _, f := range x.FactsOf(e.Frag.At) {
		base = append(base, c18GFact{f, 0})
	}
	for _, f := range e.Frag.Guards {
		base = append(base, c18GFact{f, 0})
	}
	mk := func(g []c18GFact, phis []c18XI, chain []c18ChainVal, what string) *c18Leaf {
		return &c18Leaf{Atom: atom, Emit: e, Guards: g, Phis: phis, Chain: chain, What: what}
	}
	if e.IsConst {
		if c18TextSatisfies(e.ConstVal, atom.Kind) {
			return []*c18Leaf{mk(base, nil, nil, fmt.Sprintf("the constant %q", e.ConstVal))}
		}
		return nil
	}
	if e.Val.V == nil {
		return []*c18Leaf{mk(base, nil, nil, "a value the model does not follow")}
	}
	var out []*c18Leaf
	seen := map[c18XV]bool{}
	var walk func(v c18XV, g []c18GFact, phis []c18XI, chain []c18ChainVal, depth int)
	walk = func(v c18XV, g []c18GFact, phis []c18XI, chain []c18ChainVal, depth int) {
		v = x.Canon(v)
		describe := func() string {
			if in, ok := v.V.(ssa.Instruction); ok && in.Pos().IsValid() {
				return fmt.Sprintf("the value computed at line %d", p.Fset.Position(in.Pos()).Line)
			}
			return "the value " + v.V.Name()
		}
		if c, ok := v.V.(*ssa.Const); ok {
			if c18ConstSatisfies(c, atom.Kind) {
				out = append(out, mk(g, phis, nil, "the constant "+c.Name()))
			}
			return
		}
		if atom.Kind == c18NonEmpty && c18IsNumeric(v.V.Type()) {
			out = append(out, mk(g, phis, nil, "a formatted number (never empty)"))
			return
		}
		chain = append(append([]c18ChainVal(nil), chain...), c18ChainVal{v, len(phis)})
		if depth > 16 {
			out = append(out, mk(g, phis, chain, describe()))
			return
		}
		// results of an inlined helper that returns on several paths: like a phi at the call
		multi := func(call *ssa.Call, idx int) bool {
			child := x.child[c18XI{v.Ctx, call}]
			if child == nil || child.Kind != c18KCall {
				return false
			}
			rns := x.returnNodes(child)
			if len(rns) == 0 {
				return false
			}
			if seen[v] {
				return true
			}
			seen[v] = true
			for _, rn := range rns {
				rt := rn.last().(*ssa.Return)
				if idx >= len(rt.Results) {
					continue
				}
				np := append(append([]c18XI(nil), phis...), c18XI{v.Ctx, call})
				ng := append([]c18GFact(nil), g...)
				for _, f := range x.FactsAt(rn) {
					ng = append(ng, c18GFact{f, len(np)})
				}
				walk(x.resolveRaw(rn, c18RetVal(rt.Results[idx], rt)), ng, np, chain, depth+1)
			}
			delete(seen, v)
			return true
		}
		switch t := v.V.(type) {
		case *ssa.Phi:
			if seen[v] {
				return
			}
			seen[v] = true // on the current path only: cuts cycles, keeps every acyclic way into the phi
			for _, ed := range x.PhiEdges(v) {
				np := append(append([]c18XI(nil), phis...), c18XI{v.Ctx, t})
				ng := append([]c18GFact(nil), g...)
				for _, f := range ed.Facts {
					ng = append(ng, c18GFact{f, len(np)})
				}
				walk(ed.Val, ng, np, chain, depth+1)
			}
			delete(seen, v)
			return
		case *ssa.Convert:
			if atom.Kind != c18NonEmpty {
				sb, ok1 := t.X.Type().Underlying().(*types.Basic)
				db, ok2 := t.Type().Underlying().(*types.Basic)
				if ok1 && ok2 && sb.Info()&types.IsInteger != 0 && db.Info()&types.IsInteger != 0 {
					walk(c18XV{v.Ctx, t.X}, g, phis, chain, depth+1)
					return
				}
			}
		case *ssa.Call:
			if atom.Kind == c18NonEmpty && c18EmptinessPreserving(t) {
				walk(c18XV{v.Ctx, t.Call.Args[0]}, g, phis, chain, depth+1)
				return
			}
			if t.Call.Signature().Results().Len() == 1 && multi(t, 0) {
				return
			}
		case *ssa.Extract:
			if c, ok := t.Tuple.(*ssa.Call); ok && multi(c, t.Index) {
				return
			}
		case *ssa.UnOp:
			if t.Op == token.MUL {
				l := mk(g, phis, chain, describe())
				// a load of a plain variable cell with several stores (captured
				// variable): facts about one load say nothing about another
				_, l.Mem = varOf(t.X)
				out = append(out, l)
				return
			}
		}
		out = append(out, mk(g, phis, chain, describe()))
	}
	walk(e.Val, base, nil, nil, 0)
	return out
}

// c18Definitely: emission e satisfies kind in every request it is part of.
func c18Definitely(x *c18X, e *c18Emit, kind int) bool {
	if e.IsConst {
		return c18TextSatisfies(e.ConstVal, kind)
	}
	if e.Val.V == nil {
		return false
	}
	seen := map[c18XV]bool{}
	var def func(v c18XV, depth int) bool
	def = func(v c18XV, depth int) bool {
		if depth > 16 {
			return false
		}
		v = x.Canon(v)
		switch t := v.V.(type) {
		case *ssa.Const:
			return c18ConstSatisfies(t, kind)
		case *ssa.Phi:
			if seen[v] {
				return true
			}
			seen[v] = true
			for _, ed := range t.Edges {
				if !def(c18XV{v.Ctx, ed}, depth+1) {
					return false
				}
			}
			return true
		case *ssa.Call:
			if kind == c18NonEmpty && c18EmptinessPreserving(t) {
				return def(c18XV{v.Ctx, t.Call.Args[0]}, depth+1)
			}
		}
		return kind == c18NonEmpty && c18IsNumeric(v.V.Type())
	}
	return def(e.Val, 0)
}

// c18FactDenies: fact f says that value v does not satisfy kind.
func c18FactDenies(x *c18X, f c18Fact, v c18XV, kind int) bool {
	fv, k, pos, _, ok := x.cmpZero(f.At, f.Cond, f.Val)
	if !ok || pos {
		return false
	}
	if !c18SameXV(fv, v) {
		return false
	}
	// ¬k(x) denies kind when kind implies k
	return kind >= k
}

// c18SameIncarnation: a fact about (or the identity of) value v, established
// before crossing the given phis on the way to the request, still speaks about
// the v that is current when the request is created: v's definition executes
// before every crossed phi (strictly: not in the phi's own block) and before
// the request.
func c18SameIncarnation(x *c18X, v c18XV, req c18XI, bufs []c18XV, phiSets ...[]c18XI) bool {
	in, ok := v.V.(ssa.Instruction)
	if !ok {
		return true // parameters, free variables, constants: one incarnation per call
	}
	def := c18XI{v.Ctx, in}
	if len(x.nodesOf[def]) == 0 {
		return false
	}
	for _, ps := range phiSets {
		for _, ph := range ps {
			if _, isPhi := ph.In.(*ssa.Phi); isPhi {
				for _, dn := range x.nodesOf[def] {
					for _, pn := range x.nodesOf[ph] {
						if dn == pn || (dn.Ctx == pn.Ctx && dn.B == pn.B) {
							return false
						}
					}
				}
			}
			if !x.Precedes(def, ph) {
				return false
			}
		}
	}
	for _, b := range bufs {
		if b.V == nil {
			continue
		}
		bi, ok := b.V.(ssa.Instruction)
		if !ok {
			continue
		}
		bx := c18XI{b.Ctx, bi}
		same := false
		for _, dn := range x.nodesOf[def] {
			for _, bn := range x.nodesOf[bx] {
				if dn.Ctx == bn.Ctx && dn.B == bn.B {
					same = true
				}
			}
		}
		if !same && !x.Precedes(def, bx) {
			return false
		}
	}
	return x.Precedes(def, req)
}

// c18Exclusive: leaves la and lb cannot both be realised in one request.
func c18Exclusive(x *c18X, la, lb *c18Leaf, req c18XI) (bool, string) {
	bufs := []c18XV{la.Emit.Frag.Buf, lb.Emit.Frag.Buf}
	try := func(a, b *c18Leaf) (bool, string) {
		for _, f := range a.Guards {
			for _, cv := range b.Chain {
				if !c18FactDenies(x, f.c18Fact, cv.V, b.Atom.Kind) {
					continue
				}
				if c18SameIncarnation(x, cv.V, req, bufs, a.Phis[:f.N], a.Emit.Frag.Phis, b.Phis[:cv.N], b.Emit.Frag.Phis) {
					return true, fmt.Sprintf("'%s' can satisfy %s only where a dominating guard says the value sent for '%s' in the same request does not satisfy %s", a.Emit.Key, a.Atom, b.Emit.Key, b.Atom)
				}
			}
		}
		return false, ""
	}
	if ok, why := try(la, lb); ok {
		return true, why
	}
	if ok, why := try(lb, la); ok {
		return true, why
	}
	for _, f := range la.Guards {
		for _, g := range lb.Guards {
			if f.Cond == g.Cond && f.At.Ctx == g.At.Ctx && f.Val != g.Val &&
				c18SameIncarnation(x, c18XV{f.At.Ctx, f.Cond}, req, bufs, la.Phis[:f.N], la.Emit.Frag.Phis, lb.Phis[:g.N], lb.Emit.Frag.Phis) {
				return true, fmt.Sprintf("'%s' and '%s' are emitted on opposite edges of one condition", la.Emit.Key, lb.Emit.Key)
			}
		}
	}
	return false, ""
}

type c18Conj struct {
	action string
	rej    c18Rejection
}

// c18CompatVerdict judges request rq against rejection conjunction cj.
// status: 0 discharged, 1 undecided, 2 violated.
func c18CompatVerdict(p *Program, rq *c18Request, cj c18Conj) (status int, detail string) {
	x := rq.X
	atoms := cj.rej.Atoms
	var rejSites []string
	for _, xi := range cj.rej.Sites {
		rejSites = append(rejSites, c18Pos(p, xi.In))
	}
	rejSite := strings.Join(rejSites, ", ")
	emits := rq.Emits()
	leaves := make([][]*c18Leaf, len(atoms))
	never, neverWhy := false, ""
	for i, a := range atoms {
		var es []*c18Emit
		for _, e := range emits {
			if e.Key == a.Key && !e.Numbered {
				es = append(es, e)
			}
		}
		if a.Pos {
			for _, e := range es {
				leaves[i] = append(leaves[i], c18Leaves(p, x, e, a)...)
			}
			if len(leaves[i]) == 0 && len(rq.Opaque) == 0 {
				never = true
				if len(es) == 0 {
					neverWhy = fmt.Sprintf("the request never carries '%s'", a.Key)
				} else {
					neverWhy = fmt.Sprintf("every value the request carries for '%s' fails %s", a.Key, a)
				}
			} else if len(leaves[i]) == 0 {
				leaves[i] = []*c18Leaf{{Atom: a, Emit: &c18Emit{Key: a.Key, Frag: &c18Frag{At: rq.Call}}, What: "a part of the request the model does not follow (" + strings.Join(rq.Opaque, "; ") + ")"}}
			}
		} else {
			for _, e := range es {
				if e.Frag.Uncond && len(e.Frag.Phis) == 0 && c18Definitely(x, e, a.Kind) {
					never = true
					neverWhy = fmt.Sprintf("every request carries '%s' with a value for which %s is false", a.Key, a)
				}
			}
		}
	}
	if never {
		return 0, fmt.Sprintf("the %s handler rejects requests with %s (%s); %s", cj.action, c18AtomsString(atoms), rejSite, neverWhy)
	}
	excl, exclWhy := false, ""
	var witness [2]*c18Leaf
	for i := 0; i < len(atoms) && !excl; i++ {
		for j := i + 1; j < len(atoms) && !excl; j++ {
			if !atoms[i].Pos || !atoms[j].Pos {
				continue
			}
			all, why := true, ""
			for _, la := range leaves[i] {
				for _, lb := range leaves[j] {
					ok, w := c18Exclusive(x, la, lb, rq.Call)
					if !ok {
						all = false
						if witness[0] == nil {
							witness = [2]*c18Leaf{la, lb}
						}
					} else {
						why = w
					}
				}
			}
			if all && len(leaves[i]) > 0 && len(leaves[j]) > 0 {
				excl, exclWhy = true, why
			}
		}
	}
	if excl {
		return 0, fmt.Sprintf("the %s handler rejects requests with %s (%s); in every request built here %s (checked on every pair of possible values, for the iteration that is formatted)", cj.action, c18AtomsString(atoms), rejSite, exclWhy)
	}
	mem := false
	var parts []string
	for i, a := range atoms {
		if !a.Pos {
			parts = append(parts, fmt.Sprintf("%s is not excluded (no unconditional emission of '%s' with a value that makes it false)", a, a.Key))
			continue
		}
		for _, l := range leaves[i] {
			mem = mem || l.Mem
		}
	}
	if witness[0] != nil {
		parts = append(parts, fmt.Sprintf("'%s' may be sent as %s together with '%s' as %s, and no guard dominating either emission (and evaluated for the same iteration's values) excludes the other", witness[0].Emit.Key, witness[0].What, witness[1].Emit.Key, witness[1].What))
	}
	detail = fmt.Sprintf("the %s handler answers a request with %s by an error response (%s), and this request builder can produce such a request: %s", cj.action, c18AtomsString(atoms), rejSite, strings.Join(parts, "; "))
	switch {
	case mem:
		return 1, detail + " [a value involved lives in a variable the analysis cannot follow]"
	case len(rq.Opaque) > 0:
		return 1, detail + " [parts of the request text are built in a way the model does not follow: " + strings.Join(rq.Opaque, "; ") + "]"
	}
	return 2, detail
}

func c18Compat(p *Program, r *Reporter) {
	routes := c18Handlers(p)
	var conjs []c18Conj
	var actions []string
	for a := range routes {
		actions = append(actions, a)
	}
	sort.Strings(actions)
	nSites, nLits, nHandlers := 0, 0, 0
	for _, a := range actions {
		for _, h := range routes[a] {
			nHandlers++
			rs, sites, lits := c18Rejections(h)
			nSites += sites
			nLits += lits
			for _, rj := range rs {
				conjs = append(conjs, c18Conj{a, rj})
			}
		}
	}
	type res struct {
		status int
		detail string
	}
	memo := map[*c18Request][]res{}
	judge := func(rq *c18Request) []res {
		if v, ok := memo[rq]; ok {
			return v
		}
		out := make([]res, len(conjs))
		for i, cj := range conjs {
			if cj.action == rq.Action {
				s, d := c18CompatVerdict(p, rq, cj)
				out[i] = res{s, d}
			}
		}
		memo[rq] = out
		return out
	}
	reqs := c18Reported(p, func(rq *c18Request) bool {
		for _, v := range judge(rq) {
			if v.status != 0 {
				return false
			}
		}
		return true
	})
	r.Analysed("routed_handler_bodies", nHandlers)
	r.Analysed("error_response_sites", nSites)
	r.Analysed("request_key_literals", nLits)
	r.Analysed("key_only_rejection_conjunctions", len(conjs))
	r.Analysed("client_protocol_requests", len(reqs))
	for i, cj := range conjs {
		for _, rq := range reqs {
			if rq.Action != cj.action {
				continue
			}
			key := fmt.Sprintf("%s#%s-never[%s]", FuncKey(rq.X.Root), cj.action, c18AtomsString(cj.rej.Atoms))
			site := c18Pos(p, rq.X.TopSite(rq.Call))
			v := judge(rq)[i]
			switch v.status {
			case 0:
				r.OK("N-compat", key, site, v.detail)
			case 1:
				r.Undecided("N-compat", key, site, v.detail)
			default:
				r.Violation("N-compat", key, site, v.detail)
			}
		}
	}
	r.Floor("N-compat", 3)
}

// dump prints the graph (development aid, C18DEBUG=graph).
func (x *c18X) dump() {
	fmt.Printf("=== %s\n", x)
	for _, n := range x.Nodes {
		fmt.Printf("n%d ctx%d(%s) b%d[%d:%d] var=%q idom=%v succs=", n.ID, n.Ctx.ID, n.Ctx.Fn.Name(), n.B.Index, n.Lo, n.Hi, n.Var, func() int {
			if n.idom == nil {
				return -1
			}
			return n.idom.ID
		}())
		for i, s := range n.Succs {
			fmt.Printf("n%d/%d ", s.ID, n.Kinds[i])
		}
		if n.ifInstr() != nil {
			t, f := -1, -1
			if n.IfSucc[0] != nil {
				t = n.IfSucc[0].ID
			}
			if n.IfSucc[1] != nil {
				f = n.IfSucc[1].ID
			}
			fmt.Printf(" if %v ? n%d : n%d", n.ifInstr().Cond, t, f)
		}
		for k, v := range n.Bind {
			fmt.Printf(" [%s:=%v]", k.Name(), v.V)
		}
		fmt.Println()
		for k := n.Lo; k < n.Hi; k++ {
			if v, ok := n.B.Instrs[k].(ssa.Value); ok {
				fmt.Printf("      %s = %v\n", v.Name(), n.B.Instrs[k])
			} else {
				fmt.Printf("      %v\n", n.B.Instrs[k])
			}
		}
	}
}
