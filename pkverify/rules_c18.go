package main

import (
	"fmt"
	"go/constant"
	"go/token"
	"go/types"
	"regexp"
	"sort"
	"strings"

	"golang.org/x/tools/go/ssa"
)

func init() {
	register(&PropSpec{
		ID:    "C18",
		Title: "The HTTP blob protocol gives clients the same map semantics end to end",
		Explanation: "Decided (structural necessary conditions of the wire protocol, on the handlers in pkg/blobserver/handlers + gethandler and on pkg/client): " +
			"N-longpoll — in every handler that long-polls with blobserver.WaitForBlob, under the assumptions 'long-poll requested (wait seconds != 0)' and 'the deadline has not passed' the storage query is reachable from entry and the wait is reachable after the query, and under 'the deadline has passed' the query cannot reach itself again (guard polarity of the time comparisons, evaluated symbolically on the CFG; the two sibling handlers are held to the same rule); " +
			"N-continue — the enumerate handler passes the request's 'after' and a limit clamped by the storage's maximum to EnumerateBlobs, emits continueAfter only when non-empty, derives it from the last emitted ref, clears it on the short-page edge (count < limit), and on an enumeration error never reaches the writes that terminate a well-formed response; " +
			"N-client-page — the client's enumerate loop continues exactly on the presence of continueAfter, feeds its value into the next request's after= parameter, and what it sends on the channel is parsed from the blobRef/size members; " +
			"N-keys — writer/reader agreement by constant values: query keys the client writes are keys the enumerate/stat/remove handlers read, JSON members the client reads are members the enumerate handler writes, numbered blobN keys use the same prefix and the same first index on both sides, stat and remove responses are encoded and decoded through the same struct types; " +
			"N-stat — the stat handler records a requested ref only when it parsed and the per-request count is within the limit, answers 200/JSON only when no StatBlobs call failed, and records results only from the callback's own argument; " +
			"N-get — ServeBlobRef reaches http.ServeContent only on the err==nil edge of Fetch, serves content derived from that fetch's reader with that fetch's size, and closes the reader on every path. " +
			"NOT decided: that a concrete client/server exchange over any configuration returns the reference map's answer; pagination completeness for concrete histories; batch-size limits at run time; the multipart/PUT upload handlers (claimed under C02 R-http) and authentication (C17); HTTP framing done by net/http.",
		RuleDocs: map[string]string{
			"N-longpoll":    "symbolic guard evaluation over the CFG of each caller of blobserver.WaitForBlob in pkg/blobserver/handlers: reachability of the query / the wait under {wait!=0, now<deadline}; no query->query cycle under {wait!=0, now>deadline}",
			"N-continue":    "value dependence + dominance in handlers.handleEnumerateBlobs (after/limit arguments, continueAfter emission, short-page reset, error exit before terminator)",
			"N-client-page": "value dependence in client.(*Client).EnumerateBlobsOpts (continueAfter -> loop guard and next after=; sends derive from blobRef/size)",
			"N-keys":        "table agreement by go/constant values between pkg/client request builders / response readers and the handlers' FormValue keys / written members; numbered key base; shared response struct types",
			"N-stat":        "dominance/reachability in handlers.handleStat (reject-before-record, error exit before ReturnJSON, callback appends its own argument)",
			"N-get":         "dominance + value dependence + pairing in gethandler.ServeBlobRef",
		},
		Run:       runC18,
		DesignRef: "DESIGN.md §4 C18",
		Technique: "static analysis: symbolic guard evaluation on the CFG (long-poll polarity), value-dependence and dominance rules on the handlers and the client, table agreement of protocol keys by constant values",
		LevelText: "Decides structural necessary conditions of the wire protocol only: long-poll loops query before the deadline and stop after it; the enumerate continuation is produced from the last emitted ref exactly on full pages and consumed by the client's loop; protocol keys and numbered-key bases agree between client and handlers; stat/get handlers answer success only on the success edge of the storage call. Does not decide end-to-end map semantics for any concrete history or configuration.",
	})
}

func runC18(p *Program, r *Reporter) {
	c18Longpoll(p, r)
	c18Continue(p, r)
	c18ClientPage(p, r)
	c18Keys(p, r)
	c18Stat(p, r)
	c18Get(p, r)
}

// ---------------------------------------------------------------------------
// shared helpers

// c18Reach returns the instructions reachable after start when branch
// conditions decided by assume are followed only along the decided edge.
func c18Reach(start ssa.Instruction, assume func(ssa.Value) (known, val bool)) map[ssa.Instruction]bool {
	out := map[ssa.Instruction]bool{}
	seen := map[*ssa.BasicBlock]bool{}
	var walk func(b *ssa.BasicBlock, from int)
	walk = func(b *ssa.BasicBlock, from int) {
		for i := from; i < len(b.Instrs); i++ {
			in := b.Instrs[i]
			out[in] = true
			if ifi, ok := in.(*ssa.If); ok && assume != nil {
				if k, v := assume(ifi.Cond); k {
					s := b.Succs[1]
					if v {
						s = b.Succs[0]
					}
					if !seen[s] {
						seen[s] = true
						walk(s, 0)
					}
					return
				}
			}
		}
		for _, s := range b.Succs {
			if !seen[s] {
				seen[s] = true
				walk(s, 0)
			}
		}
	}
	walk(start.Block(), instrIndex(start)+1)
	return out
}

// c18Depends is DependsOn extended through loads of struct/array locals: a
// load of (a field or element of) a local Alloc depends on every value stored
// to any address rooted at that Alloc (composite literals, `sb := <-ch`
// followed by sb.Ref).
func c18Depends(v ssa.Value, target func(ssa.Value) bool) bool {
	seen := map[ssa.Value]bool{}
	var rootAlloc func(a ssa.Value) *ssa.Alloc
	rootAlloc = func(a ssa.Value) *ssa.Alloc {
		for i := 0; i < 8; i++ {
			switch x := a.(type) {
			case *ssa.Alloc:
				return x
			case *ssa.FieldAddr:
				a = x.X
			case *ssa.IndexAddr:
				a = x.X
			default:
				return nil
			}
		}
		return nil
	}
	var walk func(v ssa.Value, depth int) bool
	walk = func(v ssa.Value, depth int) bool {
		if v == nil || seen[v] || depth > 80 {
			return false
		}
		seen[v] = true
		if DependsOn(v, target) {
			return true
		}
		found := false
		DependsOn(v, func(x ssa.Value) bool {
			if found {
				return true
			}
			u, ok := x.(*ssa.UnOp)
			if !ok || u.Op != token.MUL {
				return false
			}
			al := rootAlloc(u.X)
			if al == nil {
				return false
			}
			fn := al.Parent()
			for _, b := range fn.Blocks {
				for _, in := range b.Instrs {
					if st, ok := in.(*ssa.Store); ok && rootAlloc(st.Addr) == al {
						if walk(st.Val, depth+1) {
							found = true
							return true
						}
					}
				}
			}
			return false
		})
		return found
	}
	return walk(v, 0)
}

// c18ConstStrings lists the string constants used as operands in fn (and,
// with deep, in its literals), in program order.
func c18ConstStrings(fn *ssa.Function, deep bool) []string {
	var out []string
	var walk func(f *ssa.Function)
	walk = func(f *ssa.Function) {
		for _, b := range f.Blocks {
			for _, in := range b.Instrs {
				for _, op := range in.Operands(nil) {
					if *op == nil {
						continue
					}
					if c, ok := (*op).(*ssa.Const); ok && c.Value != nil && c.Value.Kind() == constant.String {
						out = append(out, constant.StringVal(c.Value))
					}
				}
			}
		}
		if deep {
			for _, a := range f.AnonFuncs {
				walk(a)
			}
		}
	}
	walk(fn)
	return out
}

// c18CallsWithConstArg finds calls in fn whose callee satisfies pred and that
// have the constant string s among their arguments.
func c18CallsWithConstArg(fn *ssa.Function, s string, pred func(CallSite) bool) []CallSite {
	return FindCalls(fn, true, func(c CallSite) bool {
		if !pred(c) {
			return false
		}
		for _, a := range c.Common().Args {
			if v, ok := ConstString(a); ok && v == s {
				return true
			}
		}
		return false
	})
}

func c18IsFormValue(c CallSite) bool { return c.IsStatic("net/http", "Request", "FormValue") }

// c18VarargElems returns the values stored into the variadic slice argument v
// (a `slice t[:]` of a `new [N]any (varargs)` array).
func c18VarargElems(v ssa.Value) []ssa.Value {
	sl, ok := v.(*ssa.Slice)
	if !ok {
		return nil
	}
	al, ok := sl.X.(*ssa.Alloc)
	if !ok {
		return nil
	}
	var out []ssa.Value
	if refs := al.Referrers(); refs != nil {
		for _, u := range *refs {
			if ia, ok := u.(*ssa.IndexAddr); ok {
				if ir := ia.Referrers(); ir != nil {
					for _, w := range *ir {
						if st, ok := w.(*ssa.Store); ok && st.Addr == ssa.Value(ia) {
							out = append(out, st.Val)
						}
					}
				}
			}
		}
	}
	return out
}

// c18FormatCalls returns fmt.Sprintf/Fprintf calls in fn (deep) whose constant
// format string satisfies match, with their variadic argument values.
type c18Fmt struct {
	Call   CallSite
	Format string
	Args   []ssa.Value
}

func c18FormatCalls(fn *ssa.Function, match func(string) bool) []c18Fmt {
	var out []c18Fmt
	for _, c := range CallsIn(fn, true) {
		fi := -1
		switch {
		case c.IsStatic("fmt", "", "Sprintf"), c.IsStatic("fmt", "", "Errorf"):
			fi = 0
		case c.IsStatic("fmt", "", "Fprintf"):
			fi = 1
		}
		if fi < 0 {
			continue
		}
		args := c.Common().Args
		f, ok := ConstString(args[fi])
		if !ok || !match(f) {
			continue
		}
		out = append(out, c18Fmt{c, f, c18VarargElems(args[len(args)-1])})
	}
	return out
}

// ---------------------------------------------------------------------------
// N-longpoll

func c18Longpoll(p *Program, r *Reporter) {
	wait := p.Func("pkg/blobserver", "", "WaitForBlob")
	n := 0
	for _, c := range p.StaticCallers(wait) {
		fn := c.Fn
		if RelPkg(fn.Pkg.Pkg) != "pkg/blobserver/handlers" || fn.Parent() != nil {
			continue
		}
		n++
		key := FuncKey(fn)
		site := p.Pos(c.Pos())
		// deadline value = second argument of WaitForBlob; must be time.Now().Add(dur)
		deadline := originValue(c.Common().Args[1])
		add, ok := deadline.(*ssa.Call)
		if !ok || !(CallSite{fn, add}).IsStatic("time", "Time", "Add") {
			r.Undecided("N-longpoll", key+"#deadline", site, "the deadline passed to WaitForBlob is not a time.Now().Add(d) value computed in this function; cannot evaluate the long-poll guards")
			continue
		}
		dur := add.Call.Args[1]
		isWait := func(v ssa.Value) bool {
			o := originValue(v)
			if _, isConst := o.(*ssa.Const); isConst {
				return false
			}
			if b, ok := o.Type().Underlying().(*types.Basic); !ok || b.Info()&types.IsInteger == 0 {
				return false
			}
			return DependsOn(dur, func(x ssa.Value) bool { return x == o })
		}
		mkAssume := func(before bool) func(ssa.Value) (bool, bool) {
			var ev func(cond ssa.Value) (bool, bool)
			ev = func(cond ssa.Value) (bool, bool) {
				switch x := cond.(type) {
				case *ssa.UnOp:
					if x.Op == token.NOT {
						k, v := ev(x.X)
						return k, !v
					}
				case *ssa.BinOp:
					if x.Op == token.EQL || x.Op == token.NEQ {
						var other ssa.Value
						if z, ok := ConstInt(x.Y); ok && z == 0 {
							other = x.X
						} else if z, ok := ConstInt(x.X); ok && z == 0 {
							other = x.Y
						}
						if other != nil && isWait(other) {
							return true, x.Op == token.NEQ // wait != 0 is assumed
						}
					}
				case *ssa.Call:
					cs := CallSite{x.Parent(), x}
					isBefore := cs.IsStatic("time", "Time", "Before")
					isAfter := cs.IsStatic("time", "Time", "After")
					if (isBefore || isAfter) && len(x.Call.Args) == 2 {
						recv, arg := originValue(x.Call.Args[0]), originValue(x.Call.Args[1])
						nowCall := func(v ssa.Value) bool {
							cl, ok := v.(*ssa.Call)
							return ok && (CallSite{cl.Parent(), cl}).IsStatic("time", "", "Now")
						}
						switch {
						case nowCall(recv) && arg == deadline: // now.Before(deadline) / now.After(deadline)
							return true, isBefore == before
						case recv == deadline && nowCall(arg): // deadline.After(now) / deadline.Before(now)
							return true, isAfter == before
						}
					}
				}
				return false, false
			}
			return ev
		}
		// the storage query: an invoke of EnumerateBlobs/StatBlobs in fn, or the go/call of a literal containing one
		isQuery := func(cs CallSite) bool {
			cc := cs.Common()
			return cc.IsInvoke() && (cc.Method.Name() == "EnumerateBlobs" || cc.Method.Name() == "StatBlobs")
		}
		var query ssa.Instruction
		for _, cs := range CallsIn(fn, false) {
			if isQuery(cs) {
				query = cs.Instr
				break
			}
			if lit := ClosureOf(cs); lit != nil && len(FindCalls(lit, true, isQuery)) > 0 {
				query = cs.Instr
				break
			}
		}
		if query == nil {
			r.Undecided("N-longpoll", key+"#query", site, "no EnumerateBlobs/StatBlobs query found in a handler that long-polls")
			continue
		}
		entry := fn.Blocks[0].Instrs[0]
		beforeReach := c18Reach(entry, mkAssume(true))
		r.Check(beforeReach[query] || entry == query, "N-longpoll", key+"#query-before-deadline", p.Pos(query.Pos()),
			"with long-poll requested and the deadline not yet passed, the storage query is reachable from entry",
			"with long-poll requested (wait seconds != 0) and the deadline not yet passed, no path from entry reaches the storage query: the handler answers without ever asking the storage (time comparison has the wrong polarity)")
		afterQ := c18Reach(query, mkAssume(true))
		r.Check(afterQ[c.Instr], "N-longpoll", key+"#wait-after-query", site,
			"with long-poll requested and the deadline not yet passed, WaitForBlob is reachable after the query",
			"with long-poll requested and the deadline not yet passed, WaitForBlob is unreachable after the query: the handler cannot wait for new blobs")
		late := c18Reach(query, mkAssume(false))
		r.Check(!late[query], "N-longpoll", key+"#stops-at-deadline", p.Pos(query.Pos()),
			"once the deadline has passed the query cannot be reached again (the loop ends)",
			"with the deadline passed the storage query can still reach itself: the long-poll loop does not stop at the deadline")
	}
	r.Floor("N-longpoll", 6)
	r.Analysed("longpoll_handlers", n)
}

// ---------------------------------------------------------------------------
// N-continue

func c18Continue(p *Program, r *Reporter) {
	fn := p.Func("pkg/blobserver/handlers", "", "handleEnumerateBlobs")
	key := FuncKey(fn)
	enumIface := p.Iface("pkg/blobserver", "BlobEnumerator")
	qs := FindCalls(fn, true, func(c CallSite) bool { return c.IsMethod("EnumerateBlobs", enumIface) })
	if len(qs) != 1 {
		brokenf("anchor unresolved: expected exactly one EnumerateBlobs call in %s, found %d", key, len(qs))
	}
	q := qs[0]
	args := q.Args() // recv, ctx, dest, after, limit
	formCall := func(name string) func(ssa.Value) bool {
		return func(v ssa.Value) bool {
			cl, ok := v.(*ssa.Call)
			if !ok || !c18IsFormValue(CallSite{cl.Parent(), cl}) {
				return false
			}
			s, ok := ConstString(cl.Call.Args[1])
			return ok && s == name
		}
	}
	r.Check(DependsOn(args[3], formCall("after")), "N-continue", key+"#after-arg", p.Pos(q.Pos()),
		"the cursor passed to EnumerateBlobs derives from the request's 'after' parameter",
		"the cursor passed to EnumerateBlobs does not derive from FormValue(\"after\"): a continuation request restarts or skips")
	// limit: every store to the limit variable that depends on the parsed request value is on the
	// not-greater edge of a comparison with the storage maximum
	limitArg := args[4]
	r.Check(DependsOn(limitArg, formCall("limit")), "N-continue", key+"#limit-arg", p.Pos(q.Pos()),
		"the limit passed to EnumerateBlobs derives from the request's 'limit' parameter",
		"the limit passed to EnumerateBlobs does not derive from FormValue(\"limit\")")
	limitCell := c18CellOf(limitArg)
	if limitCell == nil {
		r.Undecided("N-continue", key+"#limit-clamp", p.Pos(q.Pos()), "cannot identify the variable holding the limit")
	} else {
		isParsed := func(v ssa.Value) bool {
			cl, ok := v.(*ssa.Call)
			return ok && ((CallSite{cl.Parent(), cl}).IsStatic("strconv", "", "ParseUint") || (CallSite{cl.Parent(), cl}).IsStatic("strconv", "", "Atoi") || (CallSite{cl.Parent(), cl}).IsStatic("strconv", "", "ParseInt"))
		}
		isMax := func(v ssa.Value) bool {
			return DependsOn(v, func(x ssa.Value) bool {
				cl, ok := x.(*ssa.Call)
				if ok && cl.Call.IsInvoke() && cl.Call.Method.Name() == "MaxEnumerate" {
					return true
				}
				return false
			})
		}
		okClamp, parsedStores := true, 0
		why := ""
		for _, st := range storesTo(limitCell) {
			if !DependsOn(st.Val, isParsed) {
				continue
			}
			parsedStores++
			clamped := false
			for _, f := range FactsAt(st.Block()) {
				bo, ok := f.Cond.(*ssa.BinOp)
				if !ok {
					continue
				}
				// parsed > max  (false)   or  parsed <= max (true) ...
				lp, rp := DependsOn(bo.X, isParsed), DependsOn(bo.Y, isParsed)
				lm, rm := isMax(bo.X), isMax(bo.Y)
				switch {
				case lp && rm && (bo.Op == token.GTR && !f.Val || bo.Op == token.LEQ && f.Val || bo.Op == token.GEQ && !f.Val || bo.Op == token.LSS && f.Val):
					clamped = true
				case rp && lm && (bo.Op == token.LSS && !f.Val || bo.Op == token.GEQ && f.Val || bo.Op == token.LEQ && !f.Val || bo.Op == token.GTR && f.Val):
					clamped = true
				}
			}
			if !clamped {
				okClamp = false
				why = fmt.Sprintf("the store of the parsed request value into the limit at line %d is not guarded by a comparison with the storage's MaxEnumerate", p.Fset.Position(st.Pos()).Line)
			}
		}
		if parsedStores == 0 {
			okClamp, why = false, "no store of the parsed 'limit' value found"
		}
		r.Check(okClamp, "N-continue", key+"#limit-clamp", p.Pos(q.Pos()),
			"the client-supplied limit reaches EnumerateBlobs only when not greater than the storage's maximum", why)
	}
	// continueAfter emission
	conts := c18FormatCalls(fn, func(f string) bool { return strings.Contains(f, "continueAfter") })
	if len(conts) != 1 || len(conts[0].Args) != 1 {
		r.Violation("N-continue", key+"#continueAfter", p.Pos(fn.Pos()), "the handler no longer writes exactly one continueAfter member from one value: full pages cannot be continued")
		r.Floor("N-continue", 7)
		return
	}
	cont := conts[0]
	cv := cont.Args[0]
	if mi, ok := cv.(*ssa.MakeInterface); ok {
		cv = mi.X
	}
	// (1) emitted only when non-empty
	nonEmpty := false
	for _, f := range FactsAt(cont.Call.Block()) {
		if bo, ok := f.Cond.(*ssa.BinOp); ok && (bo.Op == token.NEQ && f.Val || bo.Op == token.EQL && !f.Val) {
			if s, ok := ConstString(bo.Y); ok && s == "" && sameOrigin(bo.X, cv) {
				nonEmpty = true
			}
		}
	}
	r.Check(nonEmpty, "N-continue", key+"#continueAfter-nonempty", p.Pos(cont.Call.Pos()),
		"continueAfter is written only under value != \"\"", "continueAfter is written without testing that the value is non-empty: clients loop forever on the last page")
	// (2) derives from Ref.String() of a value received from the channel fed by the query
	fromRecv := DependsOn(cv, func(x ssa.Value) bool {
		cl, ok := x.(*ssa.Call)
		if !ok || !(CallSite{cl.Parent(), cl}).IsStatic("perkeep.org/pkg/blob", "Ref", "String") {
			return false
		}
		return c18Depends(cl.Call.Args[0], func(y ssa.Value) bool {
			u, ok := y.(*ssa.UnOp)
			return ok && u.Op == token.ARROW
		})
	})
	r.Check(fromRecv, "N-continue", key+"#continueAfter-last-ref", p.Pos(cont.Call.Pos()),
		"the continueAfter value derives from the String() of a ref received from the enumeration channel",
		"the continueAfter value does not derive from a ref received from the enumeration: the next page would not start after the last emitted blob")
	// (3) cleared on the short-page edge: a phi on the value's chain receives "" from a block
	// guarded by count < limit (count incremented per received blob)
	cleared, clearWhy := c18ShortPageReset(cv, limitCell)
	r.Check(cleared, "N-continue", key+"#short-page-reset", p.Pos(cont.Call.Pos()),
		"the continuation value is reset to \"\" on the edge where fewer blobs than the limit were received", clearWhy)
	// (4) an enumeration error exits before the terminator writes
	var errRecv *ssa.UnOp
	for _, b := range fn.Blocks {
		for _, in := range b.Instrs {
			if u, ok := in.(*ssa.UnOp); ok && u.Op == token.ARROW && isErrorType(u.Type()) {
				errRecv = u
			}
		}
	}
	if errRecv == nil {
		r.Violation("N-continue", key+"#error-exit", p.Pos(q.Pos()), "the handler no longer receives the enumeration's error result: a failed enumeration would be reported as a complete list")
	} else {
		okErr := false
		why := "the enumeration error is never tested"
		for _, b := range fn.Blocks {
			ifi, ok := b.Instrs[len(b.Instrs)-1].(*ssa.If)
			if !ok {
				continue
			}
			k, isNil := condSaysNil(ifi.Cond, true, errRecv)
			if !k {
				continue
			}
			errSucc := b.Succs[0]
			if isNil {
				errSucc = b.Succs[1]
			}
			reach := map[ssa.Instruction]bool{}
			if len(errSucc.Instrs) > 0 {
				reach = c18Reach(errSucc.Instrs[0], nil)
				reach[errSucc.Instrs[0]] = true
			}
			okErr = true
			for in := range reach {
				ci, ok := in.(ssa.CallInstruction)
				if !ok {
					continue
				}
				cs := CallSite{fn, ci}
				if cs.IsStatic("io", "", "WriteString") || cs.IsStatic("fmt", "", "Fprintf") {
					for _, a := range cs.Common().Args {
						if s, ok := ConstString(a); ok && (strings.Contains(s, "]") || strings.Contains(s, "continueAfter")) && !strings.Contains(s, "{{{") {
							okErr = false
							why = fmt.Sprintf("from the err != nil edge of the enumeration result the write %q at line %d is reachable: a failed enumeration is answered as a well-formed (truncated) list", s, p.Fset.Position(cs.Pos()).Line)
						}
					}
				}
			}
		}
		r.Check(okErr, "N-continue", key+"#error-exit", p.Pos(errRecv.Pos()),
			"on the err != nil edge of the enumeration result the list/continuation terminator writes are unreachable", why)
	}
	r.Floor("N-continue", 7)
}

// c18CellOf returns the variable cell a value is loaded from (through
// closure captures), or nil.
func c18CellOf(v ssa.Value) *ssa.Alloc {
	for i := 0; i < 8; i++ {
		switch x := v.(type) {
		case *ssa.UnOp:
			if x.Op == token.MUL {
				if cell, ok := varOf(x.X); ok {
					al, _ := cell.(*ssa.Alloc)
					return al
				}
			}
			return nil
		case *ssa.ChangeType:
			v = x.X
		case *ssa.Convert:
			v = x.X
		default:
			return nil
		}
	}
	return nil
}

// c18ShortPageReset: somewhere on the phi chain feeding cv there is a phi with
// a "" edge coming from the true edge of `count < limit` (or the false edge of
// `count >= limit`, or `count != limit` true...), where limit loads limitCell
// and count is a loop counter (phi of 0 and itself+1).
func c18ShortPageReset(cv ssa.Value, limitCell *ssa.Alloc) (bool, string) {
	seen := map[ssa.Value]bool{}
	var phis []*ssa.Phi
	var walk func(v ssa.Value)
	walk = func(v ssa.Value) {
		if seen[v] {
			return
		}
		seen[v] = true
		if ph, ok := v.(*ssa.Phi); ok {
			phis = append(phis, ph)
			for _, e := range ph.Edges {
				walk(e)
			}
		}
	}
	walk(cv)
	isCounter := func(v ssa.Value) bool {
		ph, ok := v.(*ssa.Phi)
		if !ok {
			return false
		}
		zero, inc := false, false
		for _, e := range ph.Edges {
			if z, ok := ConstInt(e); ok && z == 0 {
				zero = true
			}
			if bo, ok := e.(*ssa.BinOp); ok && bo.Op == token.ADD && bo.X == ssa.Value(ph) {
				if o, ok := ConstInt(bo.Y); ok && o == 1 {
					inc = true
				}
			}
		}
		return zero && inc
	}
	isLimit := func(v ssa.Value) bool {
		c := c18CellOf(v)
		return c != nil && c == limitCell
	}
	for _, ph := range phis {
		for i, e := range ph.Edges {
			if s, ok := ConstString(e); !ok || s != "" {
				continue
			}
			pred := ph.Block().Preds[i]
			// facts at pred (plus pred itself being the branch target)
			for _, f := range FactsAt(pred) {
				bo, ok := f.Cond.(*ssa.BinOp)
				if !ok {
					continue
				}
				cl := isCounter(bo.X) && isLimit(bo.Y)
				lc := isLimit(bo.X) && isCounter(bo.Y)
				switch {
				case cl && (bo.Op == token.LSS && f.Val || bo.Op == token.GEQ && !f.Val || bo.Op == token.NEQ && f.Val || bo.Op == token.EQL && !f.Val):
					return true, ""
				case lc && (bo.Op == token.GTR && f.Val || bo.Op == token.LEQ && !f.Val || bo.Op == token.NEQ && f.Val || bo.Op == token.EQL && !f.Val):
					return true, ""
				}
			}
		}
	}
	return false, "the continuation value is never reset to \"\" on a 'received count < limit' edge: a short (last) page would still announce a continuation, or a full page would not"
}

// ---------------------------------------------------------------------------
// N-client-page

func c18ClientPage(p *Program, r *Reporter) {
	fn := p.Func("pkg/client", "Client", "EnumerateBlobsOpts")
	key := FuncKey(fn)
	inClient := func(c CallSite) bool {
		f := c.Callee()
		return f != nil && InModule(f) && RelPkg(f.Pkg.Pkg) == "pkg/client"
	}
	ks := c18CallsWithConstArg(fn, "continueAfter", inClient)
	if len(ks) != 1 || ks[0].Value() == nil {
		r.Violation("N-client-page", key+"#continueAfter-read", p.Pos(fn.Pos()), "the client no longer reads the continueAfter member exactly once per page")
		r.Floor("N-client-page", 4)
		return
	}
	k := ks[0].Value()
	val, present := ResultValue(k, 0), ResultValue(k, 1)
	urls := c18FormatCalls(fn, func(f string) bool { return strings.Contains(f, "enumerate-blobs") })
	if len(urls) != 1 {
		brokenf("anchor unresolved: enumerate-blobs request URL in %s", key)
	}
	u := urls[0]
	dependsVal := false
	if val != nil {
		for _, a := range u.Args {
			if DependsOn(a, func(x ssa.Value) bool { return x == val }) {
				dependsVal = true
			}
		}
	}
	r.Check(dependsVal, "N-client-page", key+"#next-after", p.Pos(u.Call.Pos()),
		"the next request's URL depends on the continueAfter value of the previous response",
		"the request URL does not depend on the previous response's continueAfter value: every page would be the first page")
	// which URL key receives it: the verb position of the dependent argument must follow "after="
	afterPos := false
	if val != nil {
		verbs := regexp.MustCompile(`%[a-zA-Z]`).FindAllStringIndex(u.Format, -1)
		for i, a := range u.Args {
			if i < len(verbs) && DependsOn(a, func(x ssa.Value) bool { return x == val }) {
				if strings.HasSuffix(u.Format[:verbs[i][0]], "after=") {
					afterPos = true
				}
			}
		}
	}
	r.Check(afterPos, "N-client-page", key+"#after-key", p.Pos(u.Call.Pos()),
		"the continuation value is sent as the after= parameter", "the continuation value is not placed after \"after=\" in the request URL")
	guard := false
	if present != nil {
		for _, f := range FactsAt(u.Call.Block()) {
			if f.Val && DependsOn(f.Cond, func(x ssa.Value) bool { return x == present }) {
				guard = true
			}
		}
	}
	r.Check(guard, "N-client-page", key+"#loop-guard", p.Pos(u.Call.Pos()),
		"the request loop is guarded by the presence flag of continueAfter",
		"the request loop is not guarded by the presence of continueAfter in the previous response: paging stops early or never")
	// sends
	nSend := 0
	okSend := true
	chk := func(v ssa.Value, pos token.Pos) {
		nSend++
		for _, member := range []string{"blobRef", "size"} {
			if !c18Depends(v, func(x ssa.Value) bool {
				cl, ok := x.(*ssa.Call)
				if !ok || !inClient(CallSite{cl.Parent(), cl}) {
					return false
				}
				for _, a := range cl.Call.Args {
					if s, ok := ConstString(a); ok && s == member {
						return true
					}
				}
				return false
			}) {
				okSend = false
			}
		}
	}
	for _, b := range fn.Blocks {
		for _, in := range b.Instrs {
			switch x := in.(type) {
			case *ssa.Send:
				chk(x.X, x.Pos())
			case *ssa.Select:
				for _, st := range x.States {
					if st.Dir == types.SendOnly {
						chk(st.Send, st.Pos)
					}
				}
			}
		}
	}
	r.Check(okSend && nSend > 0, "N-client-page", key+"#sends", p.Pos(fn.Pos()),
		fmt.Sprintf("%d send(s): every value sent to the caller derives from the blobRef and size members of a response item", nSend),
		"a value sent to the caller does not derive from both the blobRef and the size member of a response item")
	r.Floor("N-client-page", 4)
}

// ---------------------------------------------------------------------------
// N-keys

var c18QueryKeyRE = regexp.MustCompile(`(?:^|[?&])([A-Za-z]+)(%[dv])?=`)

// c18FirstValue evaluates the value an integer expression has the first time
// it is computed: constants, +const, and loop phis (taking their constant
// entry edge).
func c18FirstValue(v ssa.Value, depth int) (int64, bool) {
	if depth > 8 {
		return 0, false
	}
	switch x := v.(type) {
	case *ssa.Const:
		return ConstInt(x)
	case *ssa.MakeInterface:
		return c18FirstValue(x.X, depth+1)
	case *ssa.Convert:
		return c18FirstValue(x.X, depth+1)
	case *ssa.BinOp:
		if x.Op == token.ADD {
			if c, ok := ConstInt(x.Y); ok {
				if b, ok := c18FirstValue(x.X, depth+1); ok {
					return b + c, true
				}
			}
		}
	case *ssa.Phi:
		n, val := 0, int64(0)
		for _, e := range x.Edges {
			if c, ok := e.(*ssa.Const); ok {
				if z, ok := ConstInt(c); ok {
					n++
					val = z
				}
			}
		}
		if n == 1 {
			return val, true
		}
	}
	return 0, false
}

func c18Keys(p *Program, r *Reporter) {
	// --- enumerate: query keys and JSON members
	hEnum := p.Func("pkg/blobserver/handlers", "", "handleEnumerateBlobs")
	cEnum := p.Func("pkg/client", "Client", "EnumerateBlobsOpts")
	serverKeys := func(fn *ssa.Function) (plain map[string]bool, numbered map[string]int64) {
		plain, numbered = map[string]bool{}, map[string]int64{}
		for _, c := range FindCalls(fn, true, c18IsFormValue) {
			arg := c.Common().Args[1]
			if s, ok := ConstString(arg); ok {
				plain[s] = true
				continue
			}
			if cl, ok := originValue(arg).(*ssa.Call); ok && (CallSite{cl.Parent(), cl}).IsStatic("fmt", "", "Sprintf") {
				if f, ok := ConstString(cl.Call.Args[0]); ok {
					if m := regexp.MustCompile(`^([A-Za-z]+)%[dv]$`).FindStringSubmatch(f); m != nil {
						el := c18VarargElems(cl.Call.Args[1])
						if len(el) == 1 {
							if fv, ok := c18FirstValue(el[0], 0); ok {
								numbered[m[1]] = fv
								continue
							}
						}
						numbered[m[1]] = -999
					}
				}
			}
		}
		return
	}
	// client-side keys: from constant format strings containing key=...; numbered keys with the first value of their argument
	clientKeys := func(fn *ssa.Function, only func(string) bool) (plain map[string]bool, numbered map[string]int64) {
		plain, numbered = map[string]bool{}, map[string]int64{}
		for _, fc := range c18FormatCalls(fn, func(f string) bool { return only == nil || only(f) }) {
			q := fc.Format
			if i := strings.Index(q, "?"); i >= 0 {
				q = q[i:]
			} else if !strings.Contains(q, "=") && !regexp.MustCompile(`^[A-Za-z]+%[dv]$`).MatchString(q) {
				continue
			}
			if m := regexp.MustCompile(`^([A-Za-z]+)%[dv]$`).FindStringSubmatch(q); m != nil && len(fc.Args) == 1 {
				// a key built on its own: Sprintf("blob%v", n+1)
				fv, ok := c18FirstValue(fc.Args[0], 0)
				if !ok {
					fv = -999
				}
				numbered[m[1]] = fv
				continue
			}
			verbs := regexp.MustCompile(`%[a-zA-Z]`).FindAllStringIndex(q, -1)
			for _, m := range c18QueryKeyRE.FindAllStringSubmatchIndex(q, -1) {
				name := q[m[2]:m[3]]
				if m[4] >= 0 { // numbered key: which verb index is it?
					vi := -1
					for i, vb := range verbs {
						if vb[0] == m[4] {
							vi = i
						}
					}
					fv := int64(-999)
					if vi >= 0 && vi < len(fc.Args) {
						if x, ok := c18FirstValue(fc.Args[vi], 0); ok {
							fv = x
						}
					}
					numbered[name] = fv
				} else {
					plain[name] = true
				}
			}
		}
		return
	}
	cmp := func(what, ckey string, cp map[string]bool, cn map[string]int64, sp map[string]bool, sn map[string]int64, site string, wantPlain, wantNum int) {
		if len(cp) < wantPlain || len(cn) < wantNum {
			r.Violation("N-keys", ckey+"#"+what+"-extract", site, fmt.Sprintf("extracted only %d plain / %d numbered request keys on the client side (expected at least %d / %d): the request builder changed shape; cannot compare", len(cp), len(cn), wantPlain, wantNum))
			return
		}
		var names []string
		for k := range cp {
			names = append(names, k)
		}
		sort.Strings(names)
		for _, k := range names {
			r.Check(sp[k], "N-keys", ckey+"#"+what+"-key-"+k, site,
				"request key '"+k+"' written by the client is read by the handler",
				"request key '"+k+"' written by the client is not read by the handler (FormValue keys: "+c18SetString(sp)+")")
		}
		names = names[:0]
		for k := range cn {
			names = append(names, k)
		}
		sort.Strings(names)
		for _, k := range names {
			sv, ok := sn[k]
			r.Check(ok && sv == cn[k] && sv != -999, "N-keys", ckey+"#"+what+"-numbered-"+k, site,
				fmt.Sprintf("numbered key '%sN' starts at %d on both sides", k, sv),
				fmt.Sprintf("numbered key '%sN': client starts at %d, handler at %d (present=%v): the handler's scan stops at the first missing index, so every blob of the request is ignored or the first one is", k, cn[k], sv, ok))
		}
	}
	sp, sn := serverKeys(hEnum)
	cp, cn := clientKeys(cEnum, func(f string) bool { return strings.Contains(f, "enumerate-blobs") })
	cmp("enumerate", FuncKey(cEnum), cp, cn, sp, sn, p.Pos(cEnum.Pos()), 3, 0)
	// JSON members read by the client vs text written by the handler
	written := strings.Join(c18ConstStrings(hEnum, true), "\x00")
	members := map[string]bool{}
	for _, c := range CallsIn(cEnum, true) {
		f := c.Callee()
		if f == nil || !InModule(f) || RelPkg(f.Pkg.Pkg) != "pkg/client" || !strings.HasPrefix(f.Name(), "getJSONMap") {
			continue
		}
		for _, a := range c.Common().Args {
			if s, ok := ConstString(a); ok {
				members[s] = true
			}
		}
	}
	var ms []string
	for m := range members {
		ms = append(ms, m)
	}
	sort.Strings(ms)
	for _, m := range ms {
		r.Check(strings.Contains(written, `"`+m+`"`), "N-keys", FuncKey(cEnum)+"#enumerate-member-"+m, p.Pos(cEnum.Pos()),
			"response member \""+m+"\" read by the client is written by the handler",
			"response member \""+m+"\" read by the client is not written by the enumerate handler")
	}
	if len(ms) < 4 {
		r.Violation("N-keys", FuncKey(cEnum)+"#enumerate-members", p.Pos(cEnum.Pos()), fmt.Sprintf("only %d response members found on the client side (blobs, blobRef, size, continueAfter expected)", len(ms)))
	}
	// --- stat
	hStat := p.Func("pkg/blobserver/handlers", "", "handleStat")
	cStat := p.Func("pkg/client", "Client", "doStat")
	sp, sn = serverKeys(hStat)
	cp, cn = clientKeys(cStat, func(f string) bool { return strings.Contains(f, "=") })
	cmp("stat", FuncKey(cStat), cp, cn, sp, sn, p.Pos(cStat.Pos()), 2, 1)
	// --- remove
	hRem := p.Func("pkg/blobserver/handlers", "", "handleRemove")
	cRem := p.Func("pkg/client", "Client", "RemoveBlobs")
	sp, sn = serverKeys(hRem)
	cp, cn = clientKeys(cRem, func(f string) bool { return regexp.MustCompile(`^[A-Za-z]+%[dv]$`).MatchString(f) })
	cmp("remove", FuncKey(cRem), cp, cn, sp, sn, p.Pos(cRem.Pos()), 0, 1)
	// --- response struct types shared
	statResp := p.NamedType("pkg/blobserver/protocol", "StatResponse")
	usesType := func(fn *ssa.Function, n *types.Named) bool {
		found := false
		var walk func(f *ssa.Function)
		walk = func(f *ssa.Function) {
			for _, b := range f.Blocks {
				for _, in := range b.Instrs {
					if al, ok := in.(*ssa.Alloc); ok {
						if nn := NamedOf(al.Type().(*types.Pointer).Elem()); nn != nil && nn.Obj() == n.Obj() {
							found = true
						}
					}
				}
			}
			for _, a := range f.AnonFuncs {
				walk(a)
			}
		}
		walk(fn)
		return found
	}
	parse := p.Func("pkg/client", "", "parseStatResponse")
	r.Check(usesType(hStat, statResp) && usesType(parse, statResp), "N-keys", "pkg/blobserver/protocol.StatResponse#shared", p.Pos(parse.Pos()),
		"the stat handler encodes and the client decodes the same struct type protocol.StatResponse",
		"the stat handler and the client no longer share protocol.StatResponse: member names can drift apart")
	remResp := p.NamedType("pkg/blobserver/handlers", "RemoveResponse")
	r.Check(usesType(hRem, remResp) && usesType(cRem, remResp), "N-keys", "pkg/blobserver/handlers.RemoveResponse#shared", p.Pos(cRem.Pos()),
		"the remove handler encodes and the client decodes the same struct type handlers.RemoveResponse",
		"the remove handler and the client no longer share handlers.RemoveResponse")
	r.Floor("N-keys", 13)
}

func c18SetString(m map[string]bool) string {
	var s []string
	for k := range m {
		s = append(s, k)
	}
	sort.Strings(s)
	return "{" + strings.Join(s, ",") + "}"
}

// ---------------------------------------------------------------------------
// N-stat

func c18Stat(p *Program, r *Reporter) {
	fn := p.Func("pkg/blobserver/handlers", "", "handleStat")
	key := FuncKey(fn)
	// (1) the needStat map update is dominated by blob.Parse ok==true on the FormValue value and by the false edge of the count check
	var upd *ssa.MapUpdate
	for _, b := range fn.Blocks {
		for _, in := range b.Instrs {
			if mu, ok := in.(*ssa.MapUpdate); ok {
				if n := NamedOf(mu.Key.Type()); n != nil && n.Obj().Name() == "Ref" {
					upd = mu
				}
			}
		}
	}
	if upd == nil {
		brokenf("anchor unresolved: map update recording a requested ref in %s", key)
	}
	parseOK, fromForm := false, false
	if ex, ok := originValue(upd.Key).(*ssa.Extract); ok {
		if cl, ok := ex.Tuple.(*ssa.Call); ok && (CallSite{fn, cl}).IsStatic("perkeep.org/pkg/blob", "", "Parse") {
			fromForm = DependsOn(cl.Call.Args[0], func(x ssa.Value) bool {
				c2, ok := x.(*ssa.Call)
				return ok && c18IsFormValue(CallSite{fn, c2})
			})
			okv := ResultValue(cl, 1)
			for _, f := range FactsAt(upd.Block()) {
				if f.Val && okv != nil && sameOrigin(f.Cond, okv) {
					parseOK = true
				}
			}
		}
	}
	r.Check(parseOK && fromForm, "N-stat", key+"#record-parsed", p.Pos(upd.Pos()),
		"a requested ref is recorded only when blob.Parse of the form value succeeded",
		"the ref recorded for stat is not the successfully parsed form value: malformed requests are silently answered")
	// count bound: some dominating fact compares the running index with a constant and the recording is on the not-greater edge
	bound := false
	for _, f := range FactsAt(upd.Block()) {
		if bo, ok := f.Cond.(*ssa.BinOp); ok {
			if c, ok := ConstInt(bo.Y); ok && c >= 1 && (bo.Op == token.GTR && !f.Val || bo.Op == token.LEQ && f.Val || bo.Op == token.GEQ && !f.Val || bo.Op == token.LSS && f.Val) {
				if _, ok := c18FirstValue(bo.X, 0); ok {
					bound = true
				}
			}
		}
	}
	r.Check(bound, "N-stat", key+"#count-bound", p.Pos(upd.Pos()),
		"recording a requested ref is on the within-limit edge of the per-request count check",
		"the per-request count check no longer guards the recording of requested refs")
	// rejects answer with an error, not silently: every return reachable from the !ok edge or the over-limit edge is preceded by BadRequestError
	// (2) error exit: from err != nil of StatBlobs, ReturnJSON unreachable
	statIface := p.Iface("pkg/blobserver", "BlobStatter")
	qs := FindCalls(fn, false, func(c CallSite) bool { return c.IsMethod("StatBlobs", statIface) })
	if len(qs) != 1 || qs[0].Value() == nil {
		brokenf("anchor unresolved: StatBlobs call in %s", key)
	}
	q := qs[0]
	rets := FindCalls(fn, false, func(c CallSite) bool { return c.IsStatic("perkeep.org/internal/httputil", "", "ReturnJSON") })
	okErr := len(rets) > 0
	why := "no ReturnJSON call found"
	ev, _, discarded := ErrValue(q.Value())
	if discarded {
		okErr, why = false, "the error result of StatBlobs is discarded"
	} else {
		for _, b := range fn.Blocks {
			ifi, ok := b.Instrs[len(b.Instrs)-1].(*ssa.If)
			if !ok {
				continue
			}
			k, isNil := condSaysNil(ifi.Cond, true, ev)
			if !k {
				continue
			}
			errSucc := b.Succs[0]
			if isNil {
				errSucc = b.Succs[1]
			}
			reach := c18Reach(errSucc.Instrs[0], nil)
			reach[errSucc.Instrs[0]] = true
			for _, rc := range rets {
				if reach[rc.Instr] {
					okErr = false
					why = "ReturnJSON (200 + JSON) is reachable from the err != nil edge of StatBlobs: a failed stat is answered as 'these blobs are absent'"
				}
			}
		}
		// and every ReturnJSON must be preceded by the test at all
		for _, rc := range rets {
			if !DependsOnErrTest(fn, ev) {
				okErr, why = false, "the error of StatBlobs is never tested"
			}
			_ = rc
		}
	}
	r.Check(okErr, "N-stat", key+"#error-exit", p.Pos(q.Pos()), "ReturnJSON is unreachable from the err != nil edge of StatBlobs", why)
	// (3) the callback appends its own argument
	lits := FuncArgClosures(q)
	okCb := false
	if len(lits) == 1 && len(lits[0].Params) == 1 {
		cb := lits[0]
		for _, c := range CallsIn(cb, false) {
			if b, ok := c.Common().Value.(*ssa.Builtin); ok && b.Name() == "append" {
				for _, el := range c18VarargElems(c.Common().Args[1]) {
					if DependsOn(el, func(x ssa.Value) bool { return x == ssa.Value(cb.Params[0]) }) {
						okCb = true
					}
				}
			}
		}
	}
	r.Check(okCb, "N-stat", key+"#callback-appends-arg", p.Pos(q.Pos()),
		"the StatBlobs callback appends its own SizedRef argument to the response",
		"the StatBlobs callback does not append its own argument to the response")
	r.Floor("N-stat", 4)
}

// DependsOnErrTest reports whether some If in fn tests ev against nil.
func DependsOnErrTest(fn *ssa.Function, ev ssa.Value) bool {
	for _, b := range fn.Blocks {
		if ifi, ok := b.Instrs[len(b.Instrs)-1].(*ssa.If); ok {
			if k, _ := condSaysNil(ifi.Cond, true, ev); k {
				return true
			}
		}
	}
	return false
}

// ---------------------------------------------------------------------------
// N-get

func c18Get(p *Program, r *Reporter) {
	fn := p.Func("pkg/blobserver/gethandler", "", "ServeBlobRef")
	key := FuncKey(fn)
	fetchIface := p.Iface("pkg/blob", "Fetcher")
	fs := FindCalls(fn, false, func(c CallSite) bool { return c.IsMethod("Fetch", fetchIface) })
	if len(fs) != 1 || fs[0].Value() == nil {
		brokenf("anchor unresolved: Fetch call in %s", key)
	}
	f := fs[0].Value()
	serves := FindCalls(fn, false, func(c CallSite) bool { return c.IsStatic("net/http", "", "ServeContent") })
	if len(serves) == 0 {
		brokenf("anchor unresolved: http.ServeContent call in %s", key)
	}
	rc, size := ResultValue(f, 0), ResultValue(f, 1)
	for _, s := range serves {
		ok, why := SuccessDominates(f, s.Instr)
		r.Check(ok, "N-get", key+"#serve-after-fetch-ok", p.Pos(s.Pos()),
			"http.ServeContent is reached only on the err==nil edge of Fetch", "http.ServeContent is reachable without a successful Fetch: "+why)
		content := s.Common().Args[4]
		depRC := rc != nil && DependsOn(content, func(x ssa.Value) bool { return x == rc })
		depSize := size != nil && DependsOn(content, func(x ssa.Value) bool { return x == size })
		r.Check(depRC && depSize, "N-get", key+"#content-from-fetch", p.Pos(s.Pos()),
			"the served content derives from the reader and the size returned by that Fetch",
			fmt.Sprintf("the served content does not derive from both results of the Fetch (reader: %v, size: %v): length or bytes may differ from the stored blob", depRC, depSize))
	}
	// the reader is closed on every path after a successful fetch
	closed := false
	for _, d := range DeferredCalls(fn) {
		if d.Common().IsInvoke() && d.Common().Method.Name() == "Close" && rc != nil && sameOrigin(d.Common().Value, rc) {
			if ok, _ := SuccessDominates(f, d.Instr); ok {
				closed = true
				// no return between the success edge and the defer
				for _, ri := range Returns(fn) {
					if k, isNil := NilFact(ri.Ret.Block(), mustErr(f)); k && isNil && !Precedes(d.Instr, ri.Ret) {
						closed = false
					}
				}
			}
		}
	}
	r.Check(closed, "N-get", key+"#reader-closed", p.Pos(f.Pos()),
		"the fetched reader's Close is deferred on the success edge before any return",
		"the fetched reader is not closed on every path after a successful Fetch (leaks a file descriptor / gate slot per request)")
	r.Floor("N-get", 3)
}

func mustErr(c *ssa.Call) ssa.Value {
	ev, _, _ := ErrValue(c)
	return ev
}
