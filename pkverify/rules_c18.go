package main

import (
	"fmt"
	"go/constant"
	"go/token"
	"go/types"
	"regexp"
	"sort"
	"strings"

	"golang.org/x/tools/go/ssa"
)

func init() {
	register(&PropSpec{
		ID:    "C18",
		Title: "The HTTP blob protocol gives clients the same map semantics end to end",
		Explanation: "Decided (structural necessary conditions of the wire protocol, on the handlers in pkg/blobserver/handlers + gethandler and on pkg/client): " +
			"N-longpoll — in every handler that long-polls with blobserver.WaitForBlob, under the assumptions 'long-poll requested (wait seconds != 0)' and 'the deadline has not passed' the storage query is reachable from entry and the wait is reachable after the query, and under 'the deadline has passed' the query cannot reach itself again (guard polarity of the time comparisons, evaluated symbolically on the CFG; the two sibling handlers are held to the same rule); " +
			"N-continue — the enumerate handler passes the request's 'after' and a limit clamped by the storage's maximum to EnumerateBlobs, emits continueAfter only when non-empty, derives it from the last emitted ref, clears it on the short-page edge (count < limit), and on an enumeration error never reaches the writes that terminate a well-formed response; " +
			"N-client-page — the client's enumerate loop continues exactly on the presence of continueAfter, feeds its value into the next request's after= parameter, and what it sends on the channel is parsed from the blobRef/size members; " +
			"N-keys — writer/reader agreement by constant values: query keys the client writes are keys the enumerate/stat/remove handlers read, JSON members the client reads are members the enumerate handler writes, numbered blobN keys use the same prefix and the same first index on both sides, stat and remove responses are encoded and decoded through the same struct types; " +
			"N-compat — the client never builds a request the handler is bound to reject: for every handler function routed by serverinit.camliHandlerUsingStorage (enumerate-blobs, stat, upload, remove, get) the minimal conjunctions of request-key atoms (FormValue/PostFormValue/Query().Get value empty / non-empty, its strconv-parsed integer != 0 / > 0) under which every path from entry ends in an error response (status >= 400) are extracted (today: enumerate after!=\"\" && int(maxwaitsec)!=0; stat camliversion==\"\"); for every request pkg/client builds for the same /camli/<action> URL (URL and body text modelled as format calls, literals, concatenations, bytes.Buffer writes, url.Values) some atom can never hold, or two atoms exclude each other on every pair of values the two keys may carry, by a guard about the very value emitted for the other key that is evaluated for the iteration being formatted (no loop-carried phi at or above that value's definition between the guard and the request); " +
			"N-stat — the stat handler records a requested ref only when it parsed and the per-request count is within the limit, answers 200/JSON only when no StatBlobs call failed, and records results only from the callback's own argument; " +
			"N-get — ServeBlobRef reaches http.ServeContent only on the err==nil edge of Fetch, serves content derived from that fetch's reader with that fetch's size, and closes the reader on every path. " +
			"NOT decided: that a concrete client/server exchange over any configuration returns the reference map's answer; pagination completeness for concrete histories; batch-size limits at run time (the numeric rejections 'too many blobN', 'blob too big', malformed refs are outside N-compat: only rejections decided by key presence/emptiness/zero-ness alone are compared; header- and method-based rejections are not modelled); protocol clients outside pkg/client; the multipart/PUT upload handlers (claimed under C02 R-http) and authentication (C17); HTTP framing done by net/http.",
		RuleDocs: map[string]string{
			"N-longpoll":    "symbolic guard evaluation over the CFG of each caller of blobserver.WaitForBlob in pkg/blobserver/handlers: reachability of the query / the wait under {wait!=0, now<deadline}; no query->query cycle under {wait!=0, now>deadline}",
			"N-continue":    "value dependence + dominance in handlers.handleEnumerateBlobs (after/limit arguments, continueAfter emission, short-page reset, error exit before terminator)",
			"N-client-page": "value dependence in client.(*Client).EnumerateBlobsOpts (continueAfter -> loop guard and next after=; sends derive from blobRef/size)",
			"N-compat":      "per routed handler: minimal sets of request-key atoms (empty/non-empty, parsed int zero/non-zero/positive) that force an error response on every path (symbolic guard evaluation on the handler CFG); per pkg/client request for the same action: request-text model (format calls, literals, +, bytes.Buffer writes, url.Values), per key the values it may carry traced through phis with the guards of each edge; rule: some atom unsatisfiable, or two atoms mutually exclusive on all value pairs by a same-iteration guard on the other key's emitted value",
			"N-keys":        "table agreement by go/constant values between pkg/client request builders / response readers and the handlers' FormValue keys / written members; numbered key base; shared response struct types",
			"N-stat":        "dominance/reachability in handlers.handleStat (reject-before-record, error exit before ReturnJSON, callback appends its own argument)",
			"N-get":         "dominance + value dependence + pairing in gethandler.ServeBlobRef",
		},
		Run:       runC18,
		DesignRef: "DESIGN.md §4 C18",
		Technique: "static analysis: symbolic guard evaluation on the CFG (long-poll polarity; key-only rejection conjunctions of the handlers), value-dependence and dominance rules on the handlers and the client, guarded value tracing through phis with an incarnation (loop-iteration) check for client request parameters, table agreement of protocol keys by constant values",
		LevelText: "Decides structural necessary conditions of the wire protocol only: long-poll loops query before the deadline and stop after it; the enumerate continuation is produced from the last emitted ref exactly on full pages and consumed by the client's loop; protocol keys and numbered-key bases agree between client and handlers; no pkg/client request builder can emit a combination of parameters (per loop iteration) that a routed handler rejects on key presence/emptiness/zero-ness alone; stat/get handlers answer success only on the success edge of the storage call. Does not decide end-to-end map semantics for any concrete history or configuration.",
	})
}

func runC18(p *Program, r *Reporter) {
	c18Longpoll(p, r)
	c18Continue(p, r)
	c18ClientPage(p, r)
	c18Keys(p, r)
	c18Compat(p, r)
	c18Stat(p, r)
	c18Get(p, r)
}

// ---------------------------------------------------------------------------
// shared helpers

// c18Reach returns the instructions reachable after start when branch
// conditions decided by assume are followed only along the decided edge.
func c18Reach(start ssa.Instruction, assume func(ssa.Value) (known, val bool)) map[ssa.Instruction]bool {
	out := map[ssa.Instruction]bool{}
	seen := map[*ssa.BasicBlock]bool{}
	var walk func(b *ssa.BasicBlock, from int)
	walk = func(b *ssa.BasicBlock, from int) {
		for i := from; i < len(b.Instrs); i++ {
			in := b.Instrs[i]
			out[in] = true
			if ifi, ok := in.(*ssa.If); ok && assume != nil {
				if k, v := assume(ifi.Cond); k {
					s := b.Succs[1]
					if v {
						s = b.Succs[0]
					}
					if !seen[s] {
						seen[s] = true
						walk(s, 0)
					}
					return
				}
			}
		}
		for _, s := range b.Succs {
			if !seen[s] {
				seen[s] = true
				walk(s, 0)
			}
		}
	}
	walk(start.Block(), instrIndex(start)+1)
	return out
}

// c18Depends is DependsOn extended through loads of struct/array locals: a
// load of (a field or element of) a local Alloc depends on every value stored
// to any address rooted at that Alloc (composite literals, `sb := <-ch`
// followed by sb.Ref).
func c18Depends(v ssa.Value, target func(ssa.Value) bool) bool {
	seen := map[ssa.Value]bool{}
	var rootAlloc func(a ssa.Value) *ssa.Alloc
	rootAlloc = func(a ssa.Value) *ssa.Alloc {
		for i := 0; i < 8; i++ {
			switch x := a.(type) {
			case *ssa.Alloc:
				return x
			case *ssa.FieldAddr:
				a = x.X
			case *ssa.IndexAddr:
				a = x.X
			default:
				return nil
			}
		}
		return nil
	}
	var walk func(v ssa.Value, depth int) bool
	walk = func(v ssa.Value, depth int) bool {
		if v == nil || seen[v] || depth > 80 {
			return false
		}
		seen[v] = true
		if DependsOn(v, target) {
			return true
		}
		found := false
		DependsOn(v, func(x ssa.Value) bool {
			if found {
				return true
			}
			u, ok := x.(*ssa.UnOp)
			if !ok || u.Op != token.MUL {
				return false
			}
			al := rootAlloc(u.X)
			if al == nil {
				return false
			}
			fn := al.Parent()
			for _, b := range fn.Blocks {
				for _, in := range b.Instrs {
					if st, ok := in.(*ssa.Store); ok && rootAlloc(st.Addr) == al {
						if walk(st.Val, depth+1) {
							found = true
							return true
						}
					}
				}
			}
			return false
		})
		return found
	}
	return walk(v, 0)
}

// c18ConstStrings lists the string constants used as operands in fn (and,
// with deep, in its literals), in program order.
func c18ConstStrings(fn *ssa.Function, deep bool) []string {
	var out []string
	var walk func(f *ssa.Function)
	walk = func(f *ssa.Function) {
		for _, b := range f.Blocks {
			for _, in := range b.Instrs {
				for _, op := range in.Operands(nil) {
					if *op == nil {
						continue
					}
					if c, ok := (*op).(*ssa.Const); ok && c.Value != nil && c.Value.Kind() == constant.String {
						out = append(out, constant.StringVal(c.Value))
					}
				}
			}
		}
		if deep {
			for _, a := range f.AnonFuncs {
				walk(a)
			}
		}
	}
	walk(fn)
	return out
}

// c18CallsWithConstArg finds calls in fn whose callee satisfies pred and that
// have the constant string s among their arguments.
func c18CallsWithConstArg(fn *ssa.Function, s string, pred func(CallSite) bool) []CallSite {
	return FindCalls(fn, true, func(c CallSite) bool {
		if !pred(c) {
			return false
		}
		for _, a := range c.Common().Args {
			if v, ok := ConstString(a); ok && v == s {
				return true
			}
		}
		return false
	})
}

func c18IsFormValue(c CallSite) bool { return c.IsStatic("net/http", "Request", "FormValue") }

// c18VarargElems returns the values stored into the variadic slice argument v
// (a `slice t[:]` of a `new [N]any (varargs)` array).
func c18VarargElems(v ssa.Value) []ssa.Value {
	sl, ok := v.(*ssa.Slice)
	if !ok {
		return nil
	}
	al, ok := sl.X.(*ssa.Alloc)
	if !ok {
		return nil
	}
	var out []ssa.Value
	if refs := al.Referrers(); refs != nil {
		for _, u := range *refs {
			if ia, ok := u.(*ssa.IndexAddr); ok {
				if ir := ia.Referrers(); ir != nil {
					for _, w := range *ir {
						if st, ok := w.(*ssa.Store); ok && st.Addr == ssa.Value(ia) {
							out = append(out, st.Val)
						}
					}
				}
			}
		}
	}
	return out
}

// c18FormatCalls returns fmt.Sprintf/Fprintf calls in fn (deep) whose constant
// format string satisfies match, with their variadic argument values.
type c18Fmt struct {
	Call   CallSite
	Format string
	Args   []ssa.Value
}

func c18FormatCalls(fn *ssa.Function, match func(string) bool) []c18Fmt {
	var out []c18Fmt
	for _, c := range CallsIn(fn, true) {
		fi := -1
		switch {
		case c.IsStatic("fmt", "", "Sprintf"), c.IsStatic("fmt", "", "Errorf"):
			fi = 0
		case c.IsStatic("fmt", "", "Fprintf"):
			fi = 1
		}
		if fi < 0 {
			continue
		}
		args := c.Common().Args
		f, ok := ConstString(args[fi])
		if !ok || !match(f) {
			continue
		}
		out = append(out, c18Fmt{c, f, c18VarargElems(args[len(args)-1])})
	}
	return out
}

// ---------------------------------------------------------------------------
// N-longpoll

func c18Longpoll(p *Program, r *Reporter) {
	wait := p.Func("pkg/blobserver", "", "WaitForBlob")
	n := 0
	for _, c := range p.StaticCallers(wait) {
		fn := c.Fn
		if RelPkg(fn.Pkg.Pkg) != "pkg/blobserver/handlers" || fn.Parent() != nil {
			continue
		}
		n++
		key := FuncKey(fn)
		site := p.Pos(c.Pos())
		// deadline value = second argument of WaitForBlob; must be time.Now().Add(dur)
		deadline := originValue(c.Common().Args[1])
		add, ok := deadline.(*ssa.Call)
		if !ok || !(CallSite{fn, add}).IsStatic("time", "Time", "Add") {
			r.Undecided("N-longpoll", key+"#deadline", site, "the deadline passed to WaitForBlob is not a time.Now().Add(d) value computed in this function; cannot evaluate the long-poll guards")
			continue
		}
		dur := add.Call.Args[1]
		isWait := func(v ssa.Value) bool {
			o := originValue(v)
			if _, isConst := o.(*ssa.Const); isConst {
				return false
			}
			if b, ok := o.Type().Underlying().(*types.Basic); !ok || b.Info()&types.IsInteger == 0 {
				return false
			}
			return DependsOn(dur, func(x ssa.Value) bool { return x == o })
		}
		mkAssume := func(before bool) func(ssa.Value) (bool, bool) {
			var ev func(cond ssa.Value) (bool, bool)
			ev = func(cond ssa.Value) (bool, bool) {
				switch x := cond.(type) {
				case *ssa.UnOp:
					if x.Op == token.NOT {
						k, v := ev(x.X)
						return k, !v
					}
				case *ssa.BinOp:
					if x.Op == token.EQL || x.Op == token.NEQ {
						var other ssa.Value
						if z, ok := ConstInt(x.Y); ok && z == 0 {
							other = x.X
						} else if z, ok := ConstInt(x.X); ok && z == 0 {
							other = x.Y
						}
						if other != nil && isWait(other) {
							return true, x.Op == token.NEQ // wait != 0 is assumed
						}
					}
				case *ssa.Call:
					cs := CallSite{x.Parent(), x}
					isBefore := cs.IsStatic("time", "Time", "Before")
					isAfter := cs.IsStatic("time", "Time", "After")
					if (isBefore || isAfter) && len(x.Call.Args) == 2 {
						recv, arg := originValue(x.Call.Args[0]), originValue(x.Call.Args[1])
						nowCall := func(v ssa.Value) bool {
							cl, ok := v.(*ssa.Call)
							return ok && (CallSite{cl.Parent(), cl}).IsStatic("time", "", "Now")
						}
						switch {
						case nowCall(recv) && arg == deadline: // now.Before(deadline) / now.After(deadline)
							return true, isBefore == before
						case recv == deadline && nowCall(arg): // deadline.After(now) / deadline.Before(now)
							return true, isAfter == before
						}
					}
				}
				return false, false
			}
			return ev
		}
		// the storage query: an invoke of EnumerateBlobs/StatBlobs in fn, or the go/call of a literal containing one
		isQuery := func(cs CallSite) bool {
			cc := cs.Common()
			return cc.IsInvoke() && (cc.Method.Name() == "EnumerateBlobs" || cc.Method.Name() == "StatBlobs")
		}
		var query ssa.Instruction
		for _, cs := range CallsIn(fn, false) {
			if isQuery(cs) {
				query = cs.Instr
				break
			}
			if lit := ClosureOf(cs); lit != nil && len(FindCalls(lit, true, isQuery)) > 0 {
				query = cs.Instr
				break
			}
		}
		if query == nil {
			r.Undecided("N-longpoll", key+"#query", site, "no EnumerateBlobs/StatBlobs query found in a handler that long-polls")
			continue
		}
		entry := fn.Blocks[0].Instrs[0]
		beforeReach := c18Reach(entry, mkAssume(true))
		r.Check(beforeReach[query] || entry == query, "N-longpoll", key+"#query-before-deadline", p.Pos(query.Pos()),
			"with long-poll requested and the deadline not yet passed, the storage query is reachable from entry",
			"with long-poll requested (wait seconds != 0) and the deadline not yet passed, no path from entry reaches the storage query: the handler answers without ever asking the storage (time comparison has the wrong polarity)")
		afterQ := c18Reach(query, mkAssume(true))
		r.Check(afterQ[c.Instr], "N-longpoll", key+"#wait-after-query", site,
			"with long-poll requested and the deadline not yet passed, WaitForBlob is reachable after the query",
			"with long-poll requested and the deadline not yet passed, WaitForBlob is unreachable after the query: the handler cannot wait for new blobs")
		late := c18Reach(query, mkAssume(false))
		r.Check(!late[query], "N-longpoll", key+"#stops-at-deadline", p.Pos(query.Pos()),
			"once the deadline has passed the query cannot be reached again (the loop ends)",
			"with the deadline passed the storage query can still reach itself: the long-poll loop does not stop at the deadline")
	}
	r.Floor("N-longpoll", 6)
	r.Analysed("longpoll_handlers", n)
}

// ---------------------------------------------------------------------------
// N-continue

func c18Continue(p *Program, r *Reporter) {
	fn := p.Func("pkg/blobserver/handlers", "", "handleEnumerateBlobs")
	key := FuncKey(fn)
	enumIface := p.Iface("pkg/blobserver", "BlobEnumerator")
	qs := FindCalls(fn, true, func(c CallSite) bool { return c.IsMethod("EnumerateBlobs", enumIface) })
	if len(qs) != 1 {
		brokenf("anchor unresolved: expected exactly one EnumerateBlobs call in %s, found %d", key, len(qs))
	}
	q := qs[0]
	args := q.Args() // recv, ctx, dest, after, limit
	formCall := func(name string) func(ssa.Value) bool {
		return func(v ssa.Value) bool {
			cl, ok := v.(*ssa.Call)
			if !ok || !c18IsFormValue(CallSite{cl.Parent(), cl}) {
				return false
			}
			s, ok := ConstString(cl.Call.Args[1])
			return ok && s == name
		}
	}
	r.Check(DependsOn(args[3], formCall("after")), "N-continue", key+"#after-arg", p.Pos(q.Pos()),
		"the cursor passed to EnumerateBlobs derives from the request's 'after' parameter",
		"the cursor passed to EnumerateBlobs does not derive from FormValue(\"after\"): a continuation request restarts or skips")
	// limit: every store to the limit variable that depends on the parsed request value is on the
	// not-greater edge of a comparison with the storage maximum
	limitArg := args[4]
	r.Check(DependsOn(limitArg, formCall("limit")), "N-continue", key+"#limit-arg", p.Pos(q.Pos()),
		"the limit passed to EnumerateBlobs derives from the request's 'limit' parameter",
		"the limit passed to EnumerateBlobs does not derive from FormValue(\"limit\")")
	limitCell := c18CellOf(limitArg)
	if limitCell == nil {
		r.Undecided("N-continue", key+"#limit-clamp", p.Pos(q.Pos()), "cannot identify the variable holding the limit")
	} else {
		isParsed := func(v ssa.Value) bool {
			cl, ok := v.(*ssa.Call)
			return ok && ((CallSite{cl.Parent(), cl}).IsStatic("strconv", "", "ParseUint") || (CallSite{cl.Parent(), cl}).IsStatic("strconv", "", "Atoi") || (CallSite{cl.Parent(), cl}).IsStatic("strconv", "", "ParseInt"))
		}
		isMax := func(v ssa.Value) bool {
			return DependsOn(v, func(x ssa.Value) bool {
				cl, ok := x.(*ssa.Call)
				if ok && cl.Call.IsInvoke() && cl.Call.Method.Name() == "MaxEnumerate" {
					return true
				}
				return false
			})
		}
		okClamp, parsedStores := true, 0
		why := ""
		for _, st := range storesTo(limitCell) {
			if !DependsOn(st.Val, isParsed) {
				continue
			}
			parsedStores++
			clamped := false
			for _, f := range FactsAt(st.Block()) {
				bo, ok := f.Cond.(*ssa.BinOp)
				if !ok {
					continue
				}
				// parsed > max  (false)   or  parsed <= max (true) ...
				lp, rp := DependsOn(bo.X, isParsed), DependsOn(bo.Y, isParsed)
				lm, rm := isMax(bo.X), isMax(bo.Y)
				switch {
				case lp && rm && (bo.Op == token.GTR && !f.Val || bo.Op == token.LEQ && f.Val || bo.Op == token.GEQ && !f.Val || bo.Op == token.LSS && f.Val):
					clamped = true
				case rp && lm && (bo.Op == token.LSS && !f.Val || bo.Op == token.GEQ && f.Val || bo.Op == token.LEQ && !f.Val || bo.Op == token.GTR && f.Val):
					clamped = true
				}
			}
			if !clamped {
				okClamp = false
				why = fmt.Sprintf("the store of the parsed request value into the limit at line %d is not guarded by a comparison with the storage's MaxEnumerate", p.Fset.Position(st.Pos()).Line)
			}
		}
		if parsedStores == 0 {
			okClamp, why = false, "no store of the parsed 'limit' value found"
		}
		r.Check(okClamp, "N-continue", key+"#limit-clamp", p.Pos(q.Pos()),
			"the client-supplied limit reaches EnumerateBlobs only when not greater than the storage's maximum", why)
	}
	// continueAfter emission
	conts := c18FormatCalls(fn, func(f string) bool { return strings.Contains(f, "continueAfter") })
	if len(conts) != 1 || len(conts[0].Args) != 1 {
		r.Violation("N-continue", key+"#continueAfter", p.Pos(fn.Pos()), "the handler no longer writes exactly one continueAfter member from one value: full pages cannot be continued")
		r.Floor("N-continue", 7)
		return
	}
	cont := conts[0]
	cv := cont.Args[0]
	if mi, ok := cv.(*ssa.MakeInterface); ok {
		cv = mi.X
	}
	// (1) emitted only when non-empty
	nonEmpty := false
	for _, f := range FactsAt(cont.Call.Block()) {
		if bo, ok := f.Cond.(*ssa.BinOp); ok && (bo.Op == token.NEQ && f.Val || bo.Op == token.EQL && !f.Val) {
			if s, ok := ConstString(bo.Y); ok && s == "" && sameOrigin(bo.X, cv) {
				nonEmpty = true
			}
		}
	}
	r.Check(nonEmpty, "N-continue", key+"#continueAfter-nonempty", p.Pos(cont.Call.Pos()),
		"continueAfter is written only under value != \"\"", "continueAfter is written without testing that the value is non-empty: clients loop forever on the last page")
	// (2) derives from Ref.String() of a value received from the channel fed by the query
	fromRecv := DependsOn(cv, func(x ssa.Value) bool {
		cl, ok := x.(*ssa.Call)
		if !ok || !(CallSite{cl.Parent(), cl}).IsStatic("perkeep.org/pkg/blob", "Ref", "String") {
			return false
		}
		return c18Depends(cl.Call.Args[0], func(y ssa.Value) bool {
			u, ok := y.(*ssa.UnOp)
			return ok && u.Op == token.ARROW
		})
	})
	r.Check(fromRecv, "N-continue", key+"#continueAfter-last-ref", p.Pos(cont.Call.Pos()),
		"the continueAfter value derives from the String() of a ref received from the enumeration channel",
		"the continueAfter value does not derive from a ref received from the enumeration: the next page would not start after the last emitted blob")
	// (3) cleared on the short-page edge: a phi on the value's chain receives "" from a block
	// guarded by count < limit (count incremented per received blob)
	cleared, clearWhy := c18ShortPageReset(cv, limitCell)
	r.Check(cleared, "N-continue", key+"#short-page-reset", p.Pos(cont.Call.Pos()),
		"the continuation value is reset to \"\" on the edge where fewer blobs than the limit were received", clearWhy)
	// (4) an enumeration error exits before the terminator writes
	var errRecv *ssa.UnOp
	for _, b := range fn.Blocks {
		for _, in := range b.Instrs {
			if u, ok := in.(*ssa.UnOp); ok && u.Op == token.ARROW && isErrorType(u.Type()) {
				errRecv = u
			}
		}
	}
	if errRecv == nil {
		r.Violation("N-continue", key+"#error-exit", p.Pos(q.Pos()), "the handler no longer receives the enumeration's error result: a failed enumeration would be reported as a complete list")
	} else {
		okErr := false
		why := "the enumeration error is never tested"
		for _, b := range fn.Blocks {
			ifi, ok := b.Instrs[len(b.Instrs)-1].(*ssa.If)
			if !ok {
				continue
			}
			k, isNil := condSaysNil(ifi.Cond, true, errRecv)
			if !k {
				continue
			}
			errSucc := b.Succs[0]
			if isNil {
				errSucc = b.Succs[1]
			}
			reach := map[ssa.Instruction]bool{}
			if len(errSucc.Instrs) > 0 {
				reach = c18Reach(errSucc.Instrs[0], nil)
				reach[errSucc.Instrs[0]] = true
			}
			okErr = true
			for in := range reach {
				ci, ok := in.(ssa.CallInstruction)
				if !ok {
					continue
				}
				cs := CallSite{fn, ci}
				if cs.IsStatic("io", "", "WriteString") || cs.IsStatic("fmt", "", "Fprintf") {
					for _, a := range cs.Common().Args {
						if s, ok := ConstString(a); ok && (strings.Contains(s, "]") || strings.Contains(s, "continueAfter")) && !strings.Contains(s, "{{{") {
							okErr = false
							why = fmt.Sprintf("from the err != nil edge of the enumeration result the write %q at line %d is reachable: a failed enumeration is answered as a well-formed (truncated) list", s, p.Fset.Position(cs.Pos()).Line)
						}
					}
				}
			}
		}
		r.Check(okErr, "N-continue", key+"#error-exit", p.Pos(errRecv.Pos()),
			"on the err != nil edge of the enumeration result the list/continuation terminator writes are unreachable", why)
	}
	r.Floor("N-continue", 7)
}

// c18CellOf returns the variable cell a value is loaded from (through
// closure captures), or nil.
func c18CellOf(v ssa.Value) *ssa.Alloc {
	for i := 0; i < 8; i++ {
		switch x := v.(type) {
		case *ssa.UnOp:
			if x.Op == token.MUL {
				if cell, ok := varOf(x.X); ok {
					al, _ := cell.(*ssa.Alloc)
					return al
				}
			}
			return nil
		case *ssa.ChangeType:
			v = x.X
		case *ssa.Convert:
			v = x.X
		default:
			return nil
		}
	}
	return nil
}

// c18ShortPageReset: somewhere on the phi chain feeding cv there is a phi with
// a "" edge coming from the true edge of `count < limit` (or the false edge of
// `count >= limit`, or `count != limit` true...), where limit loads limitCell
// and count is a loop counter (phi of 0 and itself+1).
func c18ShortPageReset(cv ssa.Value, limitCell *ssa.Alloc) (bool, string) {
	seen := map[ssa.Value]bool{}
	var phis []*ssa.Phi
	var walk func(v ssa.Value)
	walk = func(v ssa.Value) {
		if seen[v] {
			return
		}
		seen[v] = true
		if ph, ok := v.(*ssa.Phi); ok {
			phis = append(phis, ph)
			for _, e := range ph.Edges {
				walk(e)
			}
		}
	}
	walk(cv)
	isCounter := func(v ssa.Value) bool {
		ph, ok := v.(*ssa.Phi)
		if !ok {
			return false
		}
		zero, inc := false, false
		for _, e := range ph.Edges {
			if z, ok := ConstInt(e); ok && z == 0 {
				zero = true
			}
			if bo, ok := e.(*ssa.BinOp); ok && bo.Op == token.ADD && bo.X == ssa.Value(ph) {
				if o, ok := ConstInt(bo.Y); ok && o == 1 {
					inc = true
				}
			}
		}
		return zero && inc
	}
	isLimit := func(v ssa.Value) bool {
		c := c18CellOf(v)
		return c != nil && c == limitCell
	}
	for _, ph := range phis {
		for i, e := range ph.Edges {
			if s, ok := ConstString(e); !ok || s != "" {
				continue
			}
			pred := ph.Block().Preds[i]
			// facts at pred (plus pred itself being the branch target)
			for _, f := range FactsAt(pred) {
				bo, ok := f.Cond.(*ssa.BinOp)
				if !ok {
					continue
				}
				cl := isCounter(bo.X) && isLimit(bo.Y)
				lc := isLimit(bo.X) && isCounter(bo.Y)
				switch {
				case cl && (bo.Op == token.LSS && f.Val || bo.Op == token.GEQ && !f.Val || bo.Op == token.NEQ && f.Val || bo.Op == token.EQL && !f.Val):
					return true, ""
				case lc && (bo.Op == token.GTR && f.Val || bo.Op == token.LEQ && !f.Val || bo.Op == token.NEQ && f.Val || bo.Op == token.EQL && !f.Val):
					return true, ""
				}
			}
		}
	}
	return false, "the continuation value is never reset to \"\" on a 'received count < limit' edge: a short (last) page would still announce a continuation, or a full page would not"
}

// ---------------------------------------------------------------------------
// N-client-page

func c18ClientPage(p *Program, r *Reporter) {
	fn := p.Func("pkg/client", "Client", "EnumerateBlobsOpts")
	key := FuncKey(fn)
	inClient := func(c CallSite) bool {
		f := c.Callee()
		return f != nil && InModule(f) && RelPkg(f.Pkg.Pkg) == "pkg/client"
	}
	ks := c18CallsWithConstArg(fn, "continueAfter", inClient)
	if len(ks) != 1 || ks[0].Value() == nil {
		r.Violation("N-client-page", key+"#continueAfter-read", p.Pos(fn.Pos()), "the client no longer reads the continueAfter member exactly once per page")
		r.Floor("N-client-page", 4)
		return
	}
	k := ks[0].Value()
	val, present := ResultValue(k, 0), ResultValue(k, 1)
	urls := c18FormatCalls(fn, func(f string) bool { return strings.Contains(f, "enumerate-blobs") })
	if len(urls) != 1 {
		brokenf("anchor unresolved: enumerate-blobs request URL in %s", key)
	}
	u := urls[0]
	dependsVal := false
	if val != nil {
		for _, a := range u.Args {
			if DependsOn(a, func(x ssa.Value) bool { return x == val }) {
				dependsVal = true
			}
		}
	}
	r.Check(dependsVal, "N-client-page", key+"#next-after", p.Pos(u.Call.Pos()),
		"the next request's URL depends on the continueAfter value of the previous response",
		"the request URL does not depend on the previous response's continueAfter value: every page would be the first page")
	// which URL key receives it: the verb position of the dependent argument must follow "after="
	afterPos := false
	if val != nil {
		verbs := regexp.MustCompile(`%[a-zA-Z]`).FindAllStringIndex(u.Format, -1)
		for i, a := range u.Args {
			if i < len(verbs) && DependsOn(a, func(x ssa.Value) bool { return x == val }) {
				if strings.HasSuffix(u.Format[:verbs[i][0]], "after=") {
					afterPos = true
				}
			}
		}
	}
	r.Check(afterPos, "N-client-page", key+"#after-key", p.Pos(u.Call.Pos()),
		"the continuation value is sent as the after= parameter", "the continuation value is not placed after \"after=\" in the request URL")
	guard := false
	if present != nil {
		for _, f := range FactsAt(u.Call.Block()) {
			if f.Val && DependsOn(f.Cond, func(x ssa.Value) bool { return x == present }) {
				guard = true
			}
		}
	}
	r.Check(guard, "N-client-page", key+"#loop-guard", p.Pos(u.Call.Pos()),
		"the request loop is guarded by the presence flag of continueAfter",
		"the request loop is not guarded by the presence of continueAfter in the previous response: paging stops early or never")
	// sends
	nSend := 0
	okSend := true
	chk := func(v ssa.Value, pos token.Pos) {
		nSend++
		for _, member := range []string{"blobRef", "size"} {
			if !c18Depends(v, func(x ssa.Value) bool {
				cl, ok := x.(*ssa.Call)
				if !ok || !inClient(CallSite{cl.Parent(), cl}) {
					return false
				}
				for _, a := range cl.Call.Args {
					if s, ok := ConstString(a); ok && s == member {
						return true
					}
				}
				return false
			}) {
				okSend = false
			}
		}
	}
	for _, b := range fn.Blocks {
		for _, in := range b.Instrs {
			switch x := in.(type) {
			case *ssa.Send:
				chk(x.X, x.Pos())
			case *ssa.Select:
				for _, st := range x.States {
					if st.Dir == types.SendOnly {
						chk(st.Send, st.Pos)
					}
				}
			}
		}
	}
	r.Check(okSend && nSend > 0, "N-client-page", key+"#sends", p.Pos(fn.Pos()),
		fmt.Sprintf("%d send(s): every value sent to the caller derives from the blobRef and size members of a response item", nSend),
		"a value sent to the caller does not derive from both the blobRef and the size member of a response item")
	r.Floor("N-client-page", 4)
}

// ---------------------------------------------------------------------------
// N-keys

var c18QueryKeyRE = regexp.MustCompile(`(?:^|[?&])([A-Za-z]+)(%[dv])?=`)

// c18FirstValue evaluates the value an integer expression has the first time
// it is computed: constants, +const, and loop phis (taking their constant
// entry edge).
func c18FirstValue(v ssa.Value, depth int) (int64, bool) {
	if depth > 8 {
		return 0, false
	}
	switch x := v.(type) {
	case *ssa.Const:
		return ConstInt(x)
	case *ssa.MakeInterface:
		return c18FirstValue(x.X, depth+1)
	case *ssa.Convert:
		return c18FirstValue(x.X, depth+1)
	case *ssa.BinOp:
		if x.Op == token.ADD {
			if c, ok := ConstInt(x.Y); ok {
				if b, ok := c18FirstValue(x.X, depth+1); ok {
					return b + c, true
				}
			}
		}
	case *ssa.Phi:
		n, val := 0, int64(0)
		for _, e := range x.Edges {
			if c, ok := e.(*ssa.Const); ok {
				if z, ok := ConstInt(c); ok {
					n++
					val = z
				}
			}
		}
		if n == 1 {
			return val, true
		}
	}
	return 0, false
}

func c18Keys(p *Program, r *Reporter) {
	// --- enumerate: query keys and JSON members
	hEnum := p.Func("pkg/blobserver/handlers", "", "handleEnumerateBlobs")
	cEnum := p.Func("pkg/client", "Client", "EnumerateBlobsOpts")
	serverKeys := func(fn *ssa.Function) (plain map[string]bool, numbered map[string]int64) {
		plain, numbered = map[string]bool{}, map[string]int64{}
		for _, c := range FindCalls(fn, true, c18IsFormValue) {
			arg := c.Common().Args[1]
			if s, ok := ConstString(arg); ok {
				plain[s] = true
				continue
			}
			if cl, ok := originValue(arg).(*ssa.Call); ok && (CallSite{cl.Parent(), cl}).IsStatic("fmt", "", "Sprintf") {
				if f, ok := ConstString(cl.Call.Args[0]); ok {
					if m := regexp.MustCompile(`^([A-Za-z]+)%[dv]$`).FindStringSubmatch(f); m != nil {
						el := c18VarargElems(cl.Call.Args[1])
						if len(el) == 1 {
							if fv, ok := c18FirstValue(el[0], 0); ok {
								numbered[m[1]] = fv
								continue
							}
						}
						numbered[m[1]] = -999
					}
				}
			}
		}
		return
	}
	// client-side keys: from constant format strings containing key=...; numbered keys with the first value of their argument
	clientKeys := func(fcs []c18Fmt) (plain map[string]bool, numbered map[string]int64) {
		plain, numbered = map[string]bool{}, map[string]int64{}
		for _, fc := range fcs {
			q := fc.Format
			if i := strings.Index(q, "?"); i >= 0 {
				q = q[i:]
			} else if !strings.Contains(q, "=") && !regexp.MustCompile(`^[A-Za-z]+%[dv]$`).MatchString(q) {
				continue
			}
			if m := regexp.MustCompile(`^([A-Za-z]+)%[dv]$`).FindStringSubmatch(q); m != nil && len(fc.Args) == 1 {
				// a key built on its own: Sprintf("blob%v", n+1)
				fv, ok := c18FirstValue(fc.Args[0], 0)
				if !ok {
					fv = -999
				}
				numbered[m[1]] = fv
				continue
			}
			verbs := regexp.MustCompile(`%[a-zA-Z]`).FindAllStringIndex(q, -1)
			for _, m := range c18QueryKeyRE.FindAllStringSubmatchIndex(q, -1) {
				name := q[m[2]:m[3]]
				if m[4] >= 0 { // numbered key: which verb index is it?
					vi := -1
					for i, vb := range verbs {
						if vb[0] == m[4] {
							vi = i
						}
					}
					fv := int64(-999)
					if vi >= 0 && vi < len(fc.Args) {
						if x, ok := c18FirstValue(fc.Args[vi], 0); ok {
							fv = x
						}
					}
					numbered[name] = fv
				} else {
					plain[name] = true
				}
			}
		}
		return
	}
	cmp := func(what, ckey string, cp map[string]bool, cn map[string]int64, sp map[string]bool, sn map[string]int64, site string, wantPlain, wantNum int) {
		if len(cp) < wantPlain || len(cn) < wantNum {
			r.Violation("N-keys", ckey+"#"+what+"-extract", site, fmt.Sprintf("extracted only %d plain / %d numbered request keys on the client side (expected at least %d / %d): the request builder changed shape; cannot compare", len(cp), len(cn), wantPlain, wantNum))
			return
		}
		var names []string
		for k := range cp {
			names = append(names, k)
		}
		sort.Strings(names)
		for _, k := range names {
			r.Check(sp[k], "N-keys", ckey+"#"+what+"-key-"+k, site,
				"request key '"+k+"' written by the client is read by the handler",
				"request key '"+k+"' written by the client is not read by the handler (FormValue keys: "+c18SetString(sp)+")")
		}
		names = names[:0]
		for k := range cn {
			names = append(names, k)
		}
		sort.Strings(names)
		for _, k := range names {
			sv, ok := sn[k]
			r.Check(ok && sv == cn[k] && sv != -999, "N-keys", ckey+"#"+what+"-numbered-"+k, site,
				fmt.Sprintf("numbered key '%sN' starts at %d on both sides", k, sv),
				fmt.Sprintf("numbered key '%sN': client starts at %d, handler at %d (present=%v): the handler's scan stops at the first missing index, so every blob of the request is ignored or the first one is", k, cn[k], sv, ok))
		}
	}
	sp, sn := serverKeys(hEnum)
	// every text fragment that flows into the URL or the body of the requests fn
	// builds for the action (format calls, literals, buffer writes, url.Values
	// entries - see the request model of N-compat)
	modelFmts := func(fn *ssa.Function, action string) []c18Fmt {
		var out []c18Fmt
		for _, rq := range c18Requests(fn) {
			if rq.Action != action {
				continue
			}
			seenAt := map[ssa.Instruction]bool{}
			for _, f := range rq.Frags {
				if !seenAt[f.At] || f.Literal {
					seenAt[f.At] = true
					out = append(out, c18Fmt{Format: f.Text, Args: f.Args})
				}
			}
		}
		return out
	}
	cp, cn := clientKeys(modelFmts(cEnum, "enumerate-blobs"))
	cmp("enumerate", FuncKey(cEnum), cp, cn, sp, sn, p.Pos(cEnum.Pos()), 3, 0)
	// JSON members read by the client vs text written by the handler
	written := strings.Join(c18ConstStrings(hEnum, true), "\x00")
	members := map[string]bool{}
	for _, c := range CallsIn(cEnum, true) {
		f := c.Callee()
		if f == nil || !InModule(f) || RelPkg(f.Pkg.Pkg) != "pkg/client" || !strings.HasPrefix(f.Name(), "getJSONMap") {
			continue
		}
		for _, a := range c.Common().Args {
			if s, ok := ConstString(a); ok {
				members[s] = true
			}
		}
	}
	var ms []string
	for m := range members {
		ms = append(ms, m)
	}
	sort.Strings(ms)
	for _, m := range ms {
		r.Check(strings.Contains(written, `"`+m+`"`), "N-keys", FuncKey(cEnum)+"#enumerate-member-"+m, p.Pos(cEnum.Pos()),
			"response member \""+m+"\" read by the client is written by the handler",
			"response member \""+m+"\" read by the client is not written by the enumerate handler")
	}
	if len(ms) < 4 {
		r.Violation("N-keys", FuncKey(cEnum)+"#enumerate-members", p.Pos(cEnum.Pos()), fmt.Sprintf("only %d response members found on the client side (blobs, blobRef, size, continueAfter expected)", len(ms)))
	}
	// --- stat
	hStat := p.Func("pkg/blobserver/handlers", "", "handleStat")
	cStat := p.Func("pkg/client", "Client", "doStat")
	sp, sn = serverKeys(hStat)
	cp, cn = clientKeys(modelFmts(cStat, "stat"))
	cmp("stat", FuncKey(cStat), cp, cn, sp, sn, p.Pos(cStat.Pos()), 2, 1)
	// --- remove
	hRem := p.Func("pkg/blobserver/handlers", "", "handleRemove")
	cRem := p.Func("pkg/client", "Client", "RemoveBlobs")
	sp, sn = serverKeys(hRem)
	cp, cn = clientKeys(modelFmts(cRem, "remove"))
	cmp("remove", FuncKey(cRem), cp, cn, sp, sn, p.Pos(cRem.Pos()), 0, 1)
	// --- response struct types shared
	statResp := p.NamedType("pkg/blobserver/protocol", "StatResponse")
	usesType := func(fn *ssa.Function, n *types.Named) bool {
		found := false
		var walk func(f *ssa.Function)
		walk = func(f *ssa.Function) {
			for _, b := range f.Blocks {
				for _, in := range b.Instrs {
					if al, ok := in.(*ssa.Alloc); ok {
						if nn := NamedOf(al.Type().(*types.Pointer).Elem()); nn != nil && nn.Obj() == n.Obj() {
							found = true
						}
					}
				}
			}
			for _, a := range f.AnonFuncs {
				walk(a)
			}
		}
		walk(fn)
		return found
	}
	parse := p.Func("pkg/client", "", "parseStatResponse")
	r.Check(usesType(hStat, statResp) && usesType(parse, statResp), "N-keys", "pkg/blobserver/protocol.StatResponse#shared", p.Pos(parse.Pos()),
		"the stat handler encodes and the client decodes the same struct type protocol.StatResponse",
		"the stat handler and the client no longer share protocol.StatResponse: member names can drift apart")
	remResp := p.NamedType("pkg/blobserver/handlers", "RemoveResponse")
	r.Check(usesType(hRem, remResp) && usesType(cRem, remResp), "N-keys", "pkg/blobserver/handlers.RemoveResponse#shared", p.Pos(cRem.Pos()),
		"the remove handler encodes and the client decodes the same struct type handlers.RemoveResponse",
		"the remove handler and the client no longer share handlers.RemoveResponse")
	r.Floor("N-keys", 13)
}

func c18SetString(m map[string]bool) string {
	var s []string
	for k := range m {
		s = append(s, k)
	}
	sort.Strings(s)
	return "{" + strings.Join(s, ",") + "}"
}

// ---------------------------------------------------------------------------
// N-stat

func c18Stat(p *Program, r *Reporter) {
	fn := p.Func("pkg/blobserver/handlers", "", "handleStat")
	key := FuncKey(fn)
	// (1) the needStat map update is dominated by blob.Parse ok==true on the FormValue value and by the false edge of the count check
	var upd *ssa.MapUpdate
	for _, b := range fn.Blocks {
		for _, in := range b.Instrs {
			if mu, ok := in.(*ssa.MapUpdate); ok {
				if n := NamedOf(mu.Key.Type()); n != nil && n.Obj().Name() == "Ref" {
					upd = mu
				}
			}
		}
	}
	if upd == nil {
		brokenf("anchor unresolved: map update recording a requested ref in %s", key)
	}
	parseOK, fromForm := false, false
	if ex, ok := originValue(upd.Key).(*ssa.Extract); ok {
		if cl, ok := ex.Tuple.(*ssa.Call); ok && (CallSite{fn, cl}).IsStatic("perkeep.org/pkg/blob", "", "Parse") {
			fromForm = DependsOn(cl.Call.Args[0], func(x ssa.Value) bool {
				c2, ok := x.(*ssa.Call)
				return ok && c18IsFormValue(CallSite{fn, c2})
			})
			okv := ResultValue(cl, 1)
			for _, f := range FactsAt(upd.Block()) {
				if f.Val && okv != nil && sameOrigin(f.Cond, okv) {
					parseOK = true
				}
			}
		}
	}
	r.Check(parseOK && fromForm, "N-stat", key+"#record-parsed", p.Pos(upd.Pos()),
		"a requested ref is recorded only when blob.Parse of the form value succeeded",
		"the ref recorded for stat is not the successfully parsed form value: malformed requests are silently answered")
	// count bound: some dominating fact compares the running index with a constant and the recording is on the not-greater edge
	bound := false
	for _, f := range FactsAt(upd.Block()) {
		if bo, ok := f.Cond.(*ssa.BinOp); ok {
			if c, ok := ConstInt(bo.Y); ok && c >= 1 && (bo.Op == token.GTR && !f.Val || bo.Op == token.LEQ && f.Val || bo.Op == token.GEQ && !f.Val || bo.Op == token.LSS && f.Val) {
				if _, ok := c18FirstValue(bo.X, 0); ok {
					bound = true
				}
			}
		}
	}
	r.Check(bound, "N-stat", key+"#count-bound", p.Pos(upd.Pos()),
		"recording a requested ref is on the within-limit edge of the per-request count check",
		"the per-request count check no longer guards the recording of requested refs")
	// rejects answer with an error, not silently: every return reachable from the !ok edge or the over-limit edge is preceded by BadRequestError
	// (2) error exit: from err != nil of StatBlobs, ReturnJSON unreachable
	statIface := p.Iface("pkg/blobserver", "BlobStatter")
	qs := FindCalls(fn, false, func(c CallSite) bool { return c.IsMethod("StatBlobs", statIface) })
	if len(qs) != 1 || qs[0].Value() == nil {
		brokenf("anchor unresolved: StatBlobs call in %s", key)
	}
	q := qs[0]
	rets := FindCalls(fn, false, func(c CallSite) bool { return c.IsStatic("perkeep.org/internal/httputil", "", "ReturnJSON") })
	okErr := len(rets) > 0
	why := "no ReturnJSON call found"
	ev, _, discarded := ErrValue(q.Value())
	if discarded {
		okErr, why = false, "the error result of StatBlobs is discarded"
	} else {
		for _, b := range fn.Blocks {
			ifi, ok := b.Instrs[len(b.Instrs)-1].(*ssa.If)
			if !ok {
				continue
			}
			k, isNil := condSaysNil(ifi.Cond, true, ev)
			if !k {
				continue
			}
			errSucc := b.Succs[0]
			if isNil {
				errSucc = b.Succs[1]
			}
			reach := c18Reach(errSucc.Instrs[0], nil)
			reach[errSucc.Instrs[0]] = true
			for _, rc := range rets {
				if reach[rc.Instr] {
					okErr = false
					why = "ReturnJSON (200 + JSON) is reachable from the err != nil edge of StatBlobs: a failed stat is answered as 'these blobs are absent'"
				}
			}
		}
		// and every ReturnJSON must be preceded by the test at all
		for _, rc := range rets {
			if !DependsOnErrTest(fn, ev) {
				okErr, why = false, "the error of StatBlobs is never tested"
			}
			_ = rc
		}
	}
	r.Check(okErr, "N-stat", key+"#error-exit", p.Pos(q.Pos()), "ReturnJSON is unreachable from the err != nil edge of StatBlobs", why)
	// (3) the callback appends its own argument
	lits := FuncArgClosures(q)
	okCb := false
	if len(lits) == 1 && len(lits[0].Params) == 1 {
		cb := lits[0]
		for _, c := range CallsIn(cb, false) {
			if b, ok := c.Common().Value.(*ssa.Builtin); ok && b.Name() == "append" {
				for _, el := range c18VarargElems(c.Common().Args[1]) {
					if DependsOn(el, func(x ssa.Value) bool { return x == ssa.Value(cb.Params[0]) }) {
						okCb = true
					}
				}
			}
		}
	}
	r.Check(okCb, "N-stat", key+"#callback-appends-arg", p.Pos(q.Pos()),
		"the StatBlobs callback appends its own SizedRef argument to the response",
		"the StatBlobs callback does not append its own argument to the response")
	r.Floor("N-stat", 4)
}

// DependsOnErrTest reports whether some If in fn tests ev against nil.
func DependsOnErrTest(fn *ssa.Function, ev ssa.Value) bool {
	for _, b := range fn.Blocks {
		if ifi, ok := b.Instrs[len(b.Instrs)-1].(*ssa.If); ok {
			if k, _ := condSaysNil(ifi.Cond, true, ev); k {
				return true
			}
		}
	}
	return false
}

// ---------------------------------------------------------------------------
// N-get

func c18Get(p *Program, r *Reporter) {
	fn := p.Func("pkg/blobserver/gethandler", "", "ServeBlobRef")
	key := FuncKey(fn)
	fetchIface := p.Iface("pkg/blob", "Fetcher")
	fs := FindCalls(fn, false, func(c CallSite) bool { return c.IsMethod("Fetch", fetchIface) })
	if len(fs) != 1 || fs[0].Value() == nil {
		brokenf("anchor unresolved: Fetch call in %s", key)
	}
	f := fs[0].Value()
	serves := FindCalls(fn, false, func(c CallSite) bool { return c.IsStatic("net/http", "", "ServeContent") })
	if len(serves) == 0 {
		brokenf("anchor unresolved: http.ServeContent call in %s", key)
	}
	rc, size := ResultValue(f, 0), ResultValue(f, 1)
	for _, s := range serves {
		ok, why := SuccessDominates(f, s.Instr)
		r.Check(ok, "N-get", key+"#serve-after-fetch-ok", p.Pos(s.Pos()),
			"http.ServeContent is reached only on the err==nil edge of Fetch", "http.ServeContent is reachable without a successful Fetch: "+why)
		content := s.Common().Args[4]
		depRC := rc != nil && DependsOn(content, func(x ssa.Value) bool { return x == rc })
		depSize := size != nil && DependsOn(content, func(x ssa.Value) bool { return x == size })
		r.Check(depRC && depSize, "N-get", key+"#content-from-fetch", p.Pos(s.Pos()),
			"the served content derives from the reader and the size returned by that Fetch",
			fmt.Sprintf("the served content does not derive from both results of the Fetch (reader: %v, size: %v): length or bytes may differ from the stored blob", depRC, depSize))
	}
	// the reader is closed on every path after a successful fetch
	closed := false
	for _, d := range DeferredCalls(fn) {
		if d.Common().IsInvoke() && d.Common().Method.Name() == "Close" && rc != nil && sameOrigin(d.Common().Value, rc) {
			if ok, _ := SuccessDominates(f, d.Instr); ok {
				closed = true
				// no return between the success edge and the defer
				for _, ri := range Returns(fn) {
					if k, isNil := NilFact(ri.Ret.Block(), mustErr(f)); k && isNil && !Precedes(d.Instr, ri.Ret) {
						closed = false
					}
				}
			}
		}
	}
	r.Check(closed, "N-get", key+"#reader-closed", p.Pos(f.Pos()),
		"the fetched reader's Close is deferred on the success edge before any return",
		"the fetched reader is not closed on every path after a successful Fetch (leaks a file descriptor / gate slot per request)")
	r.Floor("N-get", 3)
}

func mustErr(c *ssa.Call) ssa.Value {
	ev, _, _ := ErrValue(c)
	return ev
}

// ---------------------------------------------------------------------------
// N-compat: the client never builds a request the handler is bound to reject
//
// Server side: for every handler function routed by
// serverinit.camliHandlerUsingStorage, every error response whose dominating
// branch conditions contain atoms over request keys yields a candidate
// conjunction of key atoms; it is kept when, with exactly these atoms assumed
// (everything else unknown), no path from entry reaches a return without
// passing an error response (the conjunction alone is sufficient to be
// rejected).
// Client side: for every request built in pkg/client for the same action, the
// request text (URL + body) is modelled as fragments (format calls, literals,
// buffer writes, url.Values) with the facts under which each fragment is part
// of the request; for every atom the values that may satisfy it are traced to
// their leaves together with the facts guarding each leaf.
// Obligation: some atom can never hold, or two atoms exclude each other on
// every pair of leaves by a fact about the very SSA value emitted for the other
// key — with no phi at or above that value's defining block crossed between the
// fact and the request (the fact holds for the iteration that is formatted).

// atom kinds, ordered by implication: kind k holds => every lower kind holds.
const (
	c18NonEmpty   = 0 // the key's value is not ""
	c18IntNonZero = 1 // the key's value parses to an integer != 0
	c18IntPos     = 2 // the key's value parses to an integer > 0
)

type c18Atom struct {
	Key  string
	Kind int
	Pos  bool
}

func (a c18Atom) String() string {
	switch a.Kind {
	case c18NonEmpty:
		if a.Pos {
			return a.Key + `!=""`
		}
		return a.Key + `==""`
	case c18IntNonZero:
		if a.Pos {
			return "int(" + a.Key + ")!=0"
		}
		return "int(" + a.Key + ")==0"
	default:
		if a.Pos {
			return "int(" + a.Key + ")>0"
		}
		return "int(" + a.Key + ")<=0"
	}
}

func c18AtomsString(as []c18Atom) string {
	var s []string
	for _, a := range as {
		s = append(s, a.String())
	}
	return strings.Join(s, " && ")
}

// c18ReqKeyOf: v is the value of request key K (FormValue/PostFormValue, or
// Get on req.URL.Query() / req.Form).
func c18ReqKeyOf(v ssa.Value) (string, bool) {
	cl, ok := originValue(v).(*ssa.Call)
	if !ok {
		return "", false
	}
	cs := CallSite{cl.Parent(), cl}
	switch {
	case cs.IsStatic("net/http", "Request", "FormValue"), cs.IsStatic("net/http", "Request", "PostFormValue"):
		return ConstString(cl.Call.Args[1])
	case cs.IsStatic("net/url", "Values", "Get"):
		fromReq := DependsOn(cl.Call.Args[0], func(x ssa.Value) bool {
			if c2, ok := x.(*ssa.Call); ok && (CallSite{c2.Parent(), c2}).IsStatic("net/url", "URL", "Query") {
				return true
			}
			if fa, ok := x.(*ssa.FieldAddr); ok {
				if pt, ok := fa.X.Type().Underlying().(*types.Pointer); ok && IsNamed(pt.Elem(), "net/http", "Request") {
					n := fieldName(pt.Elem(), fa.Field)
					return n == "Form" || n == "PostForm"
				}
			}
			return false
		})
		if fromReq {
			return ConstString(cl.Call.Args[1])
		}
	}
	return "", false
}

// c18ReqIntKeyOf: v is the integer parsed from the value of request key K.
func c18ReqIntKeyOf(v ssa.Value) (string, bool) {
	for i := 0; i < 4; i++ {
		o := originValue(v)
		if cv, ok := o.(*ssa.Convert); ok {
			v = cv.X
			continue
		}
		ex, ok := o.(*ssa.Extract)
		if !ok || ex.Index != 0 {
			return "", false
		}
		cl, ok := ex.Tuple.(*ssa.Call)
		if !ok {
			return "", false
		}
		cs := CallSite{cl.Parent(), cl}
		if cs.IsStatic("strconv", "", "Atoi") || cs.IsStatic("strconv", "", "ParseInt") || cs.IsStatic("strconv", "", "ParseUint") {
			return c18ReqKeyOf(cl.Call.Args[0])
		}
		return "", false
	}
	return "", false
}

// c18CmpZero normalises a comparison of some value with the constants "" / 0 /
// 1 into (value, kind, pos): "cond == val" means atom(kind) on value has
// polarity pos. isStr tells which constant family matched.
func c18CmpZero(cond ssa.Value, val bool) (x ssa.Value, kind int, pos, isStr, ok bool) {
	for {
		u, isNot := cond.(*ssa.UnOp)
		if !isNot || u.Op != token.NOT {
			break
		}
		cond, val = u.X, !val
	}
	bo, isBin := cond.(*ssa.BinOp)
	if !isBin {
		return nil, 0, false, false, false
	}
	op, lhs, rhs := bo.Op, bo.X, bo.Y
	if _, lc := lhs.(*ssa.Const); lc {
		lhs, rhs = rhs, lhs
		switch op {
		case token.LSS:
			op = token.GTR
		case token.GTR:
			op = token.LSS
		case token.LEQ:
			op = token.GEQ
		case token.GEQ:
			op = token.LEQ
		}
	}
	if s, isS := ConstString(rhs); isS {
		if s != "" {
			return nil, 0, false, false, false
		}
		switch op {
		case token.EQL:
			return lhs, c18NonEmpty, !val, true, true
		case token.NEQ:
			return lhs, c18NonEmpty, val, true, true
		}
		return nil, 0, false, false, false
	}
	c, isI := ConstInt(rhs)
	if !isI {
		return nil, 0, false, false, false
	}
	// len(s) compared with 0/1 is a statement about s's emptiness
	if cl, isCall := lhs.(*ssa.Call); isCall {
		if b, isB := cl.Call.Value.(*ssa.Builtin); isB && b.Name() == "len" && len(cl.Call.Args) == 1 {
			if bt, isBasic := cl.Call.Args[0].Type().Underlying().(*types.Basic); isBasic && bt.Info()&types.IsString != 0 {
				switch {
				case c == 0 && op == token.EQL, c == 0 && op == token.LEQ, c == 1 && op == token.LSS:
					return cl.Call.Args[0], c18NonEmpty, !val, true, true
				case c == 0 && op == token.NEQ, c == 0 && op == token.GTR, c == 1 && op == token.GEQ:
					return cl.Call.Args[0], c18NonEmpty, val, true, true
				}
				return nil, 0, false, false, false
			}
		}
	}
	switch {
	case c == 0 && op == token.EQL:
		return lhs, c18IntNonZero, !val, false, true
	case c == 0 && op == token.NEQ:
		return lhs, c18IntNonZero, val, false, true
	case c == 0 && op == token.GTR, c == 1 && op == token.GEQ:
		return lhs, c18IntPos, val, false, true
	case c == 0 && op == token.LEQ, c == 1 && op == token.LSS:
		return lhs, c18IntPos, !val, false, true
	}
	return nil, 0, false, false, false
}

// c18ServerAtom interprets a handler branch condition as an atom over a request key.
func c18ServerAtom(cond ssa.Value, val bool) (c18Atom, bool) {
	x, kind, pos, isStr, ok := c18CmpZero(cond, val)
	if !ok {
		return c18Atom{}, false
	}
	if isStr {
		if k, ok := c18ReqKeyOf(x); ok {
			return c18Atom{k, kind, pos}, true
		}
		return c18Atom{}, false
	}
	if k, ok := c18ReqIntKeyOf(x); ok {
		return c18Atom{k, kind, pos}, true
	}
	return c18Atom{}, false
}

// c18EvalAtom: truth of the positive atom (key, kind) when conj is assumed.
func c18EvalAtom(conj []c18Atom, key string, kind int) (known, val bool) {
	for _, c := range conj {
		if c.Key != key {
			continue
		}
		if c.Pos && c.Kind >= kind {
			return true, true
		}
		if !c.Pos && kind >= c.Kind {
			return true, false
		}
	}
	return false, false
}

// c18IsReject: the instruction writes an error response (status >= 400).
func c18IsReject(in ssa.Instruction) bool {
	cl, ok := in.(*ssa.Call)
	if !ok {
		return false
	}
	cs := CallSite{cl.Parent(), cl}
	if f := cs.Callee(); f != nil && f.Pkg != nil {
		switch f.Pkg.Pkg.Path() {
		case "perkeep.org/internal/httputil":
			if f.Name() == "ReturnJSONCode" {
				c, ok := ConstInt(cl.Call.Args[1])
				return ok && c >= 400
			}
			return strings.HasSuffix(f.Name(), "Error") || f.Name() == "ErrorRouting"
		case "net/http":
			if f.Name() == "Error" || f.Name() == "NotFound" {
				return true
			}
		}
	}
	if cs.MethodName() == "WriteHeader" {
		args := cs.Args()
		if len(args) == 2 {
			c, ok := ConstInt(args[1])
			return ok && c >= 400
		}
	}
	return false
}

type c18Rejection struct {
	Fn    *ssa.Function
	Sites []ssa.Instruction // the error responses a request satisfying Atoms ends in
	Atoms []c18Atom
}

// c18Rejections extracts the minimal key-only rejection conjunctions of
// handler fn: the literals are the key atoms (both polarities) that occur in
// fn's branch conditions; a consistent set of at most three literals is a
// rejection conjunction when it is bound to be rejected (c18BoundToReject) and
// no subset is. The definition does not depend on how the handler spells the
// condition (nested ifs, &&, ||, switch).
func c18Rejections(fn *ssa.Function) (out []c18Rejection, sites, literals int) {
	litSet := map[c18Atom]bool{}
	for _, b := range fn.Blocks {
		for _, in := range b.Instrs {
			if c18IsReject(in) {
				sites++
			}
			if ifi, ok := in.(*ssa.If); ok {
				if a, ok := c18ServerAtom(ifi.Cond, true); ok {
					litSet[a] = true
					litSet[c18Atom{a.Key, a.Kind, !a.Pos}] = true
				}
			}
		}
	}
	if sites == 0 || len(litSet) == 0 {
		return nil, sites, 0
	}
	var lits []c18Atom
	for a := range litSet {
		lits = append(lits, a)
	}
	sort.Slice(lits, func(i, j int) bool { return lits[i].String() < lits[j].String() })
	literals = len(lits)
	if len(lits) > 24 {
		lits = lits[:24]
	}
	consistent := func(set []c18Atom) bool {
		for _, a := range set {
			for _, b := range set {
				if a.Key != b.Key {
					continue
				}
				if a.Pos && !b.Pos && a.Kind >= b.Kind {
					return false // a implies the atom b denies
				}
				if a != b && a.Pos == b.Pos {
					return false // one of the two is implied by the other: not minimal
				}
			}
		}
		return true
	}
	var found [][]c18Atom
	hasSubset := func(set []c18Atom) bool {
		for _, f := range found {
			n := 0
			for _, a := range f {
				for _, b := range set {
					if a == b {
						n++
					}
				}
			}
			if n == len(f) {
				return true
			}
		}
		return false
	}
	try := func(set []c18Atom) {
		if !consistent(set) || hasSubset(set) {
			return
		}
		if ok, at := c18BoundToReject(fn, set); ok && len(at) > 0 {
			cp := append([]c18Atom(nil), set...)
			found = append(found, cp)
			out = append(out, c18Rejection{fn, at, cp})
		}
	}
	for i := range lits {
		try([]c18Atom{lits[i]})
	}
	for i := range lits {
		for j := i + 1; j < len(lits); j++ {
			try([]c18Atom{lits[i], lits[j]})
		}
	}
	for i := range lits {
		for j := i + 1; j < len(lits); j++ {
			for k := j + 1; k < len(lits); k++ {
				try([]c18Atom{lits[i], lits[j], lits[k]})
			}
		}
	}
	return
}

// c18BoundToReject: with conj assumed and every other condition unknown, no
// path from entry reaches a return before an error response. Returns the error
// responses such paths end in.
func c18BoundToReject(fn *ssa.Function, conj []c18Atom) (bool, []ssa.Instruction) {
	seen := map[*ssa.BasicBlock]bool{}
	var at []ssa.Instruction
	var walk func(b *ssa.BasicBlock) bool
	walk = func(b *ssa.BasicBlock) bool {
		if seen[b] {
			return true
		}
		seen[b] = true
		for _, in := range b.Instrs {
			if c18IsReject(in) {
				at = append(at, in)
				return true
			}
			switch x := in.(type) {
			case *ssa.Return:
				return false
			case *ssa.If:
				if a, ok := c18ServerAtom(x.Cond, true); ok {
					if k, v := c18EvalAtom(conj, a.Key, a.Kind); k {
						if v == a.Pos {
							return walk(b.Succs[0])
						}
						return walk(b.Succs[1])
					}
				}
			}
		}
		for _, s := range b.Succs {
			if !walk(s) {
				return false
			}
		}
		return true
	}
	if len(fn.Blocks) == 0 || !walk(fn.Blocks[0]) {
		return false, nil
	}
	// name the responses that are guarded by one of conj's keys (the others are
	// rejections for unrelated reasons met on the way)
	var own []ssa.Instruction
	for _, in := range at {
		for _, f := range FactsAt(in.Block()) {
			if a, ok := c18ServerAtom(f.Cond, f.Val); ok {
				for _, c := range conj {
					if c.Key == a.Key {
						own = append(own, in)
					}
				}
			}
		}
	}
	if len(own) > 0 {
		at = own[:1]
		for _, in := range own[1:] {
			if in != at[len(at)-1] {
				at = append(at, in)
			}
		}
	}
	sort.Slice(at, func(i, j int) bool { return at[i].Pos() < at[j].Pos() })
	return true, at
}

// c18Routes reads the action -> handler implementation table out of
// serverinit.camliHandlerUsingStorage: on the true edge of `action == "<const>"`
// a pkg/blobserver/handlers constructor is called; the implementations are the
// functions with a *http.Request parameter in that constructor's literals and
// their static callees in pkg/blobserver/{handlers,gethandler}.
func c18Routes(p *Program) map[string][]*ssa.Function {
	router := p.Func("pkg/serverinit", "", "camliHandlerUsingStorage")
	var action *ssa.Parameter
	for _, pa := range router.Params {
		if bt, ok := pa.Type().Underlying().(*types.Basic); ok && bt.Info()&types.IsString != 0 {
			action = pa
		}
	}
	if action == nil {
		brokenf("anchor unresolved: string parameter (action) of %s", FuncKey(router))
	}
	hasReq := func(f *ssa.Function) bool {
		for _, pa := range f.Params {
			if pt, ok := pa.Type().(*types.Pointer); ok && IsNamed(pt.Elem(), "net/http", "Request") {
				return true
			}
		}
		return false
	}
	inHandlers := func(f *ssa.Function) bool {
		if f == nil || !InModule(f) {
			return false
		}
		rel := RelPkg(f.Pkg.Pkg)
		return rel == "pkg/blobserver/handlers" || rel == "pkg/blobserver/gethandler"
	}
	impls := func(ctor *ssa.Function) []*ssa.Function {
		var out []*ssa.Function
		seen := map[*ssa.Function]bool{}
		var visit func(f *ssa.Function, depth int)
		visit = func(f *ssa.Function, depth int) {
			if f == nil || seen[f] || depth > 3 {
				return
			}
			seen[f] = true
			if hasReq(f) {
				out = append(out, f)
			}
			for _, a := range f.AnonFuncs {
				visit(a, depth)
			}
			for _, c := range CallsIn(f, false) {
				if g := c.Callee(); inHandlers(g) && g.Parent() == nil {
					visit(g, depth+1)
				}
			}
		}
		visit(ctor, 0)
		return out
	}
	routes := map[string][]*ssa.Function{}
	for _, b := range router.Blocks {
		ifi, ok := b.Instrs[len(b.Instrs)-1].(*ssa.If)
		if !ok {
			continue
		}
		bo, ok := ifi.Cond.(*ssa.BinOp)
		if !ok || bo.Op != token.EQL {
			continue
		}
		var s string
		if bo.X == ssa.Value(action) {
			s, ok = ConstString(bo.Y)
		} else if bo.Y == ssa.Value(action) {
			s, ok = ConstString(bo.X)
		} else {
			ok = false
		}
		if !ok {
			continue
		}
		t := b.Succs[0]
		for _, bb := range router.Blocks {
			if bb != t && !(t.Dominates(bb) && len(t.Preds) == 1) {
				continue
			}
			for _, in := range bb.Instrs {
				cl, ok := in.(*ssa.Call)
				if !ok {
					continue
				}
				if g := (CallSite{router, cl}).Callee(); inHandlers(g) {
					for _, h := range impls(g) {
						dup := false
						for _, o := range routes[s] {
							dup = dup || o == h
						}
						if !dup {
							routes[s] = append(routes[s], h)
						}
					}
				}
			}
		}
	}
	return routes
}

// --- client side: request text model

type c18GFact struct {
	CondFact
	N int // number of value-phis crossed (from the emission outward) when the fact was collected
}

type c18Frag struct {
	At      ssa.Instruction // formatting point
	Text    string
	Literal bool // Text is literal text, not a format string
	Args    []ssa.Value
	Guards  []CondFact        // facts under which the fragment is part of the request (phi edges)
	Phis    []*ssa.BasicBlock // phis crossed between the fragment and the request
	Uncond  bool              // part of every request created at the call
	Buf     *ssa.Alloc        // buffer written to (nil for expression fragments)
}

type c18Request struct {
	Fn     *ssa.Function
	Call   CallSite
	Action string
	Frags  []*c18Frag
	Opaque []string
}

var c18ActionRE = regexp.MustCompile(`(?:^|/)camli/([a-z][a-z-]*)(?:$|\?)`)

func c18EdgeFacts(pred, blk *ssa.BasicBlock) []CondFact {
	out := append([]CondFact(nil), FactsAt(pred)...)
	if ifi, ok := pred.Instrs[len(pred.Instrs)-1].(*ssa.If); ok && len(pred.Succs) == 2 && pred.Succs[0] != pred.Succs[1] {
		out = append(out, CondFact{ifi.Cond, pred.Succs[0] == blk, pred})
	}
	return out
}

// c18Requests models every HTTP request created in fn for a /camli/<action> URL.
func c18Requests(fn *ssa.Function) []*c18Request {
	var out []*c18Request
	for _, c := range CallsIn(fn, false) {
		if c.Value() == nil {
			continue
		}
		var urlArg ssa.Value
		var bodyArgs []ssa.Value
		args := c.Args()
		switch {
		case c.IsStatic("perkeep.org/pkg/client", "Client", "newRequest") && len(args) >= 5:
			urlArg, bodyArgs = args[3], args[4:]
		case c.IsStatic("net/http", "", "NewRequest") && len(args) == 3:
			urlArg, bodyArgs = args[1], args[2:]
		case c.IsStatic("net/http", "", "NewRequestWithContext") && len(args) == 4:
			urlArg, bodyArgs = args[2], args[3:]
		default:
			continue
		}
		action := ""
		DependsOn(urlArg, func(x ssa.Value) bool {
			if s, ok := ConstString(x); ok {
				if m := c18ActionRE.FindStringSubmatch(s); m != nil {
					action = m[1]
					return true
				}
			}
			return false
		})
		if action == "" {
			continue
		}
		rq := &c18Request{Fn: fn, Call: c, Action: action}
		rq.walkText(urlArg, nil, nil, true, map[ssa.Value]bool{}, 0)
		for _, b := range bodyArgs {
			rq.walkText(b, nil, nil, true, map[ssa.Value]bool{}, 0)
		}
		out = append(out, rq)
	}
	return out
}

func (rq *c18Request) opaque(v ssa.Value) {
	rq.Opaque = append(rq.Opaque, v.Name()+" ("+v.Type().String()+")")
}

func (rq *c18Request) walkText(v ssa.Value, guards []CondFact, phis []*ssa.BasicBlock, uncond bool, seen map[ssa.Value]bool, depth int) {
	if v == nil || depth > 24 {
		return
	}
	add := func(f *c18Frag) {
		f.Guards = append([]CondFact(nil), guards...)
		f.Phis = append([]*ssa.BasicBlock(nil), phis...)
		rq.Frags = append(rq.Frags, f)
	}
	switch x := v.(type) {
	case *ssa.Const:
		if x.Value != nil && x.Value.Kind() == constant.String {
			add(&c18Frag{At: rq.Call.Instr, Text: constant.StringVal(x.Value), Literal: true, Uncond: uncond})
		}
	case *ssa.MakeInterface:
		rq.walkText(x.X, guards, phis, uncond, seen, depth+1)
	case *ssa.ChangeType:
		rq.walkText(x.X, guards, phis, uncond, seen, depth+1)
	case *ssa.ChangeInterface:
		rq.walkText(x.X, guards, phis, uncond, seen, depth+1)
	case *ssa.Convert:
		rq.walkText(x.X, guards, phis, uncond, seen, depth+1)
	case *ssa.BinOp:
		if x.Op != token.ADD {
			rq.opaque(v)
			return
		}
		n := len(rq.Frags)
		rq.walkText(x.X, guards, phis, uncond, seen, depth+1)
		if c18Texty(x.Y) {
			rq.walkText(x.Y, guards, phis, uncond, seen, depth+1)
		} else if len(rq.Frags) > n && strings.HasSuffix(rq.Frags[len(rq.Frags)-1].Text, "=") {
			// "...key=" + value: the value of the last key of the preceding text
			last := rq.Frags[len(rq.Frags)-1]
			if last.Literal {
				last.Literal = false
				last.Text = strings.ReplaceAll(last.Text, "%", "%%")
			}
			last.Text += "%s"
			last.Args = append(last.Args, x.Y)
		} else {
			rq.opaque(x.Y)
		}
	case *ssa.Phi:
		if seen[v] {
			return
		}
		seen[v] = true
		for i, e := range x.Edges {
			g := append(append([]CondFact(nil), guards...), c18EdgeFacts(x.Block().Preds[i], x.Block())...)
			rq.walkText(e, g, append(append([]*ssa.BasicBlock(nil), phis...), x.Block()), false, seen, depth+1)
		}
		delete(seen, v)
	case *ssa.Slice:
		for _, e := range c18VarargElems(x) {
			rq.walkText(e, guards, phis, uncond, seen, depth+1)
		}
	case *ssa.UnOp:
		if x.Op == token.MUL {
			if o := originValue(x); o != ssa.Value(x) {
				rq.walkText(o, guards, phis, uncond, seen, depth+1)
				return
			}
		}
		rq.opaque(v)
	case *ssa.Alloc:
		if pt, ok := x.Type().(*types.Pointer); ok && (IsNamed(pt.Elem(), "bytes", "Buffer") || IsNamed(pt.Elem(), "strings", "Builder")) {
			rq.bufferWrites(x, guards, phis, uncond)
			return
		}
		rq.opaque(v)
	case *ssa.Call:
		cs := CallSite{x.Parent(), x}
		switch {
		case cs.IsStatic("fmt", "", "Sprintf"):
			if f, ok := ConstString(x.Call.Args[0]); ok {
				add(&c18Frag{At: x, Text: f, Args: c18VarargElems(x.Call.Args[1]), Uncond: uncond})
				return
			}
			rq.opaque(v)
		case cs.IsStatic("strings", "", "NewReader"), cs.IsStatic("bytes", "", "NewReader"), cs.IsStatic("bytes", "", "NewBufferString"), cs.IsStatic("bytes", "", "NewBuffer"),
			cs.IsStatic("bytes", "Buffer", "String"), cs.IsStatic("strings", "Builder", "String"), cs.IsStatic("bytes", "Buffer", "Bytes"):
			rq.walkText(x.Call.Args[0], guards, phis, uncond, seen, depth+1)
		case cs.IsStatic("net/url", "Values", "Encode"):
			rq.valuesWrites(x.Call.Args[0], guards, phis, uncond)
		default:
			rq.opaque(v)
		}
	default:
		rq.opaque(v)
	}
}

// c18Texty: v is a shape walkText models as request text (rather than as the
// value following a trailing "key=").
func c18Texty(v ssa.Value) bool {
	switch x := v.(type) {
	case *ssa.Const:
		return true
	case *ssa.BinOp:
		return x.Op == token.ADD
	case *ssa.Phi:
		for _, e := range x.Edges {
			if c18Texty(e) {
				return true
			}
		}
	case *ssa.Call:
		cs := CallSite{x.Parent(), x}
		return cs.IsStatic("fmt", "", "Sprintf") || cs.IsStatic("net/url", "Values", "Encode")
	}
	return false
}

func (rq *c18Request) bufferWrites(buf *ssa.Alloc, guards []CondFact, phis []*ssa.BasicBlock, uncond bool) {
	isBuf := func(v ssa.Value) bool {
		for i := 0; i < 4; i++ {
			switch x := v.(type) {
			case *ssa.MakeInterface:
				v = x.X
				continue
			case *ssa.ChangeInterface:
				v = x.X
				continue
			}
			break
		}
		return v == ssa.Value(buf)
	}
	n := 0
	for _, c := range CallsIn(rq.Fn, false) {
		cl := c.Value()
		if cl == nil {
			continue
		}
		args := c.Args()
		var f *c18Frag
		switch {
		case c.IsStatic("fmt", "", "Fprintf") && len(args) == 3 && isBuf(args[0]):
			if s, ok := ConstString(args[1]); ok {
				f = &c18Frag{At: cl, Text: s, Args: c18VarargElems(args[2])}
			}
		case (c.IsStatic("bytes", "Buffer", "WriteString") || c.IsStatic("strings", "Builder", "WriteString") || c.IsStatic("io", "", "WriteString")) && len(args) == 2 && isBuf(args[0]):
			if s, ok := ConstString(args[1]); ok {
				f = &c18Frag{At: cl, Text: s, Literal: true}
			} else if sp, ok := originValue(args[1]).(*ssa.Call); ok && (CallSite{rq.Fn, sp}).IsStatic("fmt", "", "Sprintf") {
				if s, ok := ConstString(sp.Call.Args[0]); ok {
					f = &c18Frag{At: cl, Text: s, Args: c18VarargElems(sp.Call.Args[1])}
				}
			}
		default:
			continue
		}
		if f == nil {
			rq.Opaque = append(rq.Opaque, "write to "+buf.Name()+" with non-constant text")
			continue
		}
		f.Buf = buf
		f.Uncond = uncond && Precedes(cl, rq.Call.Instr)
		f.Guards = append([]CondFact(nil), guards...)
		f.Phis = append([]*ssa.BasicBlock(nil), phis...)
		rq.Frags = append(rq.Frags, f)
		n++
	}
	if n == 0 {
		rq.Opaque = append(rq.Opaque, "buffer "+buf.Name()+" without modelled writes")
	}
}

func (rq *c18Request) valuesWrites(m ssa.Value, guards []CondFact, phis []*ssa.BasicBlock, uncond bool) {
	mo := originValue(m)
	if _, ok := mo.(*ssa.MakeMap); !ok {
		rq.opaque(m)
		return
	}
	for _, c := range CallsIn(rq.Fn, false) {
		cl := c.Value()
		if cl == nil || !(c.IsStatic("net/url", "Values", "Add") || c.IsStatic("net/url", "Values", "Set")) {
			continue
		}
		args := c.Args()
		if len(args) != 3 || originValue(args[0]) != mo {
			continue
		}
		f := &c18Frag{At: cl, Uncond: uncond && Precedes(cl, rq.Call.Instr)}
		if s, ok := ConstString(args[1]); ok {
			f.Text, f.Args = strings.ReplaceAll(s, "%", "%%")+"=%s", []ssa.Value{args[2]}
		} else if sp, ok := originValue(args[1]).(*ssa.Call); ok && (CallSite{rq.Fn, sp}).IsStatic("fmt", "", "Sprintf") {
			s, ok := ConstString(sp.Call.Args[0])
			if !ok {
				rq.opaque(args[1])
				continue
			}
			f.Text, f.Args = s+"=%s", append(c18VarargElems(sp.Call.Args[1]), args[2])
		} else {
			rq.opaque(args[1])
			continue
		}
		f.Guards = append([]CondFact(nil), guards...)
		f.Phis = append([]*ssa.BasicBlock(nil), phis...)
		rq.Frags = append(rq.Frags, f)
	}
}

type c18Emit struct {
	Key      string
	Numbered bool
	Frag     *c18Frag
	IsConst  bool
	ConstVal string
	Val      ssa.Value // nil: unknown value
}

var c18EmitRE = regexp.MustCompile(`(?:^|[?&])([A-Za-z]+[0-9]*)(%[dv])?=([^&]*)`)
var c18VerbRE = regexp.MustCompile(`%[a-zA-Z]`)

// Emits lists the key=value emissions of the request.
func (rq *c18Request) Emits() []*c18Emit {
	var out []*c18Emit
	for _, f := range rq.Frags {
		text := f.Text
		if !f.Literal {
			text = strings.ReplaceAll(text, "%%", "\x00\x00")
		}
		q := text
		off := 0
		if i := strings.Index(q, "?"); i >= 0 {
			q, off = q[i:], i
		}
		for _, m := range c18EmitRE.FindAllStringSubmatchIndex(q, -1) {
			e := &c18Emit{Key: q[m[2]:m[3]], Numbered: m[4] >= 0, Frag: f}
			vt := q[m[6]:m[7]]
			switch {
			case f.Literal:
				if m[7] == len(q) && vt == "" {
					// the literal ends with "key=": the value is whatever follows, not modelled
				} else {
					e.IsConst, e.ConstVal = true, vt
				}
			case !strings.Contains(vt, "%"):
				e.IsConst, e.ConstVal = true, strings.ReplaceAll(vt, "\x00\x00", "%")
			case c18VerbRE.MatchString(vt) && len(vt) == 2:
				idx := 0
				for _, vb := range c18VerbRE.FindAllStringIndex(text, -1) {
					if vb[0] < off+m[6] {
						idx++
					}
				}
				if idx < len(f.Args) {
					e.Val = f.Args[idx]
				}
			}
			out = append(out, e)
		}
	}
	return out
}

type c18ChainVal struct {
	V ssa.Value
	N int // value-phis crossed before reaching V
}

type c18Leaf struct {
	Atom   c18Atom
	Emit   *c18Emit
	Guards []c18GFact
	Phis   []*ssa.BasicBlock // value-phis crossed, outward from the emission
	Chain  []c18ChainVal     // values that satisfy the atom iff the leaf does
	What   string
	Mem    bool // the leaf is a memory load the analysis cannot follow
}

func c18IsNumeric(t types.Type) bool {
	b, ok := t.Underlying().(*types.Basic)
	return ok && b.Info()&(types.IsInteger|types.IsFloat|types.IsBoolean) != 0
}

func c18ConstSatisfies(c *ssa.Const, kind int) bool {
	if c.Value == nil {
		return false
	}
	switch c.Value.Kind() {
	case constant.String:
		s := constant.StringVal(c.Value)
		return c18TextSatisfies(s, kind)
	case constant.Int:
		if kind == c18NonEmpty {
			return true
		}
		n := c.Int64()
		if kind == c18IntNonZero {
			return n != 0
		}
		return n > 0
	}
	return kind == c18NonEmpty
}

func c18TextSatisfies(s string, kind int) bool {
	if kind == c18NonEmpty {
		return s != ""
	}
	n, neg, digits := int64(0), false, 0
	for i, r := range s {
		switch {
		case i == 0 && (r == '-' || r == '+'):
			neg = r == '-'
		case r >= '0' && r <= '9':
			digits++
			if n < 1<<40 {
				n = n*10 + int64(r-'0')
			}
		default:
			return false // does not parse: the handler sees 0
		}
	}
	if digits == 0 || n == 0 {
		return false
	}
	return kind == c18IntNonZero || !neg
}

func c18EmptinessPreserving(cl *ssa.Call) bool {
	cs := CallSite{cl.Parent(), cl}
	return cs.IsStatic("net/url", "", "QueryEscape") || cs.IsStatic("net/url", "", "PathEscape")
}

// c18Leaves: the ways emission e may satisfy the positive atom of kind `kind`.
func c18Leaves(p *Program, e *c18Emit, atom c18Atom) []*c18Leaf {
	var base []c18GFact
	for _, f := range FactsAt(e.Frag.At.Block()) {
		base = append(base, c18GFact{f, 0})
	}
	for _, f := range e.Frag.Guards {
		base = append(base, c18GFact{f, 0})
	}
	mk := func(g []c18GFact, phis []*ssa.BasicBlock, chain []c18ChainVal, what string) *c18Leaf {
		return &c18Leaf{Atom: atom, Emit: e, Guards: g, Phis: phis, Chain: chain, What: what}
	}
	if e.IsConst {
		if c18TextSatisfies(e.ConstVal, atom.Kind) {
			return []*c18Leaf{mk(base, nil, nil, fmt.Sprintf("the constant %q", e.ConstVal))}
		}
		return nil
	}
	if e.Val == nil {
		return []*c18Leaf{mk(base, nil, nil, "a value the model does not follow")}
	}
	var out []*c18Leaf
	seen := map[ssa.Value]bool{}
	var walk func(v ssa.Value, g []c18GFact, phis []*ssa.BasicBlock, chain []c18ChainVal, depth int)
	walk = func(v ssa.Value, g []c18GFact, phis []*ssa.BasicBlock, chain []c18ChainVal, depth int) {
		for {
			if mi, ok := v.(*ssa.MakeInterface); ok {
				v = mi.X
			} else if ct, ok := v.(*ssa.ChangeType); ok {
				v = ct.X
			} else {
				break
			}
		}
		describe := func() string {
			if in, ok := v.(ssa.Instruction); ok && in.Pos().IsValid() {
				return fmt.Sprintf("the value computed at line %d", p.Fset.Position(in.Pos()).Line)
			}
			return "the value " + v.Name()
		}
		if c, ok := v.(*ssa.Const); ok {
			if c18ConstSatisfies(c, atom.Kind) {
				out = append(out, mk(g, phis, nil, "the constant "+c.Name()))
			}
			return
		}
		if atom.Kind == c18NonEmpty && c18IsNumeric(v.Type()) {
			out = append(out, mk(g, phis, nil, "a formatted number (never empty)"))
			return
		}
		chain = append(append([]c18ChainVal(nil), chain...), c18ChainVal{v, len(phis)})
		if depth > 16 {
			out = append(out, mk(g, phis, chain, describe()))
			return
		}
		switch x := v.(type) {
		case *ssa.Phi:
			if seen[v] {
				return
			}
			seen[v] = true // on the current path only: cuts cycles, keeps every acyclic way into the phi
			for i, ed := range x.Edges {
				np := append(append([]*ssa.BasicBlock(nil), phis...), x.Block())
				ng := append([]c18GFact(nil), g...)
				for _, f := range c18EdgeFacts(x.Block().Preds[i], x.Block()) {
					ng = append(ng, c18GFact{f, len(np)})
				}
				walk(ed, ng, np, chain, depth+1)
			}
			delete(seen, v)
			return
		case *ssa.Convert:
			if atom.Kind != c18NonEmpty {
				sb, ok1 := x.X.Type().Underlying().(*types.Basic)
				db, ok2 := x.Type().Underlying().(*types.Basic)
				if ok1 && ok2 && sb.Info()&types.IsInteger != 0 && db.Info()&types.IsInteger != 0 {
					walk(x.X, g, phis, chain, depth+1)
					return
				}
			}
		case *ssa.Call:
			if atom.Kind == c18NonEmpty && c18EmptinessPreserving(x) {
				walk(x.Call.Args[0], g, phis, chain, depth+1)
				return
			}
		case *ssa.UnOp:
			if x.Op == token.MUL {
				if o := originValue(x); o != ssa.Value(x) {
					walk(o, g, phis, chain, depth+1)
					return
				}
				l := mk(g, phis, chain, describe())
				// a load of a plain variable cell with several stores (captured
				// variable): facts about one load say nothing about another
				_, l.Mem = varOf(x.X)
				out = append(out, l)
				return
			}
		}
		out = append(out, mk(g, phis, chain, describe()))
	}
	walk(e.Val, base, nil, nil, 0)
	return out
}

// c18Definitely: emission e satisfies kind in every request it is part of.
func c18Definitely(e *c18Emit, kind int) bool {
	if e.IsConst {
		return c18TextSatisfies(e.ConstVal, kind)
	}
	if e.Val == nil {
		return false
	}
	seen := map[ssa.Value]bool{}
	var def func(v ssa.Value, depth int) bool
	def = func(v ssa.Value, depth int) bool {
		if depth > 16 {
			return false
		}
		switch x := v.(type) {
		case *ssa.MakeInterface:
			return def(x.X, depth+1)
		case *ssa.ChangeType:
			return def(x.X, depth+1)
		case *ssa.Const:
			return c18ConstSatisfies(x, kind)
		case *ssa.Phi:
			if seen[v] {
				return true
			}
			seen[v] = true
			for _, ed := range x.Edges {
				if !def(ed, depth+1) {
					return false
				}
			}
			return true
		case *ssa.Call:
			if kind == c18NonEmpty && c18EmptinessPreserving(x) {
				return def(x.Call.Args[0], depth+1)
			}
		}
		return kind == c18NonEmpty && c18IsNumeric(v.Type())
	}
	return def(e.Val, 0)
}

// c18FactDenies: fact f says that value x does not satisfy kind.
func c18FactDenies(f CondFact, x ssa.Value, kind int) bool {
	v, k, pos, _, ok := c18CmpZero(f.Cond, f.Val)
	if !ok || pos {
		return false
	}
	for {
		if ct, isCT := v.(*ssa.ChangeType); isCT {
			v = ct.X
			continue
		}
		break
	}
	if v != x {
		return false
	}
	// ¬k(x) denies kind when kind implies k
	return kind >= k
}

// c18SameIncarnation: a fact about (or the identity of) value x, established
// before crossing the given phis on the way to the request, still speaks about
// the x that is current when the request is created: every crossed phi lies
// strictly below x's defining block, and so does the request.
func c18SameIncarnation(x ssa.Value, req ssa.Instruction, bufs []*ssa.Alloc, phiSets ...[]*ssa.BasicBlock) bool {
	in, ok := x.(ssa.Instruction)
	if !ok {
		return true // parameters, free variables, constants: one incarnation per call
	}
	d := in.Block()
	if d == nil || in.Parent() != req.Parent() {
		return false
	}
	for _, ps := range phiSets {
		for _, b := range ps {
			if b == d || !d.Dominates(b) {
				return false
			}
		}
	}
	for _, b := range bufs {
		if b != nil && b.Block() != d && !d.Dominates(b.Block()) {
			return false
		}
	}
	return d == req.Block() || d.Dominates(req.Block())
}

// c18Exclusive: leaves la and lb cannot both be realised in one request.
func c18Exclusive(la, lb *c18Leaf, req ssa.Instruction) (bool, string) {
	bufs := []*ssa.Alloc{la.Emit.Frag.Buf, lb.Emit.Frag.Buf}
	try := func(a, b *c18Leaf) (bool, string) {
		for _, f := range a.Guards {
			for _, cv := range b.Chain {
				if !c18FactDenies(f.CondFact, cv.V, b.Atom.Kind) {
					continue
				}
				if c18SameIncarnation(cv.V, req, bufs, a.Phis[:f.N], a.Emit.Frag.Phis, b.Phis[:cv.N], b.Emit.Frag.Phis) {
					return true, fmt.Sprintf("'%s' can satisfy %s only where a dominating guard says the value sent for '%s' in the same request does not satisfy %s", a.Emit.Key, a.Atom, b.Emit.Key, b.Atom)
				}
			}
		}
		return false, ""
	}
	if ok, why := try(la, lb); ok {
		return true, why
	}
	if ok, why := try(lb, la); ok {
		return true, why
	}
	for _, f := range la.Guards {
		for _, g := range lb.Guards {
			if f.Cond == g.Cond && f.Val != g.Val &&
				c18SameIncarnation(f.Cond, req, bufs, la.Phis[:f.N], la.Emit.Frag.Phis, lb.Phis[:g.N], lb.Emit.Frag.Phis) {
				return true, fmt.Sprintf("'%s' and '%s' are emitted on opposite edges of one condition", la.Emit.Key, lb.Emit.Key)
			}
		}
	}
	return false, ""
}

func c18Compat(p *Program, r *Reporter) {
	routes := c18Routes(p)
	type conj struct {
		action string
		rej    c18Rejection
	}
	var conjs []conj
	var actions []string
	for a := range routes {
		actions = append(actions, a)
	}
	sort.Strings(actions)
	nSites, nLits, nHandlers := 0, 0, 0
	for _, a := range actions {
		for _, h := range routes[a] {
			nHandlers++
			rs, sites, lits := c18Rejections(h)
			nSites += sites
			nLits += lits
			for _, rj := range rs {
				conjs = append(conjs, conj{a, rj})
			}
		}
	}
	var reqs []*c18Request
	for _, fn := range p.FuncsIn("pkg/client") {
		reqs = append(reqs, c18Requests(fn)...)
	}
	r.Analysed("routed_handler_functions", nHandlers)
	r.Analysed("error_response_sites", nSites)
	r.Analysed("request_key_literals", nLits)
	r.Analysed("key_only_rejection_conjunctions", len(conjs))
	r.Analysed("client_protocol_requests", len(reqs))
	for _, cj := range conjs {
		atoms := cj.rej.Atoms
		var rejSites []string
		for _, in := range cj.rej.Sites {
			rejSites = append(rejSites, p.Pos(in.Pos()))
		}
		rejSite := strings.Join(rejSites, ", ")
		for _, rq := range reqs {
			if rq.Action != cj.action {
				continue
			}
			key := fmt.Sprintf("%s#%s-never[%s]", FuncKey(rq.Fn), cj.action, c18AtomsString(atoms))
			site := p.Pos(rq.Call.Pos())
			emits := rq.Emits()
			leaves := make([][]*c18Leaf, len(atoms))
			never, neverWhy := false, ""
			for i, a := range atoms {
				var es []*c18Emit
				for _, e := range emits {
					if e.Key == a.Key && !e.Numbered {
						es = append(es, e)
					}
				}
				if a.Pos {
					for _, e := range es {
						leaves[i] = append(leaves[i], c18Leaves(p, e, a)...)
					}
					if len(leaves[i]) == 0 && len(rq.Opaque) == 0 {
						never = true
						if len(es) == 0 {
							neverWhy = fmt.Sprintf("the request never carries '%s'", a.Key)
						} else {
							neverWhy = fmt.Sprintf("every value the request carries for '%s' fails %s", a.Key, a)
						}
					} else if len(leaves[i]) == 0 {
						leaves[i] = []*c18Leaf{{Atom: a, Emit: &c18Emit{Key: a.Key, Frag: &c18Frag{At: rq.Call.Instr}}, What: "a part of the request the model does not follow (" + strings.Join(rq.Opaque, "; ") + ")"}}
					}
				} else {
					for _, e := range es {
						if e.Frag.Uncond && len(e.Frag.Phis) == 0 && c18Definitely(e, a.Kind) {
							never = true
							neverWhy = fmt.Sprintf("every request carries '%s' with a value for which %s is false", a.Key, a)
						}
					}
				}
			}
			if never {
				r.OK("N-compat", key, site, fmt.Sprintf("the %s handler rejects requests with %s (%s); %s", cj.action, c18AtomsString(atoms), rejSite, neverWhy))
				continue
			}
			excl, exclWhy := false, ""
			var witness [2]*c18Leaf
			for i := 0; i < len(atoms) && !excl; i++ {
				for j := i + 1; j < len(atoms) && !excl; j++ {
					if !atoms[i].Pos || !atoms[j].Pos {
						continue
					}
					all, why := true, ""
					for _, la := range leaves[i] {
						for _, lb := range leaves[j] {
							ok, w := c18Exclusive(la, lb, rq.Call.Instr)
							if !ok {
								all = false
								if witness[0] == nil {
									witness = [2]*c18Leaf{la, lb}
								}
							} else {
								why = w
							}
						}
					}
					if all && len(leaves[i]) > 0 && len(leaves[j]) > 0 {
						excl, exclWhy = true, why
					}
				}
			}
			if excl {
				r.OK("N-compat", key, site, fmt.Sprintf("the %s handler rejects requests with %s (%s); in every request built here %s (checked on every pair of possible values, for the iteration that is formatted)", cj.action, c18AtomsString(atoms), rejSite, exclWhy))
				continue
			}
			mem := false
			var parts []string
			for i, a := range atoms {
				if !a.Pos {
					parts = append(parts, fmt.Sprintf("%s is not excluded (no unconditional emission of '%s' with a value that makes it false)", a, a.Key))
					continue
				}
				for _, l := range leaves[i] {
					mem = mem || l.Mem
				}
			}
			if witness[0] != nil {
				parts = append(parts, fmt.Sprintf("'%s' may be sent as %s together with '%s' as %s, and no guard dominating either emission (and evaluated for the same iteration's values) excludes the other", witness[0].Emit.Key, witness[0].What, witness[1].Emit.Key, witness[1].What))
			}
			detail := fmt.Sprintf("the %s handler answers a request with %s by an error response (%s), and this request builder can produce such a request: %s", cj.action, c18AtomsString(atoms), rejSite, strings.Join(parts, "; "))
			if mem {
				r.Undecided("N-compat", key, site, detail+" [a value involved lives in a variable the analysis cannot follow]")
			} else if len(rq.Opaque) > 0 {
				r.Undecided("N-compat", key, site, detail+" [parts of the request text are built in a way the model does not follow: "+strings.Join(rq.Opaque, "; ")+"]")
			} else {
				r.Violation("N-compat", key, site, detail)
			}
		}
	}
	r.Floor("N-compat", 3)
}
