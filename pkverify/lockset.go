package main

import (
	"sort"
	"strings"

	"golang.org/x/tools/go/ssa"
)

// LockSet maps a mutex address path (e.g. "&s.mu") to the mode held: 'R' or 'W'.
type LockSet map[string]byte

func (l LockSet) clone() LockSet {
	o := LockSet{}
	for k, v := range l {
		o[k] = v
	}
	return o
}

func (l LockSet) String() string {
	var s []string
	for k, v := range l {
		s = append(s, string(v)+"|"+k)
	}
	sort.Strings(s)
	return "{" + strings.Join(s, ", ") + "}"
}

func meet(a, b LockSet) LockSet {
	o := LockSet{}
	for k, v := range a {
		if w, ok := b[k]; ok {
			if v == 'R' || w == 'R' {
				o[k] = 'R'
			} else {
				o[k] = 'W'
			}
		}
	}
	return o
}

func equalLS(a, b LockSet) bool {
	if len(a) != len(b) {
		return false
	}
	for k, v := range a {
		if b[k] != v {
			return false
		}
	}
	return true
}

// lockEffect interprets a call as a lock operation, looking through
// single-statement wrapper methods (e.g. (*index.Index).RLock).
// op is one of "Lock","RLock","Unlock","RUnlock".
func lockEffect(c CallSite) (op, path string, ok bool) {
	if k, p, ok := mutexOp(c); ok {
		return k, p, true
	}
	f := c.Callee()
	if f == nil || !isLockWrapper(f) {
		return "", "", false
	}
	inner := CallsIn(f, false)[0]
	k, p, ok := mutexOp(inner)
	if !ok {
		return "", "", false
	}
	tp, ok := TranslatePath(c, f, p)
	if !ok {
		return "", "", false
	}
	return k, tp, true
}

// LockInfo holds the must-hold lockset before every instruction of a function
// and its nested literals.
type LockInfo struct {
	before map[ssa.Instruction]LockSet
	entry  map[*ssa.Function]LockSet
}

// HeldAt returns the locks that are held on every path when in executes.
func (li *LockInfo) HeldAt(in ssa.Instruction) LockSet {
	if ls, ok := li.before[in]; ok {
		return ls
	}
	return LockSet{}
}

// Holds reports whether lock path is held (mode 'R' accepts R or W; 'W' needs W).
func (li *LockInfo) Holds(in ssa.Instruction, path string, mode byte) bool {
	m, ok := li.HeldAt(in)[path]
	if !ok {
		return false
	}
	return mode == 'R' || m == 'W'
}

// AnalyzeLocks computes must-hold locksets for fn (a declared function) and,
// recursively, for its function literals: a literal that is called, deferred
// or passed to a non-spawning call inherits the lockset at that point; a
// literal started with go (or a known spawner) starts empty.
func AnalyzeLocks(fn *ssa.Function, entry LockSet) *LockInfo {
	li := &LockInfo{before: map[ssa.Instruction]LockSet{}, entry: map[*ssa.Function]LockSet{}}
	li.analyze(fn, entry, 0)
	return li
}

func (li *LockInfo) analyze(fn *ssa.Function, entry LockSet, depth int) {
	if len(fn.Blocks) == 0 || depth > 6 {
		return
	}
	li.entry[fn] = entry
	in := map[*ssa.BasicBlock]LockSet{}
	out := map[*ssa.BasicBlock]LockSet{}
	in[fn.Blocks[0]] = entry.clone()
	work := []*ssa.BasicBlock{fn.Blocks[0]}
	queued := map[*ssa.BasicBlock]bool{fn.Blocks[0]: true}
	transfer := func(b *ssa.BasicBlock, record bool) LockSet {
		cur := in[b].clone()
		for _, ins := range b.Instrs {
			if record {
				li.before[ins] = cur.clone()
			}
			ci, ok := ins.(ssa.CallInstruction)
			if !ok {
				continue
			}
			c := CallSite{fn, ci}
			if c.IsDefer() || c.IsGo() {
				continue
			}
			if op, p, ok := lockEffect(c); ok {
				switch op {
				case "Lock":
					cur[p] = 'W'
				case "RLock":
					cur[p] = 'R'
				case "Unlock", "RUnlock":
					delete(cur, p)
				}
			}
		}
		return cur
	}
	for len(work) > 0 {
		b := work[0]
		work = work[1:]
		queued[b] = false
		o := transfer(b, false)
		if prev, ok := out[b]; ok && equalLS(prev, o) {
			continue
		}
		out[b] = o
		for _, s := range b.Succs {
			var ni LockSet
			if cur, ok := in[s]; ok {
				ni = meet(cur, o)
			} else {
				ni = o.clone()
			}
			if cur, ok := in[s]; !ok || !equalLS(cur, ni) {
				in[s] = ni
				if !queued[s] {
					queued[s] = true
					work = append(work, s)
				}
			}
		}
	}
	for _, b := range fn.Blocks {
		if _, ok := in[b]; !ok {
			in[b] = LockSet{} // unreachable
		}
		transfer(b, true)
	}
	// nested literals
	for _, a := range fn.AnonFuncs {
		li.analyze(a, li.closureEntry(fn, a), depth+1)
	}
}

// closureEntry determines the lockset a literal starts with.
func (li *LockInfo) closureEntry(parent, lit *ssa.Function) LockSet {
	var result LockSet
	first := true
	add := func(ls LockSet) {
		if first {
			result, first = ls.clone(), false
		} else {
			result = meet(result, ls)
		}
	}
	var visitUses func(v ssa.Value, seen map[ssa.Value]bool)
	visitUses = func(v ssa.Value, seen map[ssa.Value]bool) {
		if seen[v] {
			return
		}
		seen[v] = true
		refs := v.Referrers()
		if refs == nil {
			return
		}
		for _, r := range *refs {
			switch r := r.(type) {
			case *ssa.Go:
				add(LockSet{})
			case *ssa.Defer:
				if r.Call.Value == v {
					add(li.atExits(parent, r))
				} else {
					add(li.HeldAt(r)) // passed as an argument of a deferred call
				}
			case *ssa.Call:
				c := CallSite{parent, r}
				if r.Call.Value != v && isSpawner(c) {
					add(LockSet{})
				} else if r.Call.Value != v && storesFuncArg(c) {
					add(LockSet{})
				} else {
					add(li.HeldAt(r))
				}
			case *ssa.Store:
				if r.Val == v {
					// stored into a variable: follow loads of that variable in parent
					if cell, ok := varOf(r.Addr); ok {
						if al, ok := cell.(*ssa.Alloc); ok && plainVariable(al) {
							followVar(al, func(ld *ssa.UnOp) {
								if ld.Parent() == parent {
									visitUses(ld, seen)
								} else {
									add(LockSet{}) // used from another literal: unknown context
								}
							})
							continue
						}
					}
					add(LockSet{}) // escapes into a field / unknown place
				}
			case *ssa.MakeClosure:
				add(LockSet{}) // captured by another literal
			case *ssa.Phi, *ssa.MakeInterface, *ssa.ChangeType:
				visitUses(r.(ssa.Value), seen)
			case *ssa.Return:
				add(LockSet{})
			case *ssa.DebugRef:
			default:
				add(LockSet{})
			}
		}
	}
	for _, b := range parent.Blocks {
		for _, in := range b.Instrs {
			if mc, ok := in.(*ssa.MakeClosure); ok && mc.Fn == lit {
				visitUses(mc, map[ssa.Value]bool{})
			}
		}
	}
	if first {
		return LockSet{}
	}
	return result
}

// storesFuncArg: calls known to retain their function argument for later,
// asynchronous invocation.
func storesFuncArg(c CallSite) bool {
	return c.IsStatic("time", "", "AfterFunc") || c.IsStatic("sync", "Once", "Do") && false
}

// followVar visits every load of the variable cell within its declaring
// function and nested literals.
func followVar(al *ssa.Alloc, visit func(*ssa.UnOp)) {
	var walk func(f *ssa.Function)
	walk = func(f *ssa.Function) {
		for _, b := range f.Blocks {
			for _, in := range b.Instrs {
				if u, ok := in.(*ssa.UnOp); ok {
					if cell, ok := varOf(u.X); ok && cell == ssa.Value(al) {
						visit(u)
					}
				}
			}
		}
		for _, a := range f.AnonFuncs {
			walk(a)
		}
	}
	walk(al.Parent())
}

// atExits returns the lockset a deferred literal runs under: the intersection
// of the locksets at the function's returns, minus locks whose deferred unlock
// was registered after this defer (those run first).
func (li *LockInfo) atExits(fn *ssa.Function, d *ssa.Defer) LockSet {
	var res LockSet
	first := true
	for _, b := range fn.Blocks {
		if b == fn.Recover || len(b.Instrs) == 0 {
			continue
		}
		if ret, ok := b.Instrs[len(b.Instrs)-1].(*ssa.Return); ok {
			// only returns reachable after the defer was registered
			if !(d.Block() == b || d.Block().Dominates(b)) {
				continue
			}
			ls := li.HeldAt(ret)
			if first {
				res, first = ls.clone(), false
			} else {
				res = meet(res, ls)
			}
		}
	}
	if res == nil {
		res = LockSet{}
	}
	for _, c := range DeferredCalls(fn) {
		if c.Instr == ssa.CallInstruction(d) {
			continue
		}
		if op, p, ok := lockEffect(c); ok && (op == "Unlock" || op == "RUnlock") {
			// registered after d => runs before d
			if Precedes(d, c.Instr) {
				delete(res, p)
			}
		}
	}
	return res
}
