package main

import (
	"flag"
	"fmt"
	"os"
	"path/filepath"
	"runtime/debug"
	"sort"
	"strconv"
	"strings"
	"time"
)

func main() {
	// go/packages looks "go" up in this process's PATH: pin the toolchain.
	os.Setenv("PATH", "/opt/veriftools/go1.26.8/bin:"+os.Getenv("PATH"))
	os.Setenv("GOTOOLCHAIN", "local")
	os.Unsetenv("GOWORK")
	if len(os.Args) > 1 && os.Args[1] == "selftest" {
		os.Exit(selftestMain(os.Args[2:]))
	}
	if len(os.Args) > 1 && os.Args[1] == "manifest" {
		os.Exit(manifestMain(os.Args[2:]))
	}
	if len(os.Args) > 1 && os.Args[1] == "seeded" {
		os.Exit(seededMain(os.Args[2:]))
	}
	if len(os.Args) > 1 && os.Args[1] == "rulesdoc" {
		os.Exit(rulesdocMain(os.Args[2:]))
	}
	if len(os.Args) > 1 && os.Args[1] == "dump" {
		os.Exit(dumpMain(os.Args[2:]))
	}
	var (
		propFlag = flag.String("prop", "", "property id(s), comma separated, or 'all'")
		tier     = flag.String("tier", "quick", "quick|thorough")
		repo     = flag.String("repo", "/repo", "repository root")
		verif    = flag.String("verif", "/verif", "verif root (known_findings.json, evidence/)")
		evid     = flag.String("evidence", "", "evidence file (default <verif>/evidence/<id>.json)")
		verbose  = flag.Bool("v", false, "print every obligation")
	)
	flag.Parse()
	if *propFlag == "" {
		fmt.Fprintln(os.Stderr, "usage: pkverify -prop C13 [-tier quick|thorough]")
		os.Exit(2)
	}
	if t := os.Getenv("VERIF_TIER"); t != "" && !isFlagSet("tier") {
		*tier = t
	}
	seed, _ := strconv.Atoi(os.Getenv("VERIF_SEED"))
	var ids []string
	if *propFlag == "all" {
		for id := range props {
			ids = append(ids, id)
		}
		sort.Strings(ids)
	} else {
		ids = strings.Split(*propFlag, ",")
	}
	for _, id := range ids {
		if props[id] == nil {
			fmt.Fprintf(os.Stderr, "pkverify: unknown or unclaimed property %q\n", id)
			os.Exit(2)
		}
	}
	os.Exit(runProps(ids, *tier, *repo, *verif, *evid, seed, *verbose))
}

func isFlagSet(name string) bool {
	set := false
	flag.Visit(func(f *flag.Flag) {
		if f.Name == name {
			set = true
		}
	})
	return set
}

// thoroughConfigs are the extra build configurations analysed in the thorough
// tier so build-tagged files are covered.
var thoroughConfigs = [][]string{
	{"GOOS=windows", "GOARCH=amd64", "CGO_ENABLED=0"},
	{"GOOS=darwin", "GOARCH=amd64", "CGO_ENABLED=0"},
	{"GOOS=linux", "GOARCH=386", "CGO_ENABLED=0"},
}

func runProps(ids []string, tier, repo, verif, evid string, seed int, verbose bool) (code int) {
	t0 := time.Now()
	results := map[string]*runResult{}
	for _, id := range ids {
		results[id] = &runResult{analysed: map[string]int{}, counts: map[string]int{}, floors: map[string]int{}}
	}
	defer func() {
		if e := recover(); e != nil {
			if b, ok := e.(brokenErr); ok {
				fmt.Fprintf(os.Stderr, "pkverify: BROKEN (no verdict): %s\n", b.msg)
			} else {
				fmt.Fprintf(os.Stderr, "pkverify: PANIC (no verdict): %v\n%s\n", e, debug.Stack())
			}
			code = 2
		}
	}()
	configs := [][]string{nil}
	if tier == "thorough" {
		configs = append(configs, thoroughConfigs...)
	}
	for ci, env := range configs {
		p := LoadProgram(repo, tier, env, nil)
		for _, id := range ids {
			ps := props[id]
			res := results[id]
			r := NewReporter(id, p)
			ps.Run(p, r)
			res.obls = append(res.obls, r.Obls...)
			for k, v := range r.analysed {
				if ci == 0 {
					res.analysed[k] += v
				}
			}
			for k, v := range r.floors {
				res.floors[k] = v
				if r.counts[k] < v {
					res.floorErrs = append(res.floorErrs, fmt.Sprintf("%s: %d instances < floor %d (config %s)", k, r.counts[k], v, p.Config))
				}
			}
			for k, v := range r.counts {
				if ci == 0 {
					res.counts[k] = v
				}
			}
			if ci == 0 {
				res.notes = r.notes
				res.pkgs = len(p.Roots)
				res.funcs = len(p.AllFuncs)
			}
			res.configs = append(res.configs, p.Config)
			if verbose {
				for _, o := range r.Obls {
					fmt.Printf("  [%s] %-10s %-14s %s  %s  %s\n", p.Config, o.Status, o.Rule, o.Construct, o.Site, o.Detail)
				}
			}
		}
		p = nil
		debug.FreeOSMemory()
	}
	wall := time.Since(t0).Seconds()
	for _, id := range ids {
		ev := evid
		if ev == "" || len(ids) > 1 {
			ev = filepath.Join(verif, "evidence", id+".json")
		}
		if c := finish(props[id], results[id], tier, seed, wall, verif, ev); c > code {
			code = c
		}
	}
	return code
}
