package main

import (
	"fmt"
	"go/constant"
	"go/token"
	"go/types"
	"sort"
	"strings"

	"golang.org/x/tools/go/ssa"
)

func init() {
	register(&PropSpec{
		ID:    "C15",
		Title: "Files and directories written as schema blobs read back exactly",
		Explanation: "Decided (structural necessary conditions, all in pkg/schema): " +
			"W-cap — in writeFileChunks the bytes of a chunk are accumulated one byte per step of an integer counter that starts at 0; every way of going round the read loop without resetting that counter lies behind a comparison of the counter with a constant that bounds it, every reset of the counter is behind a Reset of the chunk buffer, the resulting maximal chunk length is <= schema.maxBlobSize, and maxBlobSize <= constants.MaxBlobSize; the string handed to the uploader is the buffer content taken before the buffer is reset and the blobref recorded in the span is computed from that same string. " +
			"W-parts-first — in uploadBytes every CFG path on which the builder's type is (or may be) \"file\" reaches the upload of the builder's own JSON only over the err==nil edge of Get() on the future that collects the children; Get() waits for every child and hands a child's error back; every future returned by uploadBytes is waited for, attached to a parent's children, or returned; every return of writeFileChunks whose error can be nil lies after the loop that takes all tokens of the upload gate (trip count == gate capacity), on the 'nothing received' edge of a non-blocking receive from the very channel the upload goroutines report into, every upload goroutine is started under a token of that gate, and the error paths return a value that is known non-nil. " +
			"R-bound — every reader readerForOffset returns (other than the empty reader) is wrapped by io.LimitReader whose byte bound is, as a linear expression, exactly (size of the first non-skipped part) - (offset - sizes of the skipped parts); on every feasible way out of the part-skipping loop that offset is strictly smaller than the part's size (the reader is never empty at a part boundary); the Seek into the part's data goes to exactly that in-part offset plus the part's 'offset' field, from the start. " +
			"W-keys — the JSON keys the part writer (populateParts) and the static-set writer (SetStaticSetMembers) emit are exactly the JSON tags of the fields the readers (BytesPart; superset.Members / MergeSets / Parts) decode. " +
			"NOT decided: byte-for-byte round-trip equality for any content, where the rolling checksum puts split points, the shape of the span tree, ReadAt/Seek arithmetic above readerForOffset, static-set spreading and merging arithmetic, behaviour of the blob store underneath, overflow of the 64-bit size arithmetic.",
		RuleDocs: map[string]string{
			"W-cap":         "writeFileChunks: the chunk-length counter paired with (*bytes.Buffer).WriteByte; one obligation per loop back edge (bounded by a dominating comparison, or reset together with the buffer), one for the derived maximal chunk length against schema.maxBlobSize and constants.MaxBlobSize, one per uploadString call for 'payload = buffer content before Reset, ref = hash of payload'",
			"W-parts-first": "uploadBytes: every start of the upload of the builder's own JSON (path search over the CFG with the facts type==file / Get() err==nil); (*uploadBytesFuture).Get: children joined, child error returned; every caller of uploadBytes/addBytesParts: the future is joined, attached or returned; writeFileChunks: every return classified as error-known-non-nil or success-after-drain-and-empty-error-channel",
			"R-bound":       "readerForOffset: every returned reader (bound expression of its io.LimitReader, symbolically; in-part offset < part size on every feasible loop exit), and every Seek on the part's data",
			"W-keys":        "writer/reader key agreement for bytes parts and static sets (go/types struct tags against map-index constants in the writer functions)",
		},
		Run:       runC15,
		DesignRef: "DESIGN.md §4 C15",
		Technique: "static analysis: dominance facts and interval reasoning on a loop counter, edge-sensitive CFG path search, symbolic (linear) evaluation of SSA integer expressions, writer/reader table agreement",
		LevelText: "Decides structural necessary conditions only: the chunker's hard size cap cannot be bypassed by any 'do not split' continue and agrees with the declared limits; a file schema blob is uploaded only after all of its parts were stored successfully and the chunk writer reports success only after all chunk uploads were joined without error; a reader for an offset is bounded by what is left of the part after the in-part offset and positioned at in-part offset + part offset; writers and readers agree on JSON keys. Does not decide that any concrete file reads back equal, nor split points, tree shape, ReadAt arithmetic or static-set arithmetic.",
	})
}

func runC15(p *Program, r *Reporter) {
	r.Analysed("functions", len(p.FuncsIn("pkg/schema")))
	c15RuleWCap(p, r)
	c15RulePartsFirst(p, r)
	c15RuleRBound(p, r)
	c15RuleKeys(p, r)
}

// ---------------------------------------------------------------------------
// small general helpers (c15-prefixed)

func c15ConstVal(p *Program, rel, name string) constant.Value {
	obj := p.Pkg(rel).Types.Scope().Lookup(name)
	c, ok := obj.(*types.Const)
	if !ok {
		brokenf("anchor unresolved: constant %s.%s", rel, name)
	}
	return c.Val()
}

func c15Line(p *Program, pos token.Pos) int { return p.Fset.Position(pos).Line }

// c15BlockPos: a source position inside block b (for humans only).
func c15BlockPos(b *ssa.BasicBlock, fallback token.Pos) token.Pos {
	for i := len(b.Instrs) - 1; i >= 0; i-- {
		if pos := b.Instrs[i].Pos(); pos.IsValid() {
			return pos
		}
	}
	for _, pr := range b.Preds {
		if len(pr.Preds) > 0 && pr != b {
			for i := len(pr.Instrs) - 1; i >= 0; i-- {
				if pos := pr.Instrs[i].Pos(); pos.IsValid() {
					return pos
				}
			}
		}
	}
	return fallback
}

// c15StripNot peels `!` off a condition.
func c15StripNot(cond ssa.Value, val bool) (ssa.Value, bool) {
	for {
		u, ok := cond.(*ssa.UnOp)
		if !ok || u.Op != token.NOT {
			return cond, val
		}
		cond, val = u.X, !val
	}
}

// c15EdgeFacts: branch conditions known when control goes from pred to succ.
func c15EdgeFacts(pred, succ *ssa.BasicBlock) []CondFact {
	facts := FactsAt(pred)
	if n := len(pred.Instrs); n > 0 {
		if ifi, ok := pred.Instrs[n-1].(*ssa.If); ok && len(pred.Succs) == 2 && pred.Succs[0] != pred.Succs[1] {
			if succ == pred.Succs[0] {
				facts = append(facts, CondFact{ifi.Cond, true, pred})
			} else if succ == pred.Succs[1] {
				facts = append(facts, CondFact{ifi.Cond, false, pred})
			}
		}
	}
	return facts
}

// c15ConstCond evaluates a comparison of two constants.
func c15ConstCond(cond ssa.Value) (known, val bool) {
	cond, flip := c15StripNot(cond, true)
	b, ok := cond.(*ssa.BinOp)
	if !ok {
		return false, false
	}
	x, ok1 := b.X.(*ssa.Const)
	y, ok2 := b.Y.(*ssa.Const)
	if !ok1 || !ok2 || x.Value == nil || y.Value == nil {
		return false, false
	}
	switch b.Op {
	case token.EQL, token.NEQ, token.LSS, token.LEQ, token.GTR, token.GEQ:
		v := constant.Compare(x.Value, b.Op, y.Value)
		return true, v == flip
	}
	return false, false
}

// c15MustPass reports whether every feasible path from the entry of fn to
// target goes through block via (edges decided by constant comparisons are pruned).
func c15MustPass(fn *ssa.Function, via, target *ssa.BasicBlock) bool {
	if via == target {
		return true
	}
	seen := map[*ssa.BasicBlock]bool{}
	var walk func(b *ssa.BasicBlock) bool // true if target reached avoiding via
	walk = func(b *ssa.BasicBlock) bool {
		if b == via || seen[b] {
			return false
		}
		seen[b] = true
		if b == target {
			return true
		}
		succs := b.Succs
		if n := len(b.Instrs); n > 0 {
			if ifi, ok := b.Instrs[n-1].(*ssa.If); ok && len(succs) == 2 {
				if k, v := c15ConstCond(ifi.Cond); k {
					if v {
						succs = succs[:1]
					} else {
						succs = succs[1:]
					}
				}
			}
		}
		for _, s := range succs {
			if walk(s) {
				return true
			}
		}
		return false
	}
	return !walk(fn.Blocks[0])
}

// c15Reaches reports whether block b can reach block t (b != t needs >= 1 edge;
// b == t needs a cycle).
func c15Reaches(b, t *ssa.BasicBlock) bool {
	seen := map[*ssa.BasicBlock]bool{}
	var walk func(x *ssa.BasicBlock) bool
	walk = func(x *ssa.BasicBlock) bool {
		for _, s := range x.Succs {
			if s == t {
				return true
			}
			if !seen[s] {
				seen[s] = true
				if walk(s) {
					return true
				}
			}
		}
		return false
	}
	return walk(b)
}

// c15Paired: within one pass through their region, a executes iff b executes
// (same block, or a precedes b and every path from a passes b before leaving
// the function or re-entering block `header`).
func c15Paired(a, b ssa.Instruction, header *ssa.BasicBlock) bool {
	if a.Block() == b.Block() {
		return true
	}
	one := func(a, b ssa.Instruction) bool {
		if !Precedes(a, b) {
			return false
		}
		reach := ReachableFrom(a, func(in ssa.Instruction) bool { return in == b })
		for in := range reach {
			if _, isRet := in.(*ssa.Return); isRet {
				return false
			}
			if header != nil && in.Block() == header && in.Block() != a.Block() {
				return false
			}
		}
		return true
	}
	return one(a, b) || one(b, a)
}

// c15AllFuncs lists fn and all nested literals.
func c15AllFuncs(fn *ssa.Function) []*ssa.Function {
	var out []*ssa.Function
	var walk func(f *ssa.Function)
	walk = func(f *ssa.Function) {
		out = append(out, f)
		for _, a := range f.AnonFuncs {
			walk(a)
		}
	}
	walk(fn)
	return out
}

// c15Cell returns the variable cell an address denotes (through captures), or
// the address value itself when it is not a plain variable.
func c15Cell(addr ssa.Value) ssa.Value {
	if c, ok := varOf(addr); ok {
		return c
	}
	return addr
}

// c15TriggersIn: the instructions of top that call, defer or spawn literal lit
// (lit may be nested deeper: the outermost enclosing literal directly under top is used).
func c15TriggersIn(top *ssa.Function, lit *ssa.Function) []CallSite {
	for lit.Parent() != nil && lit.Parent() != top {
		lit = lit.Parent()
	}
	if lit.Parent() != top {
		return nil
	}
	var out []CallSite
	for _, c := range CallsIn(top, false) {
		if ClosureOf(c) == lit {
			out = append(out, c)
			continue
		}
		for _, f := range FuncArgClosures(c) {
			if f == lit {
				out = append(out, c)
			}
		}
	}
	return out
}

// ---------------------------------------------------------------------------
// W-cap

type c15BufUse struct {
	c    CallSite
	kind string // "write1", "reset", "read", "other"
}

// c15BufferUses classifies every call (deep) that receives the buffer cell.
func c15BufferUses(fn *ssa.Function, cell ssa.Value) []c15BufUse {
	var out []c15BufUse
	for _, c := range CallsIn(fn, true) {
		uses := false
		for _, a := range c.Args() {
			if c15Cell(a) == cell {
				uses = true
			}
		}
		if !uses {
			continue
		}
		kind := "other"
		if f := c.Callee(); f != nil && funcIs(f, "bytes", "Buffer", f.Name()) && len(c.Args()) > 0 && c15Cell(c.Args()[0]) == cell {
			switch f.Name() {
			case "WriteByte":
				kind = "write1"
			case "Reset":
				kind = "reset"
			case "String", "Len", "Bytes", "Cap", "Available":
				kind = "read"
			}
		}
		out = append(out, c15BufUse{c, kind})
	}
	return out
}

// c15MustResetBuffer: does call c (in the loop function) certainly reset the buffer cell?
func c15MustResetBuffer(c CallSite, cell ssa.Value) bool {
	f := c.Callee()
	if f == nil {
		return false
	}
	if funcIs(f, "bytes", "Buffer", "Reset") {
		return len(c.Args()) > 0 && c15Cell(c.Args()[0]) == cell
	}
	if len(f.Blocks) == 0 {
		return false
	}
	for _, u := range c15BufferUses(f, cell) {
		if u.kind != "reset" || u.c.Fn != f {
			continue
		}
		all := true
		for _, ri := range Returns(f) {
			rb := ri.Ret.Block()
			if !(u.c.Block() == rb || u.c.Block().Dominates(rb)) {
				all = false
			}
		}
		if all {
			return true
		}
	}
	return false
}

// c15Bound: an upper bound for value x (= phi+1 when viaPhi) implied by facts.
// neqK >= 0 marks a bound that rests on `x != K` alone (valid only by the
// step-by-one argument, checked by the caller).
type c15Bound struct {
	ok   bool
	max  int64
	neqK int64
	how  string
}

func c15UpperBound(facts []CondFact, x ssa.Value, phi *ssa.Phi) c15Bound {
	best := c15Bound{neqK: -1}
	consider := func(m int64, neq int64, how string) {
		if !best.ok || (best.neqK >= 0 && neq < 0) || ((best.neqK >= 0) == (neq >= 0) && m < best.max) {
			best = c15Bound{true, m, neq, how}
		}
	}
	for _, f := range facts {
		cond, val := c15StripNot(f.Cond, f.Val)
		b, ok := cond.(*ssa.BinOp)
		if !ok {
			continue
		}
		side := func(v ssa.Value) (off int64, ok bool) {
			for {
				if cv, isConv := v.(*ssa.Convert); isConv {
					v = cv.X
					continue
				}
				if ct, isCT := v.(*ssa.ChangeType); isCT {
					v = ct.X
					continue
				}
				break
			}
			if v == x {
				return 0, true
			}
			if phi != nil && v == ssa.Value(phi) {
				return 1, true
			}
			return 0, false
		}
		op := b.Op
		var off, k int64
		if o, ok1 := side(b.X); ok1 {
			kv, ok2 := ConstInt(b.Y)
			if !ok2 {
				continue
			}
			off, k = o, kv
		} else if o, ok1 := side(b.Y); ok1 {
			kv, ok2 := ConstInt(b.X)
			if !ok2 {
				continue
			}
			off, k = o, kv
			switch op { // K op v  ==>  v op' K
			case token.LSS:
				op = token.GTR
			case token.LEQ:
				op = token.GEQ
			case token.GTR:
				op = token.LSS
			case token.GEQ:
				op = token.LEQ
			}
		} else {
			continue
		}
		how := fmt.Sprintf("%s %s %d is %v", map[int64]string{0: "counter", 1: "counter-before-increment"}[off], op, k, val)
		switch {
		case op == token.LSS && val, op == token.GEQ && !val:
			consider(k-1+off, -1, how)
		case op == token.LEQ && val, op == token.GTR && !val:
			consider(k+off, -1, how)
		case op == token.EQL && val, op == token.NEQ && !val:
			consider(k+off, -1, how)
		case op == token.EQL && !val, op == token.NEQ && val:
			consider(k-1+off, k+off, how)
		}
	}
	return best
}

func c15RuleWCap(p *Program, r *Reporter) {
	const rule = "W-cap"
	fn := p.Func("pkg/schema", "", "writeFileChunks")
	upStr := p.Func("pkg/schema", "", "uploadString")
	key := FuncKey(fn)
	declared := c15ConstVal(p, "pkg/schema", "maxBlobSize")
	hard := c15ConstVal(p, "pkg/constants", "MaxBlobSize")
	n := 0
	defer func() { r.Analysed("chunk_cap_obligations", n); r.Floor(rule, 5) }()

	// (1) the uploads of chunk bytes and the buffer they come from
	var bufCell ssa.Value
	uploads := FindCalls(fn, true, func(c CallSite) bool { return c.Callee() == upStr })
	if len(uploads) == 0 {
		r.Undecided(rule, key+"#chunk-upload", p.Pos(fn.Pos()), "no call of uploadString in writeFileChunks or its literals: cannot tell which bytes become a chunk")
		return
	}
	for _, u := range uploads {
		n++
		construct := key + "#chunk-upload"
		args := u.Args()
		payload, ok := originValue(args[len(args)-1]).(*ssa.Call)
		if !ok || !(CallSite{payload.Parent(), payload}).IsStatic("bytes", "Buffer", "String") {
			r.Undecided(rule, construct, p.Pos(u.Pos()), "the string passed to uploadString is not the result of (*bytes.Buffer).String: cannot bound its length")
			continue
		}
		cell := c15Cell(payload.Call.Args[0])
		if bufCell != nil && bufCell != cell {
			r.Undecided(rule, construct, p.Pos(u.Pos()), "chunks are taken from more than one buffer")
			continue
		}
		bufCell = cell
		// payload taken before the buffer is reset in the same function
		bad := ""
		for _, bu := range c15BufferUses(payload.Parent(), cell) {
			if bu.kind == "reset" && bu.c.Fn == payload.Parent() && !Precedes(payload, bu.c.Instr) {
				bad = fmt.Sprintf("buffer Reset at line %d is not after the String() call that takes the chunk: the uploaded chunk would not be the accumulated bytes", c15Line(p, bu.c.Pos()))
			}
		}
		// ref = hash of the same string
		refArg := args[len(args)-2]
		rc, isCall := originValue(refArg).(*ssa.Call)
		if bad == "" && (!isCall || !(CallSite{rc.Parent(), rc}).IsStatic("perkeep.org/pkg/blob", "", "RefFromString") || originValue(rc.Call.Args[0]) != ssa.Value(payload)) {
			bad = "the blobref passed to uploadString is not blob.RefFromString of the uploaded string"
		}
		// the ref recorded in the span tree is that ref
		if bad == "" {
			stored := false
			for _, b := range rc.Parent().Blocks {
				for _, in := range b.Instrs {
					if st, ok := in.(*ssa.Store); ok && originValue(st.Val) == ssa.Value(rc) {
						if fa, ok := st.Addr.(*ssa.FieldAddr); ok && fieldName(fa.X.Type(), fa.Field) == "br" {
							stored = true
						}
					}
				}
			}
			if !stored {
				bad = "the blobref of the uploaded chunk is not the one stored in the span (field br): the file schema would reference a different blob"
			}
		}
		r.Check(bad == "", rule, construct, p.Pos(u.Pos()),
			"payload = buf.String() taken before buf.Reset(); ref = RefFromString(payload); the same ref is stored in span.br", bad)
	}
	if bufCell == nil {
		return
	}

	// (2) writes to the buffer: exactly one byte per write call
	var writes []CallSite
	for _, bu := range c15BufferUses(fn, bufCell) {
		switch bu.kind {
		case "write1":
			writes = append(writes, bu.c)
		case "other":
			n++
			r.Undecided(rule, key+"#buffer-use:"+bu.c.CalleeKey(), p.Pos(bu.c.Pos()), "the chunk buffer is handed to "+bu.c.CalleeKey()+": its growth is not tracked by the analysis")
		}
	}
	if len(writes) != 1 || writes[0].Fn != fn {
		n++
		r.Undecided(rule, key+"#buffer-write", p.Pos(fn.Pos()), fmt.Sprintf("expected exactly one WriteByte on the chunk buffer in the read loop, found %d", len(writes)))
		return
	}
	w := writes[0]

	// (3) counter candidates: phi P in a loop header dominating w, X = P + 1 paired with w
	type cand struct {
		phi *ssa.Phi
		inc *ssa.BinOp
	}
	var cands []cand
	for _, b := range fn.Blocks {
		for _, in := range b.Instrs {
			bo, ok := in.(*ssa.BinOp)
			if !ok || bo.Op != token.ADD {
				continue
			}
			ph, ok := bo.X.(*ssa.Phi)
			if !ok {
				continue
			}
			if k, ok := ConstInt(bo.Y); !ok || k != 1 {
				continue
			}
			if !(ph.Block().Dominates(w.Block()) && c15Reaches(w.Block(), ph.Block())) {
				continue
			}
			if !c15Paired(bo, w.Instr, ph.Block()) {
				continue
			}
			cands = append(cands, cand{ph, bo})
		}
	}
	type edgeRes struct {
		construct, site, okDetail, badDetail string
		undecided                            bool
	}
	eval := func(c cand) (res []edgeRes, maxLen int64, good bool) {
		hdr := c.phi.Block()
		good = true
		var M int64 = -1
		type neqUse struct {
			k   int64
			idx int
		}
		var neqs []neqUse
		nr, rs := 0, 0
		for i, e := range c.phi.Edges {
			pred := hdr.Preds[i]
			site := p.Pos(c15BlockPos(pred, c.phi.Pos()))
			if !hdr.Dominates(pred) { // loop entry
				k, ok := ConstInt(e)
				if !ok {
					res = append(res, edgeRes{key + "#counter-entry", p.Pos(c.phi.Pos()), "", "the counter does not start from a constant", true})
					good = false
					continue
				}
				if k > M {
					M = k
				}
				continue
			}
			switch {
			case e == ssa.Value(c.phi):
				// unchanged: nothing to show
			case e == ssa.Value(c.inc):
				nr++
				construct := fmt.Sprintf("%s#noreset-backedge-%d", key, nr)
				ub := c15UpperBound(c15EdgeFacts(pred, hdr), c.inc, c.phi)
				if !ub.ok {
					res = append(res, edgeRes{construct, site, "", fmt.Sprintf("the loop is continued (line %d) with the chunk-length counter #%s incremented and not reset, and no comparison of the counter with a constant dominates this edge: the 'do not split' path is taken before the hard cap is tested, so a chunk can grow past the limit", c15Line(p, c15BlockPos(pred, c.phi.Pos())), c.phi.Comment), false})
					good = false
					continue
				}
				if ub.neqK >= 0 {
					neqs = append(neqs, neqUse{ub.neqK, len(res)})
				}
				if ub.max > M {
					M = ub.max
				}
				res = append(res, edgeRes{construct, site, fmt.Sprintf("continue without reset only where %s (counter <= %d on this edge)", ub.how, ub.max), "", false})
			default:
				k, ok := ConstInt(e)
				if !ok {
					res = append(res, edgeRes{fmt.Sprintf("%s#backedge-other-%d", key, i), site, "", "the counter takes a value on this back edge that the analysis cannot bound", true})
					good = false
					continue
				}
				rs++
				construct := fmt.Sprintf("%s#reset-backedge-%d", key, rs)
				okReset := false
				for _, z := range CallsIn(fn, false) {
					if c15MustResetBuffer(z, bufCell) && Precedes(w.Instr, z.Instr) && (z.Block() == pred || z.Block().Dominates(pred)) {
						okReset = true
					}
				}
				if k > M {
					M = k
				}
				if k < 0 || !okReset {
					res = append(res, edgeRes{construct, site, "", fmt.Sprintf("the counter is set to %d on this back edge but no Reset of the chunk buffer (direct or through a literal that always resets it) lies between the write and this edge: counter and buffer length diverge, the cap no longer bounds the chunk", k), false})
					good = false
					continue
				}
				res = append(res, edgeRes{construct, site, fmt.Sprintf("counter reset to %d only after the chunk buffer was Reset (uploadLastSpan)", k), "", false})
			}
		}
		for _, nq := range neqs {
			if nq.k-1 != M {
				res[nq.idx].badDetail = fmt.Sprintf("the edge is guarded only by counter != %d but the counter can reach %d elsewhere: an equality test can be stepped over", nq.k, M+1)
				res[nq.idx].okDetail = ""
				good = false
			}
		}
		if nr == 0 {
			good = false
		}
		return res, M + 1, good
	}
	var chosen *cand
	var chosenRes []edgeRes
	var chosenLen int64
	var failed []string
	for i := range cands {
		res, ml, good := eval(cands[i])
		if good {
			if chosen == nil || ml < chosenLen {
				chosen, chosenRes, chosenLen = &cands[i], res, ml
			}
			continue
		}
		for _, e := range res {
			if e.okDetail == "" {
				failed = append(failed, "#"+cands[i].phi.Comment+": "+e.badDetail)
			}
		}
	}
	if chosen == nil {
		// report the failing edges of the candidate that has a reset edge (the
		// chunk-length counter), else of all candidates
		reported := false
		for i := range cands {
			hasReset := false
			for j, e := range cands[i].phi.Edges {
				if _, isC := e.(*ssa.Const); isC && cands[i].phi.Block().Dominates(cands[i].phi.Block().Preds[j]) {
					hasReset = true
				}
			}
			if !hasReset && len(cands) > 1 {
				continue
			}
			res, _, _ := eval(cands[i])
			for _, e := range res {
				if e.okDetail != "" {
					continue
				}
				n++
				reported = true
				if e.undecided {
					r.Undecided(rule, e.construct, e.site, e.badDetail)
				} else {
					r.Violation(rule, e.construct, e.site, e.badDetail)
				}
			}
		}
		if !reported {
			n++
			r.Violation(rule, key+"#chunk-length-counter", p.Pos(w.Pos()),
				"no integer counter that is incremented with every byte written to the chunk buffer, reset with the buffer, and compared with a constant on every way round the loop: chunk length is not bounded. "+strings.Join(failed, "; "))
		}
		return
	}
	for _, e := range chosenRes {
		n++
		if e.okDetail != "" {
			r.OK(rule, e.construct, e.site, e.okDetail)
		} else if e.undecided {
			r.Undecided(rule, e.construct, e.site, e.badDetail)
		} else {
			r.Violation(rule, e.construct, e.site, e.badDetail)
		}
	}
	n++
	r.OK(rule, key+"#counter-tracks-buffer", p.Pos(w.Pos()),
		fmt.Sprintf("counter #%s is incremented by 1 exactly when one byte is written to the chunk buffer (paired in every pass of the loop)", chosen.phi.Comment))
	// (4) limits
	n++
	lenV := constant.MakeInt64(chosenLen)
	switch {
	case !constant.Compare(lenV, token.LEQ, declared):
		r.Violation(rule, key+"#max-chunk-length", p.Pos(chosen.inc.Pos()),
			fmt.Sprintf("the comparisons on the loop's back edges allow a chunk of %d bytes, more than schema.maxBlobSize = %s", chosenLen, declared))
	case !constant.Compare(declared, token.LEQ, hard):
		r.Violation(rule, key+"#max-chunk-length", p.Pos(chosen.inc.Pos()),
			fmt.Sprintf("schema.maxBlobSize = %s exceeds constants.MaxBlobSize = %s: every blob server refuses such a chunk", declared, hard))
	default:
		r.OK(rule, key+"#max-chunk-length", p.Pos(chosen.inc.Pos()),
			fmt.Sprintf("maximal chunk length derived from the back-edge facts = %d <= schema.maxBlobSize = %s <= constants.MaxBlobSize = %s", chosenLen, declared, hard))
	}
}

// ---------------------------------------------------------------------------
// W-parts-first

func c15RulePartsFirst(p *Program, r *Reporter) {
	const rule = "W-parts-first"
	n := 0
	n += c15UploadAfterParts(p, r, rule)
	n += c15GetJoins(p, r, rule)
	n += c15FuturesOwned(p, r, rule)
	n += c15ChunksJoined(p, r, rule)
	r.Analysed("parts_first_obligations", n)
	r.Floor(rule, 14)
}

func c15ParamOfType(fn *ssa.Function, typeName string) *ssa.Parameter {
	for _, prm := range fn.Params {
		if nt := NamedOf(prm.Type()); nt != nil && nt.Obj().Name() == typeName && nt.Obj().Pkg() == fn.Pkg.Pkg {
			return prm
		}
	}
	brokenf("anchor unresolved: parameter of type %s in %s", typeName, FuncKey(fn))
	return nil
}

func c15ParamIndex(fn *ssa.Function, prm *ssa.Parameter) int {
	for i, q := range fn.Params {
		if q == prm {
			return i
		}
	}
	return -1
}

// c15IsBlobUploader: calls that store a blob.
func c15IsBlobUploader(c CallSite, upStr *ssa.Function) bool {
	if c.Callee() == upStr {
		return true
	}
	if f := c.Callee(); f != nil && f.Pkg != nil && f.Pkg.Pkg.Path() == "perkeep.org/pkg/blobserver" && strings.HasPrefix(f.Name(), "Receive") {
		return true
	}
	return c.Common().IsInvoke() && c.MethodName() == "ReceiveBlob"
}

// (a) uploadBytes: own JSON only after the children were stored
func c15UploadAfterParts(p *Program, r *Reporter, rule string) int {
	fn := p.Func("pkg/schema", "", "uploadBytes")
	getFn := p.Func("pkg/schema", "uploadBytesFuture", "Get")
	addFn := p.Func("pkg/schema", "", "addBytesParts")
	upStr := p.Func("pkg/schema", "", "uploadString")
	typeFn := p.Func("pkg/schema", "Builder", "Type")
	typeFile := c15ConstVal(p, "pkg/schema", "TypeFile")
	bb := c15ParamOfType(fn, "Builder")
	parentIdx := c15ParamIndex(addFn, c15ParamOfType(addFn, "uploadBytesFuture"))
	key := FuncKey(fn)

	// futures that collect the children
	var parents []ssa.Value
	for _, c := range CallsIn(fn, false) {
		if c.Callee() == addFn {
			parents = append(parents, c.Args()[parentIdx])
		}
	}
	// error values of Get() on such a future
	var joinErrs []ssa.Value
	for _, c := range CallsIn(fn, false) {
		if c.Callee() != getFn || c.Value() == nil {
			continue
		}
		for _, pa := range parents {
			if sameOrigin(c.Args()[0], pa) {
				if ev, has, discarded := ErrValue(c.Value()); has && !discarded {
					joinErrs = append(joinErrs, ev)
				}
			}
		}
	}
	// triggers of the upload of bb's own JSON
	isBB := func(v ssa.Value) bool { return v == ssa.Value(bb) }
	triggers := map[ssa.Instruction]CallSite{}
	for _, c := range CallsIn(fn, true) {
		if !c15IsBlobUploader(c, upStr) {
			continue
		}
		dep := false
		for _, a := range c.Args() {
			if DependsOn(a, isBB) {
				dep = true
			}
		}
		if !dep {
			continue
		}
		if c.Fn == fn {
			triggers[c.Instr] = c
			continue
		}
		ts := c15TriggersIn(fn, c.Fn)
		if len(ts) == 0 {
			r.Undecided(rule, key+"#own-schema-upload", p.Pos(c.Pos()), "the literal that uploads the builder's JSON is not called or spawned directly in uploadBytes: cannot order it against the children")
			return 1
		}
		for _, t := range ts {
			triggers[t.Instr] = t
		}
	}
	typeCond := func(cond ssa.Value, val bool) (known, isFile bool) {
		cond, val = c15StripNot(cond, val)
		b, ok := cond.(*ssa.BinOp)
		if !ok || (b.Op != token.EQL && b.Op != token.NEQ) {
			return false, false
		}
		isTypeCall := func(v ssa.Value) bool {
			c, ok := originValue(v).(*ssa.Call)
			return ok && c.Call.StaticCallee() == typeFn && len(c.Call.Args) > 0 && sameOrigin(c.Call.Args[0], bb)
		}
		isFileConst := func(v ssa.Value) bool {
			c, ok := v.(*ssa.Const)
			return ok && c.Value != nil && c.Value.Kind() == constant.String && constant.Compare(c.Value, token.EQL, typeFile)
		}
		if !(isTypeCall(b.X) && isFileConst(b.Y) || isTypeCall(b.Y) && isFileConst(b.X)) {
			return false, false
		}
		return true, (b.Op == token.EQL) == val
	}
	joinCond := func(cond ssa.Value, val bool) bool {
		for _, ev := range joinErrs {
			if k, isNil := condSaysNil(cond, val, ev); k && isNil {
				return true
			}
		}
		return false
	}
	// edge-sensitive search: state = (block, file: 0 unknown / 1 yes / 2 no, joined)
	type state struct {
		b      *ssa.BasicBlock
		file   int
		joined bool
	}
	badAt := map[ssa.Instruction]string{}
	seen := map[state]bool{}
	var walk func(s state, via []int)
	walk = func(s state, via []int) {
		if seen[s] {
			return
		}
		seen[s] = true
		via = append(via, s.b.Index)
		for _, in := range s.b.Instrs {
			if _, isT := triggers[in]; isT && s.file != 2 && !s.joined {
				if _, have := badAt[in]; !have {
					badAt[in] = fmt.Sprintf("path through blocks %v reaches the upload of the builder's own JSON with type possibly \"file\" and without having passed Get() on the children's future with err == nil: the file schema blob can be stored before (or although not all of) its parts are stored", via)
				}
			}
		}
		nI := len(s.b.Instrs)
		ifi, isIf := s.b.Instrs[nI-1].(*ssa.If)
		for i, succ := range s.b.Succs {
			ns := state{succ, s.file, s.joined}
			if isIf && len(s.b.Succs) == 2 && s.b.Succs[0] != s.b.Succs[1] {
				val := i == 0
				if k, isFile := typeCond(ifi.Cond, val); k {
					if s.file == 1 && !isFile || s.file == 2 && isFile {
						continue // contradicts what the path already knows
					}
					if isFile {
						ns.file = 1
					} else {
						ns.file = 2
					}
				}
				if joinCond(ifi.Cond, val) {
					ns.joined = true
				}
			}
			walk(ns, via)
		}
	}
	walk(state{fn.Blocks[0], 0, false}, nil)
	n := 0
	var keys []ssa.Instruction
	for in := range triggers {
		keys = append(keys, in)
	}
	sort.Slice(keys, func(i, j int) bool { return keys[i].Pos() < keys[j].Pos() })
	for _, in := range keys {
		n++
		t := triggers[in]
		r.Check(badAt[in] == "", rule, key+"#own-schema-upload", p.Pos(t.Pos()),
			"every path with type==\"file\" (or type untested) reaches this upload only over the err==nil edge of Get() on the future passed to addBytesParts", badAt[in])
	}
	return n
}

// (b) Get joins all children and returns a child's error
func c15GetJoins(p *Program, r *Reporter, rule string) int {
	getFn := p.Func("pkg/schema", "uploadBytesFuture", "Get")
	key := FuncKey(getFn)
	recv := getFn.Params[0]
	// recursive Get on elements of recv.children inside a loop
	var rec *ssa.Call
	for _, c := range CallsIn(getFn, false) {
		if c.Callee() != getFn || c.Value() == nil {
			continue
		}
		fromChildren := DependsOn(c.Args()[0], func(v ssa.Value) bool {
			fa, ok := v.(*ssa.FieldAddr)
			return ok && fa.X == ssa.Value(recv) && fieldName(fa.X.Type(), fa.Field) == "children"
		})
		if fromChildren && inLoop(c.Block()) {
			rec = c.Value()
		}
	}
	if rec == nil {
		r.Violation(rule, key+"#children-joined", p.Pos(getFn.Pos()), "Get does not call Get on each element of f.children in a loop: a future reports done while its children's uploads are still running or failed")
		return 1
	}
	ev, _, discarded := ErrValue(rec)
	okErr := false
	if !discarded {
		for _, ri := range Returns(getFn) {
			e := ri.Results[len(ri.Results)-1]
			if sameOrigin(e, ev) {
				if k, isNil := NilFact(ri.Ret.Block(), ev); k && !isNil {
					okErr = true
				}
			}
		}
	}
	r.Check(okErr, rule, key+"#child-error-returned", p.Pos(rec.Pos()),
		"the error of a child's Get is returned on its err != nil edge", "the error of a child's Get() is dropped: a failed part upload does not fail the file")
	// the final receive from f.errc (own result) must come after the loop: every
	// maybe-nil return is not inside the loop and is dominated by the loop header
	okOrder := true
	cnt := 0
	for _, nr := range MaybeNilErrorReturns(getFn) {
		cnt++
		if !Precedes(rec.Block().Idom().Instrs[0], nr.Ret) || c15Reaches(nr.Ret.Block(), rec.Block()) {
			okOrder = false
		}
		// the loop must have run to completion: the return is not reachable from
		// the loop body except through the loop's own exit test
		for _, s := range rec.Block().Succs {
			if s == nr.Ret.Block() {
				okOrder = false
			}
		}
	}
	r.Check(okOrder && cnt > 0, rule, key+"#children-joined", p.Pos(rec.Pos()),
		"a possibly-nil error is returned only after the loop over f.children has finished", "Get can return a nil error without having waited for all children")
	return 2
}

// (c) every future produced by uploadBytes / filled by addBytesParts is waited for, attached or returned
func c15FuturesOwned(p *Program, r *Reporter, rule string) int {
	upFn := p.Func("pkg/schema", "", "uploadBytes")
	addFn := p.Func("pkg/schema", "", "addBytesParts")
	getFn := p.Func("pkg/schema", "uploadBytesFuture", "Get")
	parentPrm := c15ParamOfType(addFn, "uploadBytesFuture")
	parentIdx := c15ParamIndex(addFn, parentPrm)
	n := 0
	// consumed: v (a *uploadBytesFuture) reaches Get's receiver, a return, or an append into a children field
	consumed := func(fn *ssa.Function, v ssa.Value) (how string, successGuard *ssa.Call) {
		for _, c := range CallsIn(fn, false) {
			if c.Callee() == getFn && sameOrigin(c.Args()[0], v) {
				return "Get() is called on it", c.Value()
			}
		}
		for _, ri := range Returns(fn) {
			for _, res := range ri.Results {
				if sameOrigin(res, v) {
					return "returned to the caller", nil
				}
			}
		}
		// append(parent.children, v) stored back to a children field
		for _, b := range fn.Blocks {
			for _, in := range b.Instrs {
				st, ok := in.(*ssa.Store)
				if !ok {
					continue
				}
				fa, ok := st.Addr.(*ssa.FieldAddr)
				if !ok || fieldName(fa.X.Type(), fa.Field) != "children" || NamedOf(fa.X.Type()) == nil || NamedOf(fa.X.Type()).Obj().Name() != "uploadBytesFuture" {
					continue
				}
				if c15SliceDepends(st.Val, v) {
					return "appended to " + AccessPath(fa.X) + ".children", nil
				}
			}
		}
		return "", nil
	}
	for _, c := range p.StaticCallers(upFn) {
		if IsTestSupportPkg(RelPkg(c.Fn.Pkg.Pkg)) {
			continue
		}
		n++
		construct := FuncKey(c.Fn) + "#future-of-uploadBytes"
		if c.Value() == nil {
			r.Violation(rule, construct, p.Pos(c.Pos()), "uploadBytes is started with go/defer: its future is lost")
			continue
		}
		how, _ := consumed(c.Fn, c.Value())
		r.Check(how != "", rule, construct, p.Pos(c.Pos()), "the future returned by uploadBytes is owned: "+how,
			"the future returned by uploadBytes is neither waited for (Get), nor attached to a parent's children, nor returned: the upload of these parts (and its error) is never joined, a file blob can be stored while parts are missing")
	}
	for _, c := range p.StaticCallers(addFn) {
		if IsTestSupportPkg(RelPkg(c.Fn.Pkg.Pkg)) || c.Value() == nil {
			continue
		}
		n++
		construct := FuncKey(c.Fn) + "#parent-of-addBytesParts"
		how, guard := consumed(c.Fn, c.Args()[parentIdx])
		if how == "" {
			r.Violation(rule, construct, p.Pos(c.Pos()), "the future that addBytesParts fills with the children's futures is neither waited for, attached, nor returned")
			continue
		}
		// when the function itself joins and has an error result, every maybe-nil return after the call must be behind Get's err==nil
		if guard != nil && ErrResultIndex(c.Fn) >= 0 && c.Fn != upFn {
			bad := ""
			for _, nr := range MaybeNilErrorReturns(c.Fn) {
				if !ReachableFrom(c.Instr, nil)[nr.Ret] {
					continue
				}
				gev, _, _ := ErrValue(guard)
				if gev != nil && sameOrigin(nr.Val, gev) {
					continue
				}
				last := nr.From.Instrs[len(nr.From.Instrs)-1]
				if ok, why := SuccessDominates(guard, last); !ok {
					bad = fmt.Sprintf("return at line %d may report success although Get() on the children's future did not succeed (%s)", c15Line(p, nr.Ret.Pos()), why)
				}
			}
			r.Check(bad == "", rule, construct, p.Pos(c.Pos()), "the children's future is owned ("+how+") and success is returned only on Get's err==nil edge", bad)
			continue
		}
		r.OK(rule, construct, p.Pos(c.Pos()), "the children's future is owned: "+how)
	}
	return n
}

// c15SliceDepends: does v (an append result etc.) contain value x? Follows
// append varargs through their backing array stores.
func c15SliceDepends(v, x ssa.Value) bool {
	seen := map[ssa.Value]bool{}
	var walk func(v ssa.Value, d int) bool
	walk = func(v ssa.Value, d int) bool {
		if v == nil || seen[v] || d > 20 {
			return false
		}
		seen[v] = true
		if sameOrigin(v, x) {
			return true
		}
		switch t := v.(type) {
		case *ssa.Call:
			if b, ok := t.Call.Value.(*ssa.Builtin); ok && b.Name() == "append" {
				for _, a := range t.Call.Args {
					if walk(a, d+1) {
						return true
					}
				}
			}
		case *ssa.Slice:
			// slice of a varargs array: look at the stores into it
			if al, ok := t.X.(*ssa.Alloc); ok {
				for _, ref := range *al.Referrers() {
					if ia, ok := ref.(*ssa.IndexAddr); ok {
						for _, u := range *ia.Referrers() {
							if st, ok := u.(*ssa.Store); ok && st.Addr == ssa.Value(ia) && walk(st.Val, d+1) {
								return true
							}
						}
					}
				}
			}
		case *ssa.Phi:
			for _, e := range t.Edges {
				if walk(e, d+1) {
					return true
				}
			}
		}
		return false
	}
	return walk(v, 0)
}

// (d) writeFileChunks: success only after all chunk uploads were joined without error
func c15ChunksJoined(p *Program, r *Reporter, rule string) int {
	fn := p.Func("pkg/schema", "", "writeFileChunks")
	upStr := p.Func("pkg/schema", "", "uploadString")
	key := FuncKey(fn)
	all := c15AllFuncs(fn)
	n := 0

	// upload goroutines: literals started with `go` that (deep) call the uploader
	type spawn struct {
		site   CallSite
		worker *ssa.Function
	}
	var spawns []spawn
	for _, f := range all {
		for _, c := range CallsIn(f, false) {
			for _, lit := range spawnedClosures(c) {
				if len(FindCalls(lit, true, func(x CallSite) bool { return c15IsBlobUploader(x, upStr) })) > 0 {
					spawns = append(spawns, spawn{c, lit})
				}
			}
		}
	}
	if len(spawns) == 0 {
		r.Undecided(rule, key+"#chunk-upload-goroutine", p.Pos(fn.Pos()), "no goroutine that uploads a chunk found in writeFileChunks: the join discipline cannot be checked")
		return 1
	}
	// the error channel(s) the workers report into, and non-nil-ness of what is sent
	errChans := map[ssa.Value]bool{}
	sendsNonNil := true
	sendBad := ""
	for _, sp := range spawns {
		for _, f := range c15AllFuncs(sp.worker) {
			for _, b := range f.Blocks {
				for _, in := range b.Instrs {
					var ch, val ssa.Value
					switch x := in.(type) {
					case *ssa.Send:
						ch, val = x.Chan, x.X
					case *ssa.Select:
						for _, st := range x.States {
							if st.Dir == types.SendOnly {
								ch, val = st.Chan, st.Send
							}
						}
					}
					if ch == nil || !isErrorType(val.Type()) {
						continue
					}
					errChans[originValue(ch)] = true
					if k, isNil := NilFact(b, val); !(k && !isNil) {
						sendsNonNil = false
						sendBad = fmt.Sprintf("value sent at line %d is not known non-nil", c15Line(p, in.Pos()))
					}
				}
			}
		}
	}
	if len(errChans) != 1 {
		r.Undecided(rule, key+"#chunk-error-channel", p.Pos(fn.Pos()), fmt.Sprintf("upload goroutines report errors into %d channels; expected exactly one", len(errChans)))
		return 1
	}
	var errChan ssa.Value
	for c := range errChans {
		errChan = c
	}
	n++
	r.Check(sendsNonNil, rule, key+"#chunk-error-channel", p.Pos(errChan.Pos()),
		"only errors known non-nil are sent into the channel the upload goroutines report into", "a possibly nil value is sent into the error channel ("+sendBad+"): a receive from it does not imply failure")

	// non-blocking receives from that channel; recvVal = the received error
	type recvSel struct {
		sel  *ssa.Select
		idx  *ssa.Extract
		val  *ssa.Extract
		only bool
	}
	var recvs []recvSel
	for _, f := range all {
		for _, b := range f.Blocks {
			for _, in := range b.Instrs {
				sel, ok := in.(*ssa.Select)
				if !ok || sel.Blocking {
					continue
				}
				k := 0
				for _, st := range sel.States {
					if st.Dir != types.RecvOnly {
						continue
					}
					if originValue(st.Chan) == errChan {
						rs := recvSel{sel: sel, only: len(sel.States) == 1}
						for _, ref := range *sel.Referrers() {
							if ex, ok := ref.(*ssa.Extract); ok {
								if ex.Index == 0 {
									rs.idx = ex
								}
								if ex.Index == 2+k {
									rs.val = ex
								}
							}
						}
						recvs = append(recvs, rs)
					}
					k++
				}
			}
		}
	}
	isRecvVal := func(v ssa.Value) bool {
		for _, rs := range recvs {
			if rs.val != nil && originValue(v) == ssa.Value(rs.val) {
				return true
			}
		}
		return false
	}
	// emptyEdge: block b is on the 'nothing received' edge of rs
	emptyEdge := func(b *ssa.BasicBlock, rs recvSel) bool {
		if !rs.only || rs.idx == nil {
			return false
		}
		for _, f := range FactsAt(b) {
			cond, val := c15StripNot(f.Cond, f.Val)
			bo, ok := cond.(*ssa.BinOp)
			if !ok || bo.X != ssa.Value(rs.idx) {
				continue
			}
			k, ok := ConstInt(bo.Y)
			if !ok {
				continue
			}
			if k == 0 && (bo.Op == token.EQL && !val || bo.Op == token.NEQ && val) {
				return true
			}
			if k == -1 && (bo.Op == token.EQL && val || bo.Op == token.NEQ && !val) {
				return true
			}
		}
		return false
	}

	// the drain: Start on the gate the workers hold, in a loop with trip count == capacity
	var gate ssa.Value
	for _, sp := range spawns {
		n++
		construct := FuncKey(sp.site.Fn) + "#chunk-upload-goroutine"
		var g ssa.Value
		for _, c := range CallsIn(sp.site.Fn, false) {
			if c.IsStatic("go4.org/syncutil", "Gate", "Start") && Precedes(c.Instr, sp.site.Instr) {
				g = originValue(c.Args()[0])
			}
		}
		done := false
		if g != nil {
			for _, c := range CallsIn(sp.worker, false) {
				if c.IsStatic("go4.org/syncutil", "Gate", "Done") && originValue(c.Args()[0]) == g {
					done = true
				}
			}
		}
		if gate != nil && g != gate {
			g = nil
		}
		if g != nil {
			gate = g
		}
		r.Check(g != nil && done, rule, construct, p.Pos(sp.site.Pos()),
			"the upload goroutine is started after taking a token of the gate and gives it back (Done) when finished, so taking all tokens joins it",
			"the upload goroutine is not started under a token of the (one) upload gate or never returns it: draining the gate does not wait for this upload")
	}
	var drain *CallSite
	var drainHdr *ssa.BasicBlock // header of the drain loop: passing it means the loop ran its full trip count
	drainWhy := "no loop that takes all tokens of the upload gate"
	if gate != nil {
		capN := int64(-1)
		if mk, ok := gate.(*ssa.Call); ok && (CallSite{mk.Parent(), mk}).IsStatic("go4.org/syncutil", "", "NewGate") {
			if k, ok := ConstInt(mk.Call.Args[0]); ok {
				capN = k
			}
		}
		for _, c := range CallsIn(fn, false) {
			if !c.IsStatic("go4.org/syncutil", "Gate", "Start") || originValue(c.Args()[0]) != gate || !inLoop(c.Block()) {
				continue
			}
			trip, hdr, ok := c15TripCount(c.Block())
			switch {
			case capN < 0:
				drainWhy = "the gate's capacity is not a constant"
			case !ok:
				drainWhy = "the trip count of the loop around gate.Start() could not be established"
			case trip != capN:
				drainWhy = fmt.Sprintf("the loop takes %d tokens but the gate has %d: uploads can still be running when it ends", trip, capN)
			case !(hdr == c.Block() || hdr.Dominates(c.Block())) || !c15StartEveryIteration(hdr, c):
				drainWhy = "gate.Start() is not executed on every iteration of the counted loop"
			default:
				cc := c
				drain, drainHdr = &cc, hdr
			}
		}
	}

	// classify every return
	outerrKnownNonNil := func(v ssa.Value, at *ssa.BasicBlock) (bool, string) {
		if isRecvVal(v) && sendsNonNil {
			return true, "error received from the upload goroutines' channel"
		}
		ld, ok := v.(*ssa.UnOp)
		if !ok || ld.Op != token.MUL {
			return false, ""
		}
		cell := c15Cell(ld.X)
		// (i) a dominating `*cell != nil` test with no call or store in between
		for _, f := range FactsAt(at) {
			cond, val := c15StripNot(f.Cond, f.Val)
			bo, ok := cond.(*ssa.BinOp)
			if !ok || !(bo.Op == token.NEQ && val || bo.Op == token.EQL && !val) || !IsNilConst(bo.Y) {
				continue
			}
			l2, ok := bo.X.(*ssa.UnOp)
			if !ok || l2.Op != token.MUL || c15Cell(l2.X) != cell {
				continue
			}
			if c15NoWriteBetween(l2, ld, cell) {
				return true, "result variable tested non-nil just before"
			}
		}
		// (ii) on the false edge of a call to a literal that returns false only
		// after storing a received error into the cell
		known, val, call := BoolCallFact(at, func(c CallSite) bool {
			lit := c.Callee()
			return lit != nil && lit.Parent() == fn && c15FalseMeansErrStored(lit, cell, isRecvVal)
		})
		if known && !val && sendsNonNil && call.Value() != nil && c15NoWriteBetween(call.Value(), ld, cell) {
			return true, "the literal reported failure, which it does only after storing an error received from the upload goroutines"
		}
		return false, ""
	}
	ei := ErrResultIndex(fn)
	rets := Returns(fn)
	sort.Slice(rets, func(i, j int) bool { return rets[i].Ret.Pos() < rets[j].Ret.Pos() })
	succ, fail := 0, 0
	for _, ri := range rets {
		n++
		e := ri.Results[ei]
		blk := ri.Ret.Block()
		if !IsNilConst(e) {
			if k, isNil := NilFact(blk, e); k && !isNil {
				fail++
				r.OK(rule, fmt.Sprintf("%s#error-return-%d", key, fail), p.Pos(ri.Ret.Pos()), "returns an error tested non-nil")
				continue
			}
			// the raw operand (load of the result variable) for the cell-based reasoning
			raw := ri.Ret.Results[ei]
			v := e
			if _, isLoad := v.(*ssa.UnOp); !isLoad {
				if _, rl := raw.(*ssa.UnOp); rl && !isRecvVal(v) {
					v = raw
				}
			}
			if ok, why := outerrKnownNonNil(v, blk); ok {
				fail++
				r.OK(rule, fmt.Sprintf("%s#error-return-%d", key, fail), p.Pos(ri.Ret.Pos()), "returns a non-nil error: "+why)
				continue
			}
		}
		succ++
		construct := fmt.Sprintf("%s#success-return-%d", key, succ)
		if drain == nil {
			r.Violation(rule, construct, p.Pos(ri.Ret.Pos()), "this return can report success (error nil or not known non-nil) but "+drainWhy+": chunk uploads may still be running or have failed")
			continue
		}
		var via *recvSel
		for i := range recvs {
			if recvs[i].sel.Parent() == fn && emptyEdge(blk, recvs[i]) {
				via = &recvs[i]
			}
		}
		switch {
		case !c15MustPass(fn, drainHdr, blk):
			r.Violation(rule, construct, p.Pos(ri.Ret.Pos()), "this return can report success (error nil or not known non-nil) on a path that does not pass the loop taking all tokens of the upload gate: chunk uploads may still be running, their errors are lost and the file references blobs that were never stored")
		case via == nil:
			r.Violation(rule, construct, p.Pos(ri.Ret.Pos()), "this return can report success without being on the 'nothing received' edge of a non-blocking receive from the upload goroutines' error channel: a failed chunk upload is reported as success")
		case !c15MustPass(fn, drainHdr, via.sel.Block()) || via.sel.Block() == drainHdr || c15Reaches(via.sel.Block(), drainHdr):
			r.Violation(rule, construct, p.Pos(ri.Ret.Pos()), "the error channel is polled before all tokens of the upload gate were taken: uploads still in flight can fail after the poll")
		default:
			r.OK(rule, construct, p.Pos(ri.Ret.Pos()), "success only after the loop that takes every token of the upload gate (trip count == capacity) and then finding the error channel empty")
		}
	}
	return n
}

// c15StartEveryIteration: from the loop header every way back to the header
// passes the Start call (the body is not skipped by a condition).
func c15StartEveryIteration(hdr *ssa.BasicBlock, start CallSite) bool {
	if start.Block() == hdr {
		return true
	}
	seen := map[*ssa.BasicBlock]bool{}
	var walk func(b *ssa.BasicBlock) bool // true if hdr is re-entered avoiding start's block
	walk = func(b *ssa.BasicBlock) bool {
		for _, s := range b.Succs {
			if s == start.Block() {
				continue
			}
			if s == hdr {
				return true
			}
			if !seen[s] {
				seen[s] = true
				if walk(s) {
					return true
				}
			}
		}
		return false
	}
	return !walk(hdr)
}

// c15NoWriteBetween: from instruction a to load b (a's block dominates b's,
// single-predecessor chain) there is no call and no store to cell.
func c15NoWriteBetween(a ssa.Instruction, b ssa.Instruction, cell ssa.Value) bool {
	blk := b.Block()
	idx := instrIndex(b)
	for steps := 0; steps < 16; steps++ {
		for i := idx - 1; i >= 0; i-- {
			in := blk.Instrs[i]
			if in == a {
				return true
			}
			switch x := in.(type) {
			case ssa.CallInstruction:
				return false
			case *ssa.Store:
				if c15Cell(x.Addr) == cell {
					// a store of a value loaded from the same cell is harmless
					if l, ok := x.Val.(*ssa.UnOp); !(ok && l.Op == token.MUL && c15Cell(l.X) == cell) {
						return false
					}
				}
			}
		}
		if len(blk.Preds) != 1 {
			return false
		}
		blk = blk.Preds[0]
		idx = len(blk.Instrs)
	}
	return false
}

// c15FalseMeansErrStored: every `return false` of lit is preceded, in the same
// block, by a store of a received error into cell.
func c15FalseMeansErrStored(lit *ssa.Function, cell ssa.Value, isRecvVal func(ssa.Value) bool) bool {
	if lit.Signature.Results().Len() != 1 {
		return false
	}
	any := false
	for _, ri := range Returns(lit) {
		c, ok := ri.Results[0].(*ssa.Const)
		if !ok {
			return false // computed result: cannot tell
		}
		if c.Value == nil || c.Value.Kind() != constant.Bool || constant.BoolVal(c.Value) {
			continue
		}
		any = true
		stored := false
		for _, in := range ri.Ret.Block().Instrs {
			if st, ok := in.(*ssa.Store); ok && c15Cell(st.Addr) == cell {
				stored = isRecvVal(st.Val)
			}
		}
		if !stored {
			return false
		}
	}
	return any
}

// c15TripCount: the number of iterations of the counted loop containing block
// body: a phi P = [0, P+1] and an exit test `P < K` (before the body) or
// `P+1 < K` (rotated, after the body), K constant.
func c15TripCount(body *ssa.BasicBlock) (int64, *ssa.BasicBlock, bool) {
	fn := body.Parent()
	for _, b := range fn.Blocks {
		for _, in := range b.Instrs {
			ph, ok := in.(*ssa.Phi)
			if !ok {
				break
			}
			if !(b == body || b.Dominates(body)) || !c15Reaches(body, b) {
				continue
			}
			var inc *ssa.BinOp
			okShape := true
			for i, e := range ph.Edges {
				pred := b.Preds[i]
				if b == pred || b.Dominates(pred) {
					bo, ok := e.(*ssa.BinOp)
					if !ok || bo.Op != token.ADD || bo.X != ssa.Value(ph) {
						okShape = false
						continue
					}
					if k, ok := ConstInt(bo.Y); !ok || k != 1 {
						okShape = false
					}
					inc = bo
				} else if k, ok := ConstInt(e); !ok || k != 0 {
					okShape = false
				}
			}
			if !okShape || inc == nil {
				continue
			}
			// exit test inside the loop
			for _, lb := range fn.Blocks {
				if !(lb == b || b.Dominates(lb)) || !(lb == b || c15Reaches(lb, b)) {
					continue
				}
				ifi, ok := lb.Instrs[len(lb.Instrs)-1].(*ssa.If)
				if !ok {
					continue
				}
				bo, ok := ifi.Cond.(*ssa.BinOp)
				if !ok || bo.Op != token.LSS {
					continue
				}
				k, ok := ConstInt(bo.Y)
				if !ok {
					continue
				}
				stays := lb.Succs[0] == b || c15Reaches(lb.Succs[0], b)
				leaves := !(lb.Succs[1] == b) && !b.Dominates(lb.Succs[1]) || !c15Reaches(lb.Succs[1], b)
				if !stays || !leaves {
					continue
				}
				if bo.X == ssa.Value(ph) || bo.X == ssa.Value(inc) {
					return k, b, true
				}
			}
		}
	}
	return 0, nil, false
}

// ---------------------------------------------------------------------------
// R-bound: symbolic linear forms

type c15Lin struct {
	coef map[string]int64
	k    int64
	ok   bool
}

func (l c15Lin) String() string {
	if !l.ok {
		return "<not linear>"
	}
	var ks []string
	for a := range l.coef {
		ks = append(ks, a)
	}
	sort.Strings(ks)
	var sb strings.Builder
	for _, a := range ks {
		c := l.coef[a]
		if c == 0 {
			continue
		}
		switch {
		case c == 1:
			sb.WriteString(" + " + a)
		case c == -1:
			sb.WriteString(" - " + a)
		default:
			sb.WriteString(fmt.Sprintf(" %+d*%s", c, a))
		}
	}
	if l.k != 0 || sb.Len() == 0 {
		sb.WriteString(fmt.Sprintf(" %+d", l.k))
	}
	return strings.TrimSpace(sb.String())
}

func (l c15Lin) equals(want map[string]int64) bool {
	if !l.ok || l.k != 0 {
		return false
	}
	for a, c := range l.coef {
		if c != want[a] {
			return false
		}
	}
	for a, c := range want {
		if l.coef[a] != c {
			return false
		}
	}
	return true
}

// c15LinOf evaluates v as a linear form over atoms. atom(v) names the atoms the
// caller cares about ("" = not an atom, descend or make an opaque atom).
func c15LinOf(v ssa.Value, atom func(ssa.Value) string) c15Lin {
	var ev func(v ssa.Value, d int) c15Lin
	ev = func(v ssa.Value, d int) c15Lin {
		if d > 40 {
			return c15Lin{}
		}
		if a := atom(v); a != "" {
			return c15Lin{map[string]int64{a: 1}, 0, true}
		}
		switch x := v.(type) {
		case *ssa.Const:
			if x.Value != nil && x.Value.Kind() == constant.Int {
				if k, exact := constant.Int64Val(x.Value); exact {
					return c15Lin{map[string]int64{}, k, true}
				}
			}
		case *ssa.Convert:
			if bt, ok := x.Type().Underlying().(*types.Basic); ok && bt.Info()&types.IsInteger != 0 {
				if st, ok := x.X.Type().Underlying().(*types.Basic); ok && st.Info()&types.IsInteger != 0 {
					return ev(x.X, d+1)
				}
			}
		case *ssa.ChangeType:
			return ev(x.X, d+1)
		case *ssa.BinOp:
			if x.Op == token.ADD || x.Op == token.SUB {
				a, b := ev(x.X, d+1), ev(x.Y, d+1)
				if !a.ok || !b.ok {
					return c15Lin{}
				}
				out := c15Lin{map[string]int64{}, a.k, true}
				for n, c := range a.coef {
					out.coef[n] += c
				}
				sign := int64(1)
				if x.Op == token.SUB {
					sign = -1
				}
				out.k += sign * b.k
				for n, c := range b.coef {
					out.coef[n] += sign * c
				}
				return out
			}
		case *ssa.UnOp:
			if x.Op == token.MUL {
				if o := originValue(x); o != ssa.Value(x) {
					return ev(o, d+1)
				}
			}
		}
		return c15Lin{map[string]int64{fmt.Sprintf("?%s", v.Name()): 1}, 0, true}
	}
	return ev(v, 0)
}

// c15PartField: v is a load of field `name` of a *BytesPart that is element
// [0] of slice value s; returns s.
func c15PartField(v ssa.Value, name string) (slice ssa.Value, ok bool) {
	ld, isLoad := v.(*ssa.UnOp)
	if !isLoad || ld.Op != token.MUL {
		return nil, false
	}
	fa, isFA := ld.X.(*ssa.FieldAddr)
	if !isFA || fieldName(fa.X.Type(), fa.Field) != name {
		return nil, false
	}
	if nt := NamedOf(fa.X.Type()); nt == nil || nt.Obj().Name() != "BytesPart" || RelPkg(nt.Obj().Pkg()) != "pkg/schema" {
		return nil, false
	}
	base := fa.X
	if bl, ok := base.(*ssa.UnOp); ok && bl.Op == token.MUL {
		if ia, ok := bl.X.(*ssa.IndexAddr); ok {
			if k, ok := ConstInt(ia.Index); ok && k == 0 {
				return ia.X, true
			}
		}
	}
	return nil, false
}

// c15CmpHolds evaluates `x op y` on small integers.
func c15CmpHolds(x int64, op token.Token, y int64) bool {
	switch op {
	case token.EQL:
		return x == y
	case token.NEQ:
		return x != y
	case token.LSS:
		return x < y
	case token.LEQ:
		return x <= y
	case token.GTR:
		return x > y
	case token.GEQ:
		return x >= y
	}
	return false
}

func c15IsCmp(op token.Token) bool {
	switch op {
	case token.EQL, token.NEQ, token.LSS, token.LEQ, token.GTR, token.GEQ:
		return true
	}
	return false
}

// c15LenFacts: what facts say about len(slice): +1 non-empty, -1 empty, 0 nothing.
func c15LenFacts(facts []CondFact, slice ssa.Value) int {
	isLen := func(v ssa.Value) bool {
		c, ok := v.(*ssa.Call)
		if !ok {
			return false
		}
		b, ok := c.Call.Value.(*ssa.Builtin)
		return ok && b.Name() == "len" && len(c.Call.Args) == 1 && c.Call.Args[0] == slice
	}
	for _, f := range facts {
		cond, val := c15StripNot(f.Cond, f.Val)
		bo, ok := cond.(*ssa.BinOp)
		if !ok || !c15IsCmp(bo.Op) {
			continue
		}
		var truth func(l int64) bool
		if k, ok := ConstInt(bo.Y); ok && isLen(bo.X) {
			truth = func(l int64) bool { return c15CmpHolds(l, bo.Op, k) }
		} else if k, ok := ConstInt(bo.X); ok && isLen(bo.Y) {
			truth = func(l int64) bool { return c15CmpHolds(k, bo.Op, l) }
		} else {
			continue
		}
		// representatives: 0 (empty) and 1, 2, 1<<40 (non-empty)
		at0 := truth(0) == val
		pos := truth(1) == val && truth(2) == val && truth(1<<40) == val
		neg := truth(1) != val && truth(2) != val && truth(1<<40) != val
		if !at0 && pos {
			return +1
		}
		if at0 && neg {
			return -1
		}
	}
	return 0
}

// c15InsideFact: do the facts imply inPartOffset (R) < Size of parts[0]?
func c15InsideFact(facts []CondFact, R ssa.Value, parts ssa.Value) bool {
	strip := func(v ssa.Value) ssa.Value {
		for {
			if cv, ok := v.(*ssa.Convert); ok {
				v = cv.X
				continue
			}
			return v
		}
	}
	isSize := func(v ssa.Value) bool { s, ok := c15PartField(strip(v), "Size"); return ok && s == parts }
	isR := func(v ssa.Value) bool { return strip(v) == R }
	for _, f := range facts {
		cond, val := c15StripNot(f.Cond, f.Val)
		bo, ok := cond.(*ssa.BinOp)
		if !ok || !c15IsCmp(bo.Op) {
			continue
		}
		var truth func(size, r int64) bool
		switch {
		case isSize(bo.X) && isR(bo.Y):
			truth = func(size, r int64) bool { return c15CmpHolds(size, bo.Op, r) }
		case isR(bo.X) && isSize(bo.Y):
			truth = func(size, r int64) bool { return c15CmpHolds(r, bo.Op, size) }
		default:
			continue
		}
		// the fact must hold for r < size and fail for r == size and r > size
		if truth(5, 4) == val && truth(5, 0) == val && truth(5, 5) != val && truth(5, 6) != val {
			return true
		}
	}
	return false
}

// c15PartNotExhausted: at block at, on every feasible way out of the loop that
// skips leading parts (header = R's block), R < Size(parts[0]) is known.
// Edges out of the loop that imply an empty part list are infeasible when
// `at` is known to have a non-empty list.
func c15PartNotExhausted(at *ssa.BasicBlock, R *ssa.Phi, parts ssa.Value) (bool, string) {
	if c15InsideFact(FactsAt(at), R, parts) {
		return true, "dominating comparison"
	}
	hdr := R.Block()
	inLoopBlk := func(b *ssa.BasicBlock) bool {
		return (b == hdr || hdr.Dominates(b)) && (b == hdr || c15Reaches(b, hdr))
	}
	// the first block on at's dominator chain that lies outside the loop and has a predecessor inside
	var join *ssa.BasicBlock
	for d := at; d != nil; d = d.Idom() {
		if inLoopBlk(d) {
			break
		}
		for _, pr := range d.Preds {
			if inLoopBlk(pr) {
				join = d
			}
		}
	}
	if join == nil {
		return false, "no exit of the part-skipping loop dominates the reader"
	}
	atLen := c15LenFacts(FactsAt(at), parts)
	feasible := 0
	for _, pr := range join.Preds {
		ef := c15EdgeFacts(pr, join)
		if l := c15LenFacts(ef, parts); l != 0 && atLen != 0 && l != atLen {
			continue // this way out contradicts what is known about len(parts) at the reader
		}
		feasible++
		if !c15InsideFact(ef, R, parts) {
			return false, fmt.Sprintf("the loop can be left through block %d without inPartOffset < part.Size being established", pr.Index)
		}
	}
	if feasible == 0 {
		return false, "no feasible way out of the loop"
	}
	return true, fmt.Sprintf("%d feasible loop exit(s), each on the failing side of the 'part is skipped' comparison", feasible)
}

type c15ReaderLeaf struct {
	kind string // "limit", "empty", "nil", "unbounded", "opaque"
	call *ssa.Call
	v    ssa.Value
}

// c15ReaderLeaves: what the returned reader reads from.
func c15ReaderLeaves(v ssa.Value) []c15ReaderLeaf {
	var out []c15ReaderLeaf
	seen := map[ssa.Value]bool{}
	hasRead := func(t types.Type) bool {
		ms := types.NewMethodSet(t)
		for i := 0; i < ms.Len(); i++ {
			if ms.At(i).Obj().Name() == "Read" {
				return true
			}
		}
		return false
	}
	var walk func(v ssa.Value, d int)
	walk = func(v ssa.Value, d int) {
		if v == nil || seen[v] {
			return
		}
		seen[v] = true
		if d > 30 {
			out = append(out, c15ReaderLeaf{"opaque", nil, v})
			return
		}
		switch x := v.(type) {
		case *ssa.Const:
			out = append(out, c15ReaderLeaf{"nil", nil, v})
		case *ssa.MakeInterface:
			walk(x.X, d+1)
		case *ssa.ChangeInterface:
			walk(x.X, d+1)
		case *ssa.ChangeType:
			walk(x.X, d+1)
		case *ssa.Phi:
			for _, e := range x.Edges {
				walk(e, d+1)
			}
		case *ssa.Call:
			cs := CallSite{x.Parent(), x}
			switch {
			case cs.IsStatic("io", "", "LimitReader"):
				out = append(out, c15ReaderLeaf{"limit", x, v})
			case cs.IsStatic("io", "", "NopCloser"):
				walk(x.Call.Args[0], d+1)
			default:
				if f := cs.Callee(); f != nil && InModule(f) {
					out = append(out, c15ReaderLeaf{"opaque", x, v})
				} else {
					out = append(out, c15ReaderLeaf{"unbounded", x, v})
				}
			}
		case *ssa.UnOp:
			if x.Op != token.MUL {
				out = append(out, c15ReaderLeaf{"opaque", nil, v})
				return
			}
			if g, ok := x.X.(*ssa.Global); ok {
				if g.Name() == "EmptyBody" && g.Pkg.Pkg.Path() == "go4.org/types" {
					out = append(out, c15ReaderLeaf{"empty", nil, v})
				} else {
					out = append(out, c15ReaderLeaf{"opaque", nil, v})
				}
				return
			}
			if al, ok := x.X.(*ssa.Alloc); ok {
				if st, ok := al.Type().(*types.Pointer).Elem().Underlying().(*types.Struct); ok {
					// struct literal: follow the fields that provide Read
					found := false
					for _, ref := range *al.Referrers() {
						fa, ok := ref.(*ssa.FieldAddr)
						if !ok || !hasRead(st.Field(fa.Field).Type()) || !st.Field(fa.Field).Embedded() {
							continue
						}
						for _, u := range *fa.Referrers() {
							if s, ok := u.(*ssa.Store); ok && s.Addr == ssa.Value(fa) {
								found = true
								walk(s.Val, d+1)
							}
						}
					}
					if !found {
						out = append(out, c15ReaderLeaf{"opaque", nil, v})
					}
					return
				}
			}
			if o := originValue(x); o != ssa.Value(x) {
				walk(o, d+1)
				return
			}
			out = append(out, c15ReaderLeaf{"opaque", nil, v})
		case *ssa.Extract:
			out = append(out, c15ReaderLeaf{"unbounded", nil, v})
		default:
			out = append(out, c15ReaderLeaf{"unbounded", nil, v})
		}
	}
	walk(v, 0)
	return out
}

func c15RuleRBound(p *Program, r *Reporter) {
	const rule = "R-bound"
	fn := p.Func("pkg/schema", "FileReader", "readerForOffset")
	key := FuncKey(fn)
	n := 0
	defer func() { r.Analysed("reader_bounds", n); r.Floor(rule, 5) }()

	// the offset parameter (the int64 one)
	var off *ssa.Parameter
	for _, prm := range fn.Params[1:] {
		if bt, ok := prm.Type().Underlying().(*types.Basic); ok && bt.Kind() == types.Int64 {
			off = prm
		}
	}
	if off == nil {
		brokenf("anchor unresolved: int64 offset parameter of %s", key)
	}
	// R: phi [off, R - Size(parts[0])] with parts a slice phi consumed from the front
	var R *ssa.Phi
	var partsPhi ssa.Value
	for _, b := range fn.Blocks {
		for _, in := range b.Instrs {
			ph, ok := in.(*ssa.Phi)
			if !ok {
				break
			}
			okShape, sawOff, sawSub := true, false, false
			var sl ssa.Value
			for _, e := range ph.Edges {
				if e == ssa.Value(off) {
					sawOff = true
					continue
				}
				bo, ok := e.(*ssa.BinOp)
				if !ok || bo.Op != token.SUB || bo.X != ssa.Value(ph) {
					okShape = false
					continue
				}
				y := bo.Y
				if cv, ok := y.(*ssa.Convert); ok {
					y = cv.X
				}
				s, ok := c15PartField(y, "Size")
				if !ok || (sl != nil && sl != s) {
					okShape = false
					continue
				}
				sl, sawSub = s, true
			}
			if okShape && sawOff && sawSub {
				// the slice must itself be a phi advancing by [1:]
				if sp, ok := sl.(*ssa.Phi); ok && sp.Block() == b {
					adv := false
					for _, e := range sp.Edges {
						if s, ok := e.(*ssa.Slice); ok && s.X == ssa.Value(sp) && s.High == nil {
							if k, ok := ConstInt(s.Low); ok && k == 1 {
								adv = true
							}
						}
					}
					if adv {
						R, partsPhi = ph, sl
					}
				}
			}
		}
	}
	if R == nil {
		n++
		r.Undecided(rule, key+"#in-part-offset", p.Pos(fn.Pos()), "cannot identify the in-part offset (a loop variable starting at the offset parameter and reduced by the Size of each skipped leading part)")
		return
	}
	atom := func(v ssa.Value) string {
		if v == ssa.Value(R) {
			return "inPartOffset"
		}
		for _, f := range []string{"Size", "Offset"} {
			if s, ok := c15PartField(v, f); ok && s == partsPhi {
				return "part." + f
			}
		}
		return ""
	}

	// (1) every returned reader
	kinds := map[string]int{}
	for _, ri := range Returns(fn) {
		rv := ri.Results[0]
		if IsNilConst(rv) {
			continue
		}
		for _, lf := range c15ReaderLeaves(rv) {
			switch lf.kind {
			case "nil", "empty":
				continue
			case "limit":
				n++
				role := "part-data"
				if mi, ok := lf.call.Call.Args[0].(*ssa.MakeInterface); ok {
					if nt := NamedOf(mi.X.Type()); nt != nil && nt.Obj().Name() == "zeroReader" {
						role = "hole"
					}
				}
				kinds[role]++
				construct := key + "#bound:" + role
				lin := c15LinOf(lf.call.Call.Args[1], atom)
				want := map[string]int64{"part.Size": 1, "inPartOffset": -1}
				r.Check(lin.equals(want), rule, construct, p.Pos(lf.call.Pos()),
					"byte bound of the returned reader = part.Size - inPartOffset (what is left of the part after the in-part start offset)",
					fmt.Sprintf("byte bound of the returned reader is [%s], not [part.Size - inPartOffset]: a read that starts inside the part runs past the part's end into bytes of the blob that do not belong to the file at this position (e.g. parts {blob \"0123456789\" size 5},{blob \"abcde\" size 5}: ReadAt(len 8, off 2) yields \"23456cde\" instead of \"234abcde\")", lin))
				// the part the bound is taken from is not exhausted: inPartOffset < part.Size
				n++
				okProg, why := c15PartNotExhausted(lf.call.Block(), R, partsPhi)
				r.Check(okProg, rule, key+"#progress:"+role, p.Pos(lf.call.Pos()),
					"on every feasible way out of the part-skipping loop inPartOffset < part.Size holds, so the returned reader yields at least one byte ("+why+")",
					"the part selected for the reader may be exhausted already (inPartOffset == part.Size is possible: "+why+"): a zero-length reader is returned at a part boundary and ReadAt/Read stop short in the middle of the file")
			case "opaque":
				n++
				r.Undecided(rule, key+"#bound:opaque", p.Pos(ri.Ret.Pos()), "the returned reader comes from "+lf.v.String()+", which the analysis does not look into: bound not visible")
			default:
				n++
				r.Violation(rule, key+"#bound:unbounded", p.Pos(ri.Ret.Pos()),
					"a reader over the part's data ("+lf.v.Name()+" "+lf.v.Type().String()+") is returned without io.LimitReader: reads continue past the end of the part to the end of the underlying blob")
			}
		}
	}
	if kinds["part-data"] == 0 {
		n++
		r.Violation(rule, key+"#bound:part-data", p.Pos(fn.Pos()), "no returned reader over blob/bytes part data is bounded by io.LimitReader")
	}

	// (2) every Seek on the part's data: to inPartOffset + part.Offset from the start
	seeks := 0
	for _, c := range CallsIn(fn, false) {
		if c.MethodName() != "Seek" || c.Value() == nil || len(c.Args()) != 3 {
			continue
		}
		seeks++
		n++
		construct := key + "#seek"
		lin := c15LinOf(c.Args()[1], atom)
		wh, okWh := ConstInt(c.Args()[2])
		want := map[string]int64{"part.Offset": 1, "inPartOffset": 1}
		okSeek := lin.equals(want) && okWh && wh == 0
		// skipping the Seek is allowed only where the target is known to be 0 (not > 0)
		r.Check(okSeek, rule, construct, p.Pos(c.Pos()),
			"the part's data is positioned at inPartOffset + part.Offset from the start",
			fmt.Sprintf("Seek target is [%s] (whence %d), not [inPartOffset + part.Offset] from the start: the reader yields bytes from the wrong position of the blob", lin, wh))
	}
	if seeks == 0 {
		n++
		r.Violation(rule, key+"#seek", p.Pos(fn.Pos()), "the part's data is never positioned (no Seek): in-part offset and the part's 'offset' field are ignored")
	}
}

// ---------------------------------------------------------------------------
// W-keys (table agreement)

func c15RuleKeys(p *Program, r *Reporter) {
	const rule = "W-keys"
	n := 0
	defer func() { r.Analysed("key_tables", n); r.Floor(rule, 4) }()

	jsonTags := func(st *types.Struct, only map[string]bool) map[string]string {
		out := map[string]string{}
		for i := 0; i < st.NumFields(); i++ {
			f := st.Field(i)
			if only != nil && !only[f.Name()] {
				continue
			}
			tag := c15JSONName(st.Tag(i))
			if tag == "" {
				tag = f.Name()
			}
			if tag != "-" {
				out[tag] = f.Name()
			}
		}
		return out
	}
	// string constants used as map index in stores of fn (m["x"] = ...) whose map is a map[string]any
	mapKeys := func(fn *ssa.Function) map[string]token.Pos {
		out := map[string]token.Pos{}
		for _, b := range fn.Blocks {
			for _, in := range b.Instrs {
				mu, ok := in.(*ssa.MapUpdate)
				if !ok {
					continue
				}
				if s, ok := ConstString(mu.Key); ok {
					out[s] = mu.Pos()
				}
			}
		}
		return out
	}
	diff := func(written map[string]token.Pos, read map[string]string) (missingInReader, neverWritten []string) {
		for k := range written {
			if _, ok := read[k]; !ok {
				missingInReader = append(missingInReader, k)
			}
		}
		for k := range read {
			if _, ok := written[k]; !ok {
				neverWritten = append(neverWritten, k)
			}
		}
		sort.Strings(missingInReader)
		sort.Strings(neverWritten)
		return
	}

	// (1) bytes parts
	pp := p.Func("pkg/schema", "", "populateParts")
	bpT := p.NamedType("pkg/schema", "BytesPart")
	bpS, _ := bpT.Underlying().(*types.Struct)
	ssT := p.NamedType("pkg/schema", "superset")
	ssS, _ := ssT.Underlying().(*types.Struct)
	if bpS == nil || ssS == nil {
		brokenf("anchor unresolved: struct types BytesPart / superset")
	}
	written := mapKeys(pp)
	partKeys := map[string]token.Pos{}
	topKeys := map[string]token.Pos{}
	partTags := jsonTags(bpS, nil)
	for k, pos := range written {
		if _, isTop := jsonTags(ssS, map[string]bool{"Parts": true})[k]; isTop {
			topKeys[k] = pos
		} else {
			partKeys[k] = pos
		}
	}
	n++
	mr, nw := diff(partKeys, partTags)
	r.Check(len(mr) == 0 && len(nw) == 0, rule, FuncKey(pp)+"#part-keys", p.Pos(pp.Pos()),
		fmt.Sprintf("keys written per part %v = JSON tags of BytesPart", c15Keys(partKeys)),
		fmt.Sprintf("populateParts and BytesPart disagree on JSON keys: written but not decoded %v, decoded but never written %v: a written file reads back with that field zero", mr, nw))
	n++
	r.Check(len(topKeys) == 1, rule, FuncKey(pp)+"#parts-key", p.Pos(pp.Pos()),
		"the part list is written under the JSON tag of superset.Parts",
		"populateParts does not write the part list under the JSON tag of superset.Parts: every written file reads back empty")

	// (2) static sets
	sw := p.Func("pkg/schema", "Builder", "SetStaticSetMembers")
	wk := mapKeys(sw)
	setTags := jsonTags(ssS, map[string]bool{"Members": true, "MergeSets": true})
	n++
	mr, nw = diff(wk, setTags)
	r.Check(len(mr) == 0 && len(nw) == 0, rule, FuncKey(sw)+"#static-set-keys", p.Pos(sw.Pos()),
		fmt.Sprintf("keys written %v = JSON tags of superset.Members / superset.MergeSets", c15Keys(wk)),
		fmt.Sprintf("SetStaticSetMembers and superset disagree on JSON keys: written but not decoded %v, decoded but never written %v: a directory lists no (or not all) members", mr, nw))
	// the reader must look at both fields
	rd := p.Func("pkg/schema", "", "staticSet")
	reads := map[string]bool{}
	for _, b := range rd.Blocks {
		for _, in := range b.Instrs {
			if fa, ok := in.(*ssa.FieldAddr); ok && NamedOf(fa.X.Type()) == ssT {
				reads[fieldName(fa.X.Type(), fa.Field)] = true
			}
		}
	}
	n++
	r.Check(reads["Members"] && reads["MergeSets"], rule, FuncKey(rd)+"#static-set-fields", p.Pos(rd.Pos()),
		"the static-set reader consults both Members and MergeSets", "the static-set reader ignores Members or MergeSets: a directory spread over sub-sets lists no members")
}

func c15Keys(m map[string]token.Pos) []string {
	var out []string
	for k := range m {
		out = append(out, k)
	}
	sort.Strings(out)
	return out
}

// c15JSONName extracts the name part of a `json:"name,opts"` struct tag.
func c15JSONName(tag string) string {
	const pfx = `json:"`
	i := strings.Index(tag, pfx)
	if i < 0 {
		return ""
	}
	rest := tag[i+len(pfx):]
	j := strings.IndexByte(rest, '"')
	if j < 0 {
		return ""
	}
	name := rest[:j]
	if c := strings.IndexByte(name, ','); c >= 0 {
		name = name[:c]
	}
	return name
}
