package main

import (
	"fmt"
	"go/constant"
	"go/token"
	"go/types"
	"sort"
	"strings"

	"golang.org/x/tools/go/ssa"
)

func init() {
	register(&PropSpec{
		ID:    "C15",
		Title: "Files and directories written as schema blobs read back exactly",
		Explanation: "Decided (structural necessary conditions, all in pkg/schema): " +
			"W-cap — in writeFileChunks the bytes of a chunk are accumulated one byte per step of an integer counter that starts at 0; every way of going round the read loop without resetting that counter lies behind a comparison of the counter with a constant that bounds it, every reset of the counter is behind a Reset of the chunk buffer, the resulting maximal chunk length is <= schema.maxBlobSize, and maxBlobSize <= constants.MaxBlobSize; the string handed to the uploader is the buffer content taken before the buffer is reset and the blobref recorded in the span is computed from that same string. " +
			"W-parts-first — in uploadBytes every CFG path on which the builder's type is (or may be) \"file\" reaches the upload of the builder's own JSON only over the err==nil edge of Get() on the future that collects the children; Get() waits for every child and hands a child's error back; every future returned by uploadBytes is waited for, attached to a parent's children, or returned; every return of writeFileChunks whose error can be nil lies after the loop that takes all tokens of the upload gate (trip count == gate capacity), on the 'nothing received' edge of a non-blocking receive from the very channel the upload goroutines report into, every upload goroutine is started under a token of that gate, and the error paths return a value that is known non-nil. " +
			"R-bound — every reader readerForOffset returns (other than the empty reader) is wrapped by io.LimitReader whose byte bound is, as a linear expression, exactly (size of the first non-skipped part) - (offset - sizes of the skipped parts); on every feasible way out of the part-skipping loop that offset is strictly smaller than the part's size (the reader is never empty at a part boundary); the Seek into the part's data goes to exactly that in-part offset plus the part's 'offset' field, from the start. " +
			"W-keys — the JSON keys the part writer (populateParts) and the static-set writer (SetStaticSetMembers) emit are exactly the JSON tags of the fields the readers (BytesPart; superset.Members / MergeSets / Parts) decode. " +
			"W-spread — in (*Builder).SetStaticSetMembers every use of the members parameter is len, an indexed element or a sub-slice handed to SetStaticSetMembers of a builder created there; leaf case: the list stored under the Members key is filled from members[i] for every i = 0..len-1 of a counted loop; spread case, with all bounds evaluated as polynomials over SSA values (phis kept as atoms, i.e. the stride and count in force after all re-assignments): exactly one sub-slice members[lo(i):hi(i)] is taken on every iteration of a counted loop i = c..N-1 whose only exit is its test (test before the body, or after it with the same test guarding the entry), lo(c) = 0, hi(i) = lo(i+1), exactly one tail members[K:] with K = lo(N); every branch condition under which the tail is emitted is, as a polynomial, a comparison of that same K with len(members) that is true whenever K < len(members) — a condition that is computed only from inputs read before a stride/count phi and does not depend on that phi is the violation 'rest test uses a stale stride', any other shape is undecided; on every CFG path the blob of each created sub-set reaches, through appends and phis, both the returned list and the list whose complete traversal produces the value stored under the MergeSets key, and the result of the recursive call over a stride that is not the leaf capacity reaches the returned list; every combination of Members/MergeSets keys that some path writes is one that a successful return of staticSet computes its result from (the reader returns Members alone when present, so a blob with both is rejected); in staticSet the loops over Members and over MergeSets visit index 0..len-1, are left early only towards a non-nil error, and every member / every recursive result reaches the list each later successful return hands back. " +
			"Effective body — W-parts-first (uploadBytes, writeFileChunks) and R-bound (readerForOffset) look for their sites not only in the named function but in its effective body: the function, its literals and, transitively (depth 4), the unexported functions of pkg/schema it calls statically; a parameter of such a helper that has one call site stands for the caller's argument, a result of such a helper for the value all its returns yield. 'Before' carries across calls: a call of a helper counts as passing a point inside it when every return of the helper lies behind that point, or — on the err == nil edge of the call — when every return that may report success does; a return that hands on a helper's results (return helper(...)) is replaced by the helper's own returns; branch facts at a helper's single call site hold inside the helper; a helper whose nil result is returned only behind a successful Get() / only on the 'nothing received' edge of the poll counts as that Get() / that poll. A helper with several call sites inside the effective body is not followed by value (its parameters stay opaque), which reports Undecided or a violation rather than passing. W-cap, W-spread and W-keys are still evaluated inside the one named function (plus its literals): moving part of the chunking loop's split decision, of the static-set slicing or of the static-set reader's loops into a helper is reported as Undecided/violated, not followed. " +
			"NOT decided: byte-for-byte round-trip equality for any content, where the rolling checksum puts split points, the shape of the span tree, ReadAt/Seek arithmetic above readerForOffset, behaviour of the blob store underneath, overflow of the 64-bit size arithmetic; for static sets: the arithmetic of perSubset and subsetsNumber themselves (that stride*count <= len(members) so the slicing does not panic, that the rest and every leaf fit into one blob, that dropping the recursive result of the rest sub-set is harmless because rest < stride), termination and depth of the recursion, the order of the listed members.",
		RuleDocs: map[string]string{
			"W-cap":         "writeFileChunks: the chunk-length counter paired with (*bytes.Buffer).WriteByte; one obligation per loop back edge (bounded by a dominating comparison, or reset together with the buffer), one for the derived maximal chunk length against schema.maxBlobSize and constants.MaxBlobSize, one per uploadString call for 'payload = buffer content before Reset, ref = hash of payload'",
			"W-parts-first": "(sites looked up in the effective body: the function, its literals and the unexported same-package helpers it calls, arguments mapped to parameters) uploadBytes: every start of the upload of the builder's own JSON (path search over the CFG with the facts type==file / Get() err==nil); (*uploadBytesFuture).Get: children joined, child error returned; every caller of uploadBytes/addBytesParts: the future is joined, attached or returned; writeFileChunks: every return classified as error-known-non-nil or success-after-drain-and-empty-error-channel",
			"R-bound":       "readerForOffset and the unexported helpers it calls (the skip loop, the Seek or the LimitReader may live in a helper; parameters stand for arguments, results for returned values): every returned reader (bound expression of its io.LimitReader, symbolically; in-part offset < part size on every feasible loop exit), and every Seek on the part's data",
			"W-spread":      "SetStaticSetMembers: every use of members (len / element / sub-slice handed to a sub-set); one obligation each for the leaf traversal, the per-iteration sub-slice of the counted loop, first-slice-at-0, contiguity hi(i)=lo(i+1), rest start K=lo(N), the rest's emission condition (polynomial comparison of that K with len(members); stale-stride detection), the list behind the MergeSets key, per created sub-set 'blob reaches the returned list' and 'blob reaches the referenced list' on every path, the recursive result reaching the returned list, and per written key combination agreement with staticSet's successful returns; staticSet: per field Members/MergeSets full index range and 'kept until every successful return'",
			"W-keys":        "writer/reader key agreement for bytes parts and static sets (go/types struct tags against map-index constants in the writer functions)",
		},
		Run:       runC15,
		DesignRef: "DESIGN.md §4 C15",
		Technique: "static analysis: effective-body (helper-transparent) site lookup with parameter/argument and result/return mapping and must-pass-through across static calls, dominance facts and interval reasoning on a loop counter, edge-sensitive CFG path search, symbolic (linear) evaluation of SSA integer expressions, polynomial normal forms of slice bounds with substitution of the loop variable (interval bookkeeping), forward path exploration of append/phi webs, backward value dependence, writer/reader table agreement",
		LevelText: "Decides structural necessary conditions only: the chunker's hard size cap cannot be bypassed by any 'do not split' continue and agrees with the declared limits; a file schema blob is uploaded only after all of its parts were stored successfully and the chunk writer reports success only after all chunk uploads were joined without error; a reader for an offset is bounded by what is left of the part after the in-part offset and positioned at in-part offset + part offset; writers and readers agree on JSON keys; the sub-slices a large member list is cut into start at 0, are contiguous, are followed by a rest that starts where the loop stopped and is emitted whenever that point lies before the end (tested with the same stride and count), every created sub-set is both returned for upload and referenced by its parent, and the reader visits every member and every sub-set and keeps what it read. The upload-ordering and reader-bound clauses survive extraction of their code into unexported helpers (single call site, static call); the chunk-cap and static-set clauses are tied to the one function that contains the loop. Does not decide that any concrete file or directory reads back equal, nor split points, tree shape, ReadAt arithmetic, the values of the static-set stride and count, recursion depth, or member order.",
	})
}

func runC15(p *Program, r *Reporter) {
	r.Analysed("functions", len(p.FuncsIn("pkg/schema")))
	c15RuleWCap(p, r)
	c15RulePartsFirst(p, r)
	c15RuleRBound(p, r)
	c15RuleSpread(p, r)
	c15RuleKeys(p, r)
}

// ---------------------------------------------------------------------------
// small general helpers (c15-prefixed)

func c15ConstVal(p *Program, rel, name string) constant.Value {
	obj := p.Pkg(rel).Types.Scope().Lookup(name)
	c, ok := obj.(*types.Const)
	if !ok {
		brokenf("anchor unresolved: constant %s.%s", rel, name)
	}
	return c.Val()
}

func c15Line(p *Program, pos token.Pos) int { return p.Fset.Position(pos).Line }

// c15BlockPos: a source position inside block b (for humans only).
func c15BlockPos(b *ssa.BasicBlock, fallback token.Pos) token.Pos {
	for i := len(b.Instrs) - 1; i >= 0; i-- {
		if pos := b.Instrs[i].Pos(); pos.IsValid() {
			return pos
		}
	}
	for _, pr := range b.Preds {
		if len(pr.Preds) > 0 && pr != b {
			for i := len(pr.Instrs) - 1; i >= 0; i-- {
				if pos := pr.Instrs[i].Pos(); pos.IsValid() {
					return pos
				}
			}
		}
	}
	return fallback
}

// c15StripNot peels `!` off a condition.
func c15StripNot(cond ssa.Value, val bool) (ssa.Value, bool) {
	for {
		u, ok := cond.(*ssa.UnOp)
		if !ok || u.Op != token.NOT {
			return cond, val
		}
		cond, val = u.X, !val
	}
}

// c15EdgeFacts: branch conditions known when control goes from pred to succ.
func c15EdgeFacts(pred, succ *ssa.BasicBlock) []CondFact {
	facts := FactsAt(pred)
	if n := len(pred.Instrs); n > 0 {
		if ifi, ok := pred.Instrs[n-1].(*ssa.If); ok && len(pred.Succs) == 2 && pred.Succs[0] != pred.Succs[1] {
			if succ == pred.Succs[0] {
				facts = append(facts, CondFact{ifi.Cond, true, pred})
			} else if succ == pred.Succs[1] {
				facts = append(facts, CondFact{ifi.Cond, false, pred})
			}
		}
	}
	return facts
}

// c15ConstCond evaluates a comparison of two constants.
func c15ConstCond(cond ssa.Value) (known, val bool) {
	cond, flip := c15StripNot(cond, true)
	b, ok := cond.(*ssa.BinOp)
	if !ok {
		return false, false
	}
	x, ok1 := b.X.(*ssa.Const)
	y, ok2 := b.Y.(*ssa.Const)
	if !ok1 || !ok2 || x.Value == nil || y.Value == nil {
		return false, false
	}
	switch b.Op {
	case token.EQL, token.NEQ, token.LSS, token.LEQ, token.GTR, token.GEQ:
		v := constant.Compare(x.Value, b.Op, y.Value)
		return true, v == flip
	}
	return false, false
}

// c15MustPass reports whether every feasible path from the entry of fn to
// target goes through block via (edges decided by constant comparisons are pruned).
func c15MustPass(fn *ssa.Function, via, target *ssa.BasicBlock) bool {
	if via == target {
		return true
	}
	seen := map[*ssa.BasicBlock]bool{}
	var walk func(b *ssa.BasicBlock) bool // true if target reached avoiding via
	walk = func(b *ssa.BasicBlock) bool {
		if b == via || seen[b] {
			return false
		}
		seen[b] = true
		if b == target {
			return true
		}
		succs := b.Succs
		if n := len(b.Instrs); n > 0 {
			if ifi, ok := b.Instrs[n-1].(*ssa.If); ok && len(succs) == 2 {
				if k, v := c15ConstCond(ifi.Cond); k {
					if v {
						succs = succs[:1]
					} else {
						succs = succs[1:]
					}
				}
			}
		}
		for _, s := range succs {
			if walk(s) {
				return true
			}
		}
		return false
	}
	return !walk(fn.Blocks[0])
}

// c15Reaches reports whether block b can reach block t (b != t needs >= 1 edge;
// b == t needs a cycle).
func c15Reaches(b, t *ssa.BasicBlock) bool {
	seen := map[*ssa.BasicBlock]bool{}
	var walk func(x *ssa.BasicBlock) bool
	walk = func(x *ssa.BasicBlock) bool {
		for _, s := range x.Succs {
			if s == t {
				return true
			}
			if !seen[s] {
				seen[s] = true
				if walk(s) {
					return true
				}
			}
		}
		return false
	}
	return walk(b)
}

// c15Paired: within one pass through their region, a executes iff b executes
// (same block, or a precedes b and every path from a passes b before leaving
// the function or re-entering block `header`).
func c15Paired(a, b ssa.Instruction, header *ssa.BasicBlock) bool {
	if a.Block() == b.Block() {
		return true
	}
	one := func(a, b ssa.Instruction) bool {
		if !Precedes(a, b) {
			return false
		}
		reach := ReachableFrom(a, func(in ssa.Instruction) bool { return in == b })
		for in := range reach {
			if _, isRet := in.(*ssa.Return); isRet {
				return false
			}
			if header != nil && in.Block() == header && in.Block() != a.Block() {
				return false
			}
		}
		return true
	}
	return one(a, b) || one(b, a)
}

// c15AllFuncs lists fn and all nested literals.
func c15AllFuncs(fn *ssa.Function) []*ssa.Function {
	var out []*ssa.Function
	var walk func(f *ssa.Function)
	walk = func(f *ssa.Function) {
		out = append(out, f)
		for _, a := range f.AnonFuncs {
			walk(a)
		}
	}
	walk(fn)
	return out
}

// c15Cell returns the variable cell an address denotes (through captures), or
// the address value itself when it is not a plain variable.
func c15Cell(addr ssa.Value) ssa.Value {
	if c, ok := varOf(addr); ok {
		return c
	}
	return addr
}

// c15TriggersIn: the instructions of top that call, defer or spawn literal lit
// (lit may be nested deeper: the outermost enclosing literal directly under top is used).
func c15TriggersIn(top *ssa.Function, lit *ssa.Function) []CallSite {
	for lit.Parent() != nil && lit.Parent() != top {
		lit = lit.Parent()
	}
	if lit.Parent() != top {
		return nil
	}
	var out []CallSite
	for _, c := range CallsIn(top, false) {
		if ClosureOf(c) == lit {
			out = append(out, c)
			continue
		}
		for _, f := range FuncArgClosures(c) {
			if f == lit {
				out = append(out, c)
			}
		}
	}
	return out
}

// ---------------------------------------------------------------------------
// effective body: an anchor function plus the unexported same-package helpers
// it calls statically (transitively), with parameters standing for the
// caller's arguments and call results for the helper's returned values

type c15Eff struct {
	root  *ssa.Function
	decl  []*ssa.Function              // root + helpers (declared functions), root first
	funcs []*ssa.Function              // decl + all their nested literals
	in    map[*ssa.Function]bool       // membership of funcs
	sites map[*ssa.Function][]CallSite // helper -> its call sites inside the effective body
	depth map[*ssa.Function]int
}

const c15EffDepth = 4

func c15IsHelperOf(root, f *ssa.Function) bool {
	if f == nil || f == root || f.Parent() != nil || len(f.Blocks) == 0 || f.Pkg == nil || f.Pkg != root.Pkg {
		return false
	}
	return !token.IsExported(f.Name())
}

func c15Effective(root *ssa.Function) *c15Eff {
	e := &c15Eff{root: root, in: map[*ssa.Function]bool{}, sites: map[*ssa.Function][]CallSite{}, depth: map[*ssa.Function]int{}}
	var add func(f *ssa.Function, d int)
	add = func(f *ssa.Function, d int) {
		e.decl = append(e.decl, f)
		e.depth[f] = d
		all := c15AllFuncs(f)
		for _, g := range all {
			e.in[g] = true
			e.funcs = append(e.funcs, g)
		}
		for _, g := range all {
			for _, c := range CallsIn(g, false) {
				h := c.Callee()
				if !c15IsHelperOf(root, h) {
					continue
				}
				e.sites[h] = append(e.sites[h], c)
				if !e.in[h] && d < c15EffDepth {
					add(h, d+1)
				}
			}
		}
	}
	add(root, 0)
	// call sites of helpers that were not entered (too deep) are of no use
	for h := range e.sites {
		if !e.in[h] {
			delete(e.sites, h)
		}
	}
	return e
}

// site: the one call site of helper f inside the effective body (nil when f is
// the root, not a helper, or called from several places).
func (e *c15Eff) site(f *ssa.Function) *CallSite {
	if cs := e.sites[f]; len(cs) == 1 && f != e.root {
		return &cs[0]
	}
	return nil
}

// resultOf: the value every return of helper h yields as result i (nil when
// the returns disagree).
func (e *c15Eff) resultOf(h *ssa.Function, i int) ssa.Value {
	var out ssa.Value
	for _, ri := range Returns(h) {
		if i >= len(ri.Results) {
			return nil
		}
		v := originValue(ri.Results[i])
		if out != nil && out != v {
			return nil
		}
		out = v
	}
	return out
}

// resolve follows v across the call boundaries of the effective body: a
// parameter of a helper with one call site is the caller's argument, a result
// of a helper call is the value the helper returns.
func (e *c15Eff) resolve(v ssa.Value) ssa.Value {
	for i := 0; i < 24 && v != nil; i++ {
		v = originValue(v)
		switch x := v.(type) {
		case *ssa.Parameter:
			f := x.Parent()
			cs := e.site(f)
			if cs == nil || !e.in[f] {
				return v
			}
			idx := c15ParamIndex(f, x)
			args := cs.Args()
			if idx < 0 || idx >= len(args) {
				return v
			}
			v = args[idx]
			continue
		case *ssa.Extract:
			if call, ok := x.Tuple.(*ssa.Call); ok {
				// (only for a helper with one call site: two calls of one
				// helper yield two values)
				if h := (CallSite{call.Parent(), call}).Callee(); h != nil && e.in[h] && h.Parent() == nil && h != e.root && e.site(h) != nil {
					if rv := e.resultOf(h, x.Index); rv != nil {
						v = rv
						continue
					}
				}
			}
		case *ssa.Call:
			if h := (CallSite{x.Parent(), x}).Callee(); h != nil && e.in[h] && h.Parent() == nil && h != e.root && e.site(h) != nil && h.Signature.Results().Len() == 1 {
				if rv := e.resultOf(h, 0); rv != nil {
					v = rv
					continue
				}
			}
		}
		return v
	}
	return v
}

func (e *c15Eff) same(a, b ssa.Value) bool { return e.resolve(a) == e.resolve(b) }

func (e *c15Eff) constInt(v ssa.Value) (int64, bool) { return ConstInt(e.resolve(v)) }

// ctxFacts: branch conditions known at block b, including those known at the
// (single) call site of b's function, transitively up to the root. Values in
// them belong to different functions: compare through resolve.
func (e *c15Eff) ctxFacts(b *ssa.BasicBlock) []CondFact {
	facts := FactsAt(b)
	f := b.Parent()
	for d := 0; d < c15EffDepth+1; d++ {
		cs := e.site(f)
		if cs == nil {
			break
		}
		facts = append(facts, FactsAt(cs.Block())...)
		f = cs.Fn
	}
	return facts
}

// c15Point: "control is at instruction idx of block blk"; needOK != nil: and
// the error result of that call (which is the instruction at idx) is nil.
type c15Point struct {
	blk    *ssa.BasicBlock
	idx    int
	needOK *ssa.Call
}

// constCond: a comparison that is decided once helper parameters are replaced
// by the constants passed for them.
func (e *c15Eff) constCond(cond ssa.Value) (known, val bool) {
	cond, flip := c15StripNot(cond, true)
	b, ok := cond.(*ssa.BinOp)
	if !ok || !c15IsCmp(b.Op) {
		return false, false
	}
	x, ok1 := e.resolve(b.X).(*ssa.Const)
	y, ok2 := e.resolve(b.Y).(*ssa.Const)
	if !ok1 || !ok2 || x.Value == nil || y.Value == nil || x.Value.Kind() != constant.Int || y.Value.Kind() != constant.Int {
		return false, false
	}
	return true, constant.Compare(x.Value, b.Op, y.Value) == flip
}

// mustPassBlocks: every feasible path from the entry of via's function to
// block target goes through block via.
func (e *c15Eff) mustPassBlocks(via, target *ssa.BasicBlock) bool {
	if via == target {
		return true
	}
	fn := via.Parent()
	seen := map[*ssa.BasicBlock]bool{}
	var walk func(b *ssa.BasicBlock) bool
	walk = func(b *ssa.BasicBlock) bool {
		if b == via || seen[b] {
			return false
		}
		seen[b] = true
		if b == target {
			return true
		}
		succs := b.Succs
		if n := len(b.Instrs); n > 0 {
			if ifi, ok := b.Instrs[n-1].(*ssa.If); ok && len(succs) == 2 {
				if k, v := e.constCond(ifi.Cond); k {
					if v {
						succs = succs[:1]
					} else {
						succs = succs[1:]
					}
				}
			}
		}
		for _, s := range succs {
			if walk(s) {
				return true
			}
		}
		return false
	}
	return !walk(fn.Blocks[0])
}

// holdsAt: point v was passed on every path to point t (same function).
func (e *c15Eff) holdsAt(v, t c15Point) bool {
	if v.blk.Parent() != t.blk.Parent() {
		return false
	}
	if v.blk == t.blk {
		if v.idx > t.idx {
			return false
		}
	} else if !e.mustPassBlocks(v.blk, t.blk) {
		return false
	}
	if v.needOK != nil {
		if v.needOK == t.blk.Instrs[t.idx] {
			return false
		}
		ok, _ := SuccessDominates(v.needOK, t.blk.Instrs[t.idx])
		return ok
	}
	return true
}

// viaChain lifts "block b was entered" to the call sites up the call chain: a
// call of helper G counts as passing b when every return of G lies behind b,
// or (needOK) when every return of G that may report success does and the
// caller is on the err == nil edge of the call.
func (e *c15Eff) viaChain(b *ssa.BasicBlock) []c15Point {
	cur := c15Point{blk: b, idx: 0}
	out := []c15Point{cur}
	for d := 0; d < c15EffDepth+1; d++ {
		g := cur.blk.Parent()
		cs := e.site(g)
		if cs == nil || cs.IsGo() || cs.IsDefer() {
			break
		}
		allOK, nilOK := true, ErrResultIndex(g) >= 0
		for _, ri := range Returns(g) {
			if !e.holdsAt(cur, c15Point{blk: ri.Ret.Block(), idx: len(ri.Ret.Block().Instrs) - 1}) {
				allOK = false
			}
		}
		if !allOK && nilOK {
			for _, nr := range MaybeNilErrorReturns(g) {
				at := nr.Ret.Block()
				if nr.From != nil {
					at = nr.From
				}
				if !e.holdsAt(cur, c15Point{blk: at, idx: len(at.Instrs) - 1}) {
					nilOK = false
				}
			}
		}
		next := c15Point{blk: cs.Block(), idx: instrIndex(cs.Instr)}
		switch {
		case allOK:
		case nilOK && cs.Value() != nil:
			next.needOK = cs.Value()
		default:
			return out
		}
		out = append(out, next)
		cur = next
	}
	return out
}

// targetChain: the points that are passed on the way to point t: t itself and
// the call sites of the enclosing helpers up to the root.
func (e *c15Eff) targetChain(t c15Point) []c15Point {
	out := []c15Point{t}
	f := t.blk.Parent()
	for d := 0; d < c15EffDepth+1; d++ {
		cs := e.site(f)
		if cs == nil {
			break
		}
		out = append(out, c15Point{blk: cs.Block(), idx: instrIndex(cs.Instr)})
		f = cs.Fn
	}
	return out
}

// mustPass: on every path from the entry of the root to point t, block via has
// been entered before (interprocedurally, over the effective body).
func (e *c15Eff) mustPass(via *ssa.BasicBlock, t c15Point) bool {
	vs := e.viaChain(via)
	for _, tp := range e.targetChain(t) {
		for _, vp := range vs {
			if e.holdsAt(vp, tp) {
				return true
			}
		}
	}
	return false
}

func c15EndOf(b *ssa.BasicBlock) c15Point { return c15Point{blk: b, idx: len(b.Instrs) - 1} }

// liftToRoot: the instructions of the root (or of its literals' triggers in
// the root) through which instruction in, somewhere in the effective body, is
// reached: in itself when it is in the root, else the calls/spawns that lead
// into the helper or literal containing it.
func (e *c15Eff) liftToRoot(in ssa.Instruction) (out []CallSite, ok bool) {
	f := in.Parent()
	if f == e.root {
		if ci, isCall := in.(ssa.CallInstruction); isCall {
			return []CallSite{{f, ci}}, true
		}
		return nil, false
	}
	seen := map[*ssa.Function]bool{}
	var up func(f *ssa.Function, d int) bool
	up = func(f *ssa.Function, d int) bool {
		if seen[f] || d > 2*c15EffDepth+4 {
			return true
		}
		seen[f] = true
		var ts []CallSite
		if f.Parent() != nil {
			ts = c15TriggersIn(f.Parent(), f)
		} else {
			ts = e.sites[f]
		}
		if len(ts) == 0 {
			return false
		}
		for _, t := range ts {
			if t.Fn == e.root {
				out = append(out, t)
				continue
			}
			if !up(t.Fn, d+1) {
				return false
			}
		}
		return true
	}
	ok = up(f, 0)
	return out, ok
}

// callPerforms: call c goes to a helper of the effective body whose every
// return that may report success lies behind a successful call satisfying
// isP (directly, or through another such helper): on the err == nil edge of c,
// P has been performed successfully. Returns c's error value.
func (e *c15Eff) callPerforms(c CallSite, isP func(CallSite) bool, depth int) (ssa.Value, bool) {
	h := c.Callee()
	if depth > c15EffDepth || c.Value() == nil || h == nil || !e.in[h] || h.Parent() != nil || h == e.root || ErrResultIndex(h) < 0 {
		return nil, false
	}
	ev, has, discarded := ErrValue(c.Value())
	if !has || discarded {
		return nil, false
	}
	type pc struct {
		call *ssa.Call
		err  ssa.Value
	}
	var ps []pc
	for _, x := range CallsIn(h, false) {
		if x.Value() == nil {
			continue
		}
		if isP(x) {
			if xe, xh, xd := ErrValue(x.Value()); xh && !xd {
				ps = append(ps, pc{x.Value(), xe})
			}
		} else if xe, ok := e.callPerforms(x, isP, depth+1); ok {
			ps = append(ps, pc{x.Value(), xe})
		}
	}
	if len(ps) == 0 {
		return nil, false
	}
	nrs := MaybeNilErrorReturns(h)
	for _, nr := range nrs {
		okRet := false
		at := nr.Ret.Block()
		if nr.From != nil {
			at = nr.From
		}
		for _, q := range ps {
			if sameOrigin(nr.Val, q.err) {
				okRet = true
			} else if ok, _ := SuccessDominates(q.call, at.Instrs[len(at.Instrs)-1]); ok {
				okRet = true
			}
		}
		if !okRet {
			return nil, false
		}
	}
	return ev, true
}

// ---------------------------------------------------------------------------
// W-cap

type c15BufUse struct {
	c    CallSite
	kind string // "write1", "reset", "read", "other"
}

// c15BufferUses classifies every call (deep) that receives the buffer cell.
func c15BufferUses(fn *ssa.Function, cell ssa.Value) []c15BufUse {
	var out []c15BufUse
	for _, c := range CallsIn(fn, true) {
		uses := false
		for _, a := range c.Args() {
			if c15Cell(a) == cell {
				uses = true
			}
		}
		if !uses {
			continue
		}
		kind := "other"
		if f := c.Callee(); f != nil && funcIs(f, "bytes", "Buffer", f.Name()) && len(c.Args()) > 0 && c15Cell(c.Args()[0]) == cell {
			switch f.Name() {
			case "WriteByte":
				kind = "write1"
			case "Reset":
				kind = "reset"
			case "String", "Len", "Bytes", "Cap", "Available":
				kind = "read"
			}
		}
		out = append(out, c15BufUse{c, kind})
	}
	return out
}

// c15MustResetBuffer: does call c (in the loop function) certainly reset the buffer cell?
func c15MustResetBuffer(c CallSite, cell ssa.Value) bool {
	f := c.Callee()
	if f == nil {
		return false
	}
	if funcIs(f, "bytes", "Buffer", "Reset") {
		return len(c.Args()) > 0 && c15Cell(c.Args()[0]) == cell
	}
	if len(f.Blocks) == 0 {
		return false
	}
	for _, u := range c15BufferUses(f, cell) {
		if u.kind != "reset" || u.c.Fn != f {
			continue
		}
		all := true
		for _, ri := range Returns(f) {
			rb := ri.Ret.Block()
			if !(u.c.Block() == rb || u.c.Block().Dominates(rb)) {
				all = false
			}
		}
		if all {
			return true
		}
	}
	return false
}

// c15Bound: an upper bound for value x (= phi+1 when viaPhi) implied by facts.
// neqK >= 0 marks a bound that rests on `x != K` alone (valid only by the
// step-by-one argument, checked by the caller).
type c15Bound struct {
	ok   bool
	max  int64
	neqK int64
	how  string
}

func c15UpperBound(facts []CondFact, x ssa.Value, phi *ssa.Phi) c15Bound {
	best := c15Bound{neqK: -1}
	consider := func(m int64, neq int64, how string) {
		if !best.ok || (best.neqK >= 0 && neq < 0) || ((best.neqK >= 0) == (neq >= 0) && m < best.max) {
			best = c15Bound{true, m, neq, how}
		}
	}
	for _, f := range facts {
		cond, val := c15StripNot(f.Cond, f.Val)
		b, ok := cond.(*ssa.BinOp)
		if !ok {
			continue
		}
		side := func(v ssa.Value) (off int64, ok bool) {
			for {
				if cv, isConv := v.(*ssa.Convert); isConv {
					v = cv.X
					continue
				}
				if ct, isCT := v.(*ssa.ChangeType); isCT {
					v = ct.X
					continue
				}
				break
			}
			if v == x {
				return 0, true
			}
			if phi != nil && v == ssa.Value(phi) {
				return 1, true
			}
			return 0, false
		}
		op := b.Op
		var off, k int64
		if o, ok1 := side(b.X); ok1 {
			kv, ok2 := ConstInt(b.Y)
			if !ok2 {
				continue
			}
			off, k = o, kv
		} else if o, ok1 := side(b.Y); ok1 {
			kv, ok2 := ConstInt(b.X)
			if !ok2 {
				continue
			}
			off, k = o, kv
			switch op { // K op v  ==>  v op' K
			case token.LSS:
				op = token.GTR
			case token.LEQ:
				op = token.GEQ
			case token.GTR:
				op = token.LSS
			case token.GEQ:
				op = token.LEQ
			}
		} else {
			continue
		}
		how := fmt.Sprintf("%s %s %d is %v", map[int64]string{0: "counter", 1: "counter-before-increment"}[off], op, k, val)
		switch {
		case op == token.LSS && val, op == token.GEQ && !val:
			consider(k-1+off, -1, how)
		case op == token.LEQ && val, op == token.GTR && !val:
			consider(k+off, -1, how)
		case op == token.EQL && val, op == token.NEQ && !val:
			consider(k+off, -1, how)
		case op == token.EQL && !val, op == token.NEQ && val:
			consider(k-1+off, k+off, how)
		}
	}
	return best
}

func c15RuleWCap(p *Program, r *Reporter) {
	const rule = "W-cap"
	fn := p.Func("pkg/schema", "", "writeFileChunks")
	upStr := p.Func("pkg/schema", "", "uploadString")
	key := FuncKey(fn)
	declared := c15ConstVal(p, "pkg/schema", "maxBlobSize")
	hard := c15ConstVal(p, "pkg/constants", "MaxBlobSize")
	n := 0
	defer func() { r.Analysed("chunk_cap_obligations", n); r.Floor(rule, 5) }()

	// (1) the uploads of chunk bytes and the buffer they come from
	var bufCell ssa.Value
	uploads := FindCalls(fn, true, func(c CallSite) bool { return c.Callee() == upStr })
	if len(uploads) == 0 {
		r.Undecided(rule, key+"#chunk-upload", p.Pos(fn.Pos()), "no call of uploadString in writeFileChunks or its literals: cannot tell which bytes become a chunk")
		return
	}
	for _, u := range uploads {
		n++
		construct := key + "#chunk-upload"
		args := u.Args()
		payload, ok := originValue(args[len(args)-1]).(*ssa.Call)
		if !ok || !(CallSite{payload.Parent(), payload}).IsStatic("bytes", "Buffer", "String") {
			r.Undecided(rule, construct, p.Pos(u.Pos()), "the string passed to uploadString is not the result of (*bytes.Buffer).String: cannot bound its length")
			continue
		}
		cell := c15Cell(payload.Call.Args[0])
		if bufCell != nil && bufCell != cell {
			r.Undecided(rule, construct, p.Pos(u.Pos()), "chunks are taken from more than one buffer")
			continue
		}
		bufCell = cell
		// payload taken before the buffer is reset in the same function
		bad := ""
		for _, bu := range c15BufferUses(payload.Parent(), cell) {
			if bu.kind == "reset" && bu.c.Fn == payload.Parent() && !Precedes(payload, bu.c.Instr) {
				bad = fmt.Sprintf("buffer Reset at line %d is not after the String() call that takes the chunk: the uploaded chunk would not be the accumulated bytes", c15Line(p, bu.c.Pos()))
			}
		}
		// ref = hash of the same string
		refArg := args[len(args)-2]
		rc, isCall := originValue(refArg).(*ssa.Call)
		if bad == "" && (!isCall || !(CallSite{rc.Parent(), rc}).IsStatic("perkeep.org/pkg/blob", "", "RefFromString") || originValue(rc.Call.Args[0]) != ssa.Value(payload)) {
			bad = "the blobref passed to uploadString is not blob.RefFromString of the uploaded string"
		}
		// the ref recorded in the span tree is that ref
		if bad == "" {
			stored := false
			for _, b := range rc.Parent().Blocks {
				for _, in := range b.Instrs {
					if st, ok := in.(*ssa.Store); ok && originValue(st.Val) == ssa.Value(rc) {
						if fa, ok := st.Addr.(*ssa.FieldAddr); ok && fieldName(fa.X.Type(), fa.Field) == "br" {
							stored = true
						}
					}
				}
			}
			if !stored {
				bad = "the blobref of the uploaded chunk is not the one stored in the span (field br): the file schema would reference a different blob"
			}
		}
		r.Check(bad == "", rule, construct, p.Pos(u.Pos()),
			"payload = buf.String() taken before buf.Reset(); ref = RefFromString(payload); the same ref is stored in span.br", bad)
	}
	if bufCell == nil {
		return
	}

	// (2) writes to the buffer: exactly one byte per write call
	var writes []CallSite
	for _, bu := range c15BufferUses(fn, bufCell) {
		switch bu.kind {
		case "write1":
			writes = append(writes, bu.c)
		case "other":
			n++
			r.Undecided(rule, key+"#buffer-use:"+bu.c.CalleeKey(), p.Pos(bu.c.Pos()), "the chunk buffer is handed to "+bu.c.CalleeKey()+": its growth is not tracked by the analysis")
		}
	}
	if len(writes) != 1 || writes[0].Fn != fn {
		n++
		r.Undecided(rule, key+"#buffer-write", p.Pos(fn.Pos()), fmt.Sprintf("expected exactly one WriteByte on the chunk buffer in the read loop, found %d", len(writes)))
		return
	}
	w := writes[0]

	// (3) counter candidates: phi P in a loop header dominating w, X = P + 1 paired with w
	type cand struct {
		phi *ssa.Phi
		inc *ssa.BinOp
	}
	var cands []cand
	for _, b := range fn.Blocks {
		for _, in := range b.Instrs {
			bo, ok := in.(*ssa.BinOp)
			if !ok || bo.Op != token.ADD {
				continue
			}
			ph, ok := bo.X.(*ssa.Phi)
			if !ok {
				continue
			}
			if k, ok := ConstInt(bo.Y); !ok || k != 1 {
				continue
			}
			if !(ph.Block().Dominates(w.Block()) && c15Reaches(w.Block(), ph.Block())) {
				continue
			}
			if !c15Paired(bo, w.Instr, ph.Block()) {
				continue
			}
			cands = append(cands, cand{ph, bo})
		}
	}
	type edgeRes struct {
		construct, site, okDetail, badDetail string
		undecided                            bool
	}
	eval := func(c cand) (res []edgeRes, maxLen int64, good bool) {
		hdr := c.phi.Block()
		good = true
		var M int64 = -1
		type neqUse struct {
			k   int64
			idx int
		}
		var neqs []neqUse
		nr, rs := 0, 0
		for i, e := range c.phi.Edges {
			pred := hdr.Preds[i]
			site := p.Pos(c15BlockPos(pred, c.phi.Pos()))
			if !hdr.Dominates(pred) { // loop entry
				k, ok := ConstInt(e)
				if !ok {
					res = append(res, edgeRes{key + "#counter-entry", p.Pos(c.phi.Pos()), "", "the counter does not start from a constant", true})
					good = false
					continue
				}
				if k > M {
					M = k
				}
				continue
			}
			switch {
			case e == ssa.Value(c.phi):
				// unchanged: nothing to show
			case e == ssa.Value(c.inc):
				nr++
				construct := fmt.Sprintf("%s#noreset-backedge-%d", key, nr)
				ub := c15UpperBound(c15EdgeFacts(pred, hdr), c.inc, c.phi)
				if !ub.ok {
					res = append(res, edgeRes{construct, site, "", fmt.Sprintf("the loop is continued (line %d) with the chunk-length counter #%s incremented and not reset, and no comparison of the counter with a constant dominates this edge: the 'do not split' path is taken before the hard cap is tested, so a chunk can grow past the limit", c15Line(p, c15BlockPos(pred, c.phi.Pos())), c.phi.Comment), false})
					good = false
					continue
				}
				if ub.neqK >= 0 {
					neqs = append(neqs, neqUse{ub.neqK, len(res)})
				}
				if ub.max > M {
					M = ub.max
				}
				res = append(res, edgeRes{construct, site, fmt.Sprintf("continue without reset only where %s (counter <= %d on this edge)", ub.how, ub.max), "", false})
			default:
				k, ok := ConstInt(e)
				if !ok {
					res = append(res, edgeRes{fmt.Sprintf("%s#backedge-other-%d", key, i), site, "", "the counter takes a value on this back edge that the analysis cannot bound", true})
					good = false
					continue
				}
				rs++
				construct := fmt.Sprintf("%s#reset-backedge-%d", key, rs)
				okReset := false
				for _, z := range CallsIn(fn, false) {
					if c15MustResetBuffer(z, bufCell) && Precedes(w.Instr, z.Instr) && (z.Block() == pred || z.Block().Dominates(pred)) {
						okReset = true
					}
				}
				if k > M {
					M = k
				}
				if k < 0 || !okReset {
					res = append(res, edgeRes{construct, site, "", fmt.Sprintf("the counter is set to %d on this back edge but no Reset of the chunk buffer (direct or through a literal that always resets it) lies between the write and this edge: counter and buffer length diverge, the cap no longer bounds the chunk", k), false})
					good = false
					continue
				}
				res = append(res, edgeRes{construct, site, fmt.Sprintf("counter reset to %d only after the chunk buffer was Reset (uploadLastSpan)", k), "", false})
			}
		}
		for _, nq := range neqs {
			if nq.k-1 != M {
				res[nq.idx].badDetail = fmt.Sprintf("the edge is guarded only by counter != %d but the counter can reach %d elsewhere: an equality test can be stepped over", nq.k, M+1)
				res[nq.idx].okDetail = ""
				good = false
			}
		}
		if nr == 0 {
			good = false
		}
		return res, M + 1, good
	}
	var chosen *cand
	var chosenRes []edgeRes
	var chosenLen int64
	var failed []string
	for i := range cands {
		res, ml, good := eval(cands[i])
		if good {
			if chosen == nil || ml < chosenLen {
				chosen, chosenRes, chosenLen = &cands[i], res, ml
			}
			continue
		}
		for _, e := range res {
			if e.okDetail == "" {
				failed = append(failed, "#"+cands[i].phi.Comment+": "+e.badDetail)
			}
		}
	}
	if chosen == nil {
		// report the failing edges of the candidate that has a reset edge (the
		// chunk-length counter), else of all candidates
		reported := false
		for i := range cands {
			hasReset := false
			for j, e := range cands[i].phi.Edges {
				if _, isC := e.(*ssa.Const); isC && cands[i].phi.Block().Dominates(cands[i].phi.Block().Preds[j]) {
					hasReset = true
				}
			}
			if !hasReset && len(cands) > 1 {
				continue
			}
			res, _, _ := eval(cands[i])
			for _, e := range res {
				if e.okDetail != "" {
					continue
				}
				n++
				reported = true
				if e.undecided {
					r.Undecided(rule, e.construct, e.site, e.badDetail)
				} else {
					r.Violation(rule, e.construct, e.site, e.badDetail)
				}
			}
		}
		if !reported {
			n++
			r.Violation(rule, key+"#chunk-length-counter", p.Pos(w.Pos()),
				"no integer counter that is incremented with every byte written to the chunk buffer, reset with the buffer, and compared with a constant on every way round the loop: chunk length is not bounded. "+strings.Join(failed, "; "))
		}
		return
	}
	for _, e := range chosenRes {
		n++
		if e.okDetail != "" {
			r.OK(rule, e.construct, e.site, e.okDetail)
		} else if e.undecided {
			r.Undecided(rule, e.construct, e.site, e.badDetail)
		} else {
			r.Violation(rule, e.construct, e.site, e.badDetail)
		}
	}
	n++
	r.OK(rule, key+"#counter-tracks-buffer", p.Pos(w.Pos()),
		fmt.Sprintf("counter #%s is incremented by 1 exactly when one byte is written to the chunk buffer (paired in every pass of the loop)", chosen.phi.Comment))
	// (4) limits
	n++
	lenV := constant.MakeInt64(chosenLen)
	switch {
	case !constant.Compare(lenV, token.LEQ, declared):
		r.Violation(rule, key+"#max-chunk-length", p.Pos(chosen.inc.Pos()),
			fmt.Sprintf("the comparisons on the loop's back edges allow a chunk of %d bytes, more than schema.maxBlobSize = %s", chosenLen, declared))
	case !constant.Compare(declared, token.LEQ, hard):
		r.Violation(rule, key+"#max-chunk-length", p.Pos(chosen.inc.Pos()),
			fmt.Sprintf("schema.maxBlobSize = %s exceeds constants.MaxBlobSize = %s: every blob server refuses such a chunk", declared, hard))
	default:
		r.OK(rule, key+"#max-chunk-length", p.Pos(chosen.inc.Pos()),
			fmt.Sprintf("maximal chunk length derived from the back-edge facts = %d <= schema.maxBlobSize = %s <= constants.MaxBlobSize = %s", chosenLen, declared, hard))
	}
}

// ---------------------------------------------------------------------------
// W-parts-first

func c15RulePartsFirst(p *Program, r *Reporter) {
	const rule = "W-parts-first"
	n := 0
	n += c15UploadAfterParts(p, r, rule)
	n += c15GetJoins(p, r, rule)
	n += c15FuturesOwned(p, r, rule)
	n += c15ChunksJoined(p, r, rule)
	r.Analysed("parts_first_obligations", n)
	r.Floor(rule, 14)
}

func c15ParamOfType(fn *ssa.Function, typeName string) *ssa.Parameter {
	for _, prm := range fn.Params {
		if nt := NamedOf(prm.Type()); nt != nil && nt.Obj().Name() == typeName && nt.Obj().Pkg() == fn.Pkg.Pkg {
			return prm
		}
	}
	brokenf("anchor unresolved: parameter of type %s in %s", typeName, FuncKey(fn))
	return nil
}

func c15ParamIndex(fn *ssa.Function, prm *ssa.Parameter) int {
	for i, q := range fn.Params {
		if q == prm {
			return i
		}
	}
	return -1
}

// c15IsBlobUploader: calls that store a blob.
func c15IsBlobUploader(c CallSite, upStr *ssa.Function) bool {
	if c.Callee() == upStr {
		return true
	}
	if f := c.Callee(); f != nil && f.Pkg != nil && f.Pkg.Pkg.Path() == "perkeep.org/pkg/blobserver" && strings.HasPrefix(f.Name(), "Receive") {
		return true
	}
	return c.Common().IsInvoke() && c.MethodName() == "ReceiveBlob"
}

// (a) uploadBytes: own JSON only after the children were stored
func c15UploadAfterParts(p *Program, r *Reporter, rule string) int {
	fn := p.Func("pkg/schema", "", "uploadBytes")
	getFn := p.Func("pkg/schema", "uploadBytesFuture", "Get")
	addFn := p.Func("pkg/schema", "", "addBytesParts")
	upStr := p.Func("pkg/schema", "", "uploadString")
	typeFn := p.Func("pkg/schema", "Builder", "Type")
	typeFile := c15ConstVal(p, "pkg/schema", "TypeFile")
	bb := c15ParamOfType(fn, "Builder")
	parentIdx := c15ParamIndex(addFn, c15ParamOfType(addFn, "uploadBytesFuture"))
	key := FuncKey(fn)

	// the effective body: uploadBytes plus the unexported helpers it calls (the
	// wait for the children, or the start of the upload, may have been split off)
	eff := c15Effective(fn)
	// futures that collect the children
	var parents []ssa.Value
	for _, f := range eff.decl {
		if f == addFn {
			continue
		}
		for _, c := range CallsIn(f, false) {
			if c.Callee() == addFn {
				parents = append(parents, c.Args()[parentIdx])
			}
		}
	}
	isParentGet := func(c CallSite) bool {
		if c.Callee() != getFn || c.Value() == nil {
			return false
		}
		for _, pa := range parents {
			if sameOrigin(c.Args()[0], pa) || eff.resolve(c.Args()[0]) == eff.resolve(pa) || sameOrigin(eff.resolve(c.Args()[0]), eff.resolve(pa)) {
				return true
			}
		}
		return false
	}
	// error values of Get() on such a future, or of a helper that reports success
	// only after such a Get() succeeded
	var joinErrs []ssa.Value
	for _, c := range CallsIn(fn, false) {
		if isParentGet(c) {
			if ev, has, discarded := ErrValue(c.Value()); has && !discarded {
				joinErrs = append(joinErrs, ev)
			}
			continue
		}
		if ev, ok := eff.callPerforms(c, isParentGet, 0); ok {
			joinErrs = append(joinErrs, ev)
		}
	}
	// triggers of the upload of bb's own JSON
	var isBBd func(d int) func(v ssa.Value) bool
	isBBd = func(d int) func(v ssa.Value) bool {
		return func(v ssa.Value) bool {
			if v == ssa.Value(bb) {
				return true
			}
			// a helper's parameter: the argument of any of its call sites
			if prm, ok := v.(*ssa.Parameter); ok && prm.Parent() != fn && d < c15EffDepth {
				idx := c15ParamIndex(prm.Parent(), prm)
				for _, cs := range eff.sites[prm.Parent()] {
					if args := cs.Args(); idx >= 0 && idx < len(args) && DependsOn(args[idx], isBBd(d+1)) {
						return true
					}
				}
			}
			return false
		}
	}
	isBB := isBBd(0)
	triggers := map[ssa.Instruction]CallSite{}
	var candCalls []CallSite
	for _, f := range eff.funcs {
		if f == addFn || TopFunc(f) == addFn {
			continue // the children's own uploads
		}
		candCalls = append(candCalls, CallsIn(f, false)...)
	}
	for _, c := range candCalls {
		if !c15IsBlobUploader(c, upStr) {
			continue
		}
		dep := false
		for _, a := range c.Args() {
			if DependsOn(a, isBB) {
				dep = true
			}
		}
		if !dep {
			continue
		}
		if c.Fn == fn {
			triggers[c.Instr] = c
			continue
		}
		ts, ok := eff.liftToRoot(c.Instr)
		if !ok || len(ts) == 0 {
			r.Undecided(rule, key+"#own-schema-upload", p.Pos(c.Pos()), "the literal or helper that uploads the builder's JSON is not called or spawned from uploadBytes in a way the analysis follows: cannot order it against the children")
			return 1
		}
		for _, t := range ts {
			triggers[t.Instr] = t
		}
	}
	typeCond := func(cond ssa.Value, val bool) (known, isFile bool) {
		cond, val = c15StripNot(cond, val)
		b, ok := cond.(*ssa.BinOp)
		if !ok || (b.Op != token.EQL && b.Op != token.NEQ) {
			return false, false
		}
		isTypeCall := func(v ssa.Value) bool {
			c, ok := originValue(v).(*ssa.Call)
			return ok && c.Call.StaticCallee() == typeFn && len(c.Call.Args) > 0 && sameOrigin(c.Call.Args[0], bb)
		}
		isFileConst := func(v ssa.Value) bool {
			c, ok := v.(*ssa.Const)
			return ok && c.Value != nil && c.Value.Kind() == constant.String && constant.Compare(c.Value, token.EQL, typeFile)
		}
		if !(isTypeCall(b.X) && isFileConst(b.Y) || isTypeCall(b.Y) && isFileConst(b.X)) {
			return false, false
		}
		return true, (b.Op == token.EQL) == val
	}
	joinCond := func(cond ssa.Value, val bool) bool {
		for _, ev := range joinErrs {
			if k, isNil := condSaysNil(cond, val, ev); k && isNil {
				return true
			}
		}
		return false
	}
	// edge-sensitive search: state = (block, file: 0 unknown / 1 yes / 2 no, joined)
	type state struct {
		b      *ssa.BasicBlock
		file   int
		joined bool
	}
	badAt := map[ssa.Instruction]string{}
	seen := map[state]bool{}
	var walk func(s state, via []int)
	walk = func(s state, via []int) {
		if seen[s] {
			return
		}
		seen[s] = true
		via = append(via, s.b.Index)
		for _, in := range s.b.Instrs {
			if _, isT := triggers[in]; isT && s.file != 2 && !s.joined {
				if _, have := badAt[in]; !have {
					badAt[in] = fmt.Sprintf("path through blocks %v reaches the upload of the builder's own JSON with type possibly \"file\" and without having passed Get() on the children's future with err == nil: the file schema blob can be stored before (or although not all of) its parts are stored", via)
				}
			}
		}
		nI := len(s.b.Instrs)
		ifi, isIf := s.b.Instrs[nI-1].(*ssa.If)
		for i, succ := range s.b.Succs {
			ns := state{succ, s.file, s.joined}
			if isIf && len(s.b.Succs) == 2 && s.b.Succs[0] != s.b.Succs[1] {
				val := i == 0
				if k, isFile := typeCond(ifi.Cond, val); k {
					if s.file == 1 && !isFile || s.file == 2 && isFile {
						continue // contradicts what the path already knows
					}
					if isFile {
						ns.file = 1
					} else {
						ns.file = 2
					}
				}
				if joinCond(ifi.Cond, val) {
					ns.joined = true
				}
			}
			walk(ns, via)
		}
	}
	walk(state{fn.Blocks[0], 0, false}, nil)
	n := 0
	var keys []ssa.Instruction
	for in := range triggers {
		keys = append(keys, in)
	}
	sort.Slice(keys, func(i, j int) bool { return keys[i].Pos() < keys[j].Pos() })
	for _, in := range keys {
		n++
		t := triggers[in]
		r.Check(badAt[in] == "", rule, key+"#own-schema-upload", p.Pos(t.Pos()),
			"every path with type==\"file\" (or type untested) reaches this upload only over the err==nil edge of Get() on the future passed to addBytesParts", badAt[in])
	}
	return n
}

// (b) Get joins all children and returns a child's error
func c15GetJoins(p *Program, r *Reporter, rule string) int {
	getFn := p.Func("pkg/schema", "uploadBytesFuture", "Get")
	key := FuncKey(getFn)
	recv := getFn.Params[0]
	// recursive Get on elements of recv.children inside a loop
	var rec *ssa.Call
	for _, c := range CallsIn(getFn, false) {
		if c.Callee() != getFn || c.Value() == nil {
			continue
		}
		fromChildren := DependsOn(c.Args()[0], func(v ssa.Value) bool {
			fa, ok := v.(*ssa.FieldAddr)
			return ok && fa.X == ssa.Value(recv) && fieldName(fa.X.Type(), fa.Field) == "children"
		})
		if fromChildren && inLoop(c.Block()) {
			rec = c.Value()
		}
	}
	if rec == nil {
		r.Violation(rule, key+"#children-joined", p.Pos(getFn.Pos()), "Get does not call Get on each element of f.children in a loop: a future reports done while its children's uploads are still running or failed")
		return 1
	}
	ev, _, discarded := ErrValue(rec)
	okErr := false
	if !discarded {
		for _, ri := range Returns(getFn) {
			e := ri.Results[len(ri.Results)-1]
			if sameOrigin(e, ev) {
				if k, isNil := NilFact(ri.Ret.Block(), ev); k && !isNil {
					okErr = true
				}
			}
		}
	}
	r.Check(okErr, rule, key+"#child-error-returned", p.Pos(rec.Pos()),
		"the error of a child's Get is returned on its err != nil edge", "the error of a child's Get() is dropped: a failed part upload does not fail the file")
	// the final receive from f.errc (own result) must come after the loop: every
	// maybe-nil return is not inside the loop and is dominated by the loop header
	okOrder := true
	cnt := 0
	for _, nr := range MaybeNilErrorReturns(getFn) {
		cnt++
		if !Precedes(rec.Block().Idom().Instrs[0], nr.Ret) || c15Reaches(nr.Ret.Block(), rec.Block()) {
			okOrder = false
		}
		// the loop must have run to completion: the return is not reachable from
		// the loop body except through the loop's own exit test
		for _, s := range rec.Block().Succs {
			if s == nr.Ret.Block() {
				okOrder = false
			}
		}
	}
	r.Check(okOrder && cnt > 0, rule, key+"#children-joined", p.Pos(rec.Pos()),
		"a possibly-nil error is returned only after the loop over f.children has finished", "Get can return a nil error without having waited for all children")
	return 2
}

// (c) every future produced by uploadBytes / filled by addBytesParts is waited for, attached or returned
func c15FuturesOwned(p *Program, r *Reporter, rule string) int {
	upFn := p.Func("pkg/schema", "", "uploadBytes")
	addFn := p.Func("pkg/schema", "", "addBytesParts")
	getFn := p.Func("pkg/schema", "uploadBytesFuture", "Get")
	parentPrm := c15ParamOfType(addFn, "uploadBytesFuture")
	parentIdx := c15ParamIndex(addFn, parentPrm)
	n := 0
	// consumed: v (a *uploadBytesFuture) reaches Get's receiver, a return, or an append into a children field
	consumed := func(fn *ssa.Function, v ssa.Value) (how string, successGuard *ssa.Call) {
		for _, c := range CallsIn(fn, false) {
			if c.Callee() == getFn && sameOrigin(c.Args()[0], v) {
				return "Get() is called on it", c.Value()
			}
		}
		// handed to an unexported helper that reports success only after Get() on it succeeded
		eff := c15Effective(fn)
		for _, c := range CallsIn(fn, false) {
			h := c.Callee()
			if h == nil || !eff.in[h] || h.Parent() != nil || h == fn || c.Value() == nil {
				continue
			}
			for i, a := range c.Args() {
				if !sameOrigin(a, v) || i >= len(h.Params) {
					continue
				}
				prm := h.Params[i]
				isGet := func(x CallSite) bool { return x.Callee() == getFn && x.Value() != nil && sameOrigin(x.Args()[0], prm) }
				if _, ok := eff.callPerforms(c, isGet, 0); ok {
					return "Get() is called on it by " + h.Name() + ", whose error reports the outcome", c.Value()
				}
			}
		}
		for _, ri := range Returns(fn) {
			for _, res := range ri.Results {
				if sameOrigin(res, v) {
					return "returned to the caller", nil
				}
			}
		}
		// append(parent.children, v) stored back to a children field
		for _, b := range fn.Blocks {
			for _, in := range b.Instrs {
				st, ok := in.(*ssa.Store)
				if !ok {
					continue
				}
				fa, ok := st.Addr.(*ssa.FieldAddr)
				if !ok || fieldName(fa.X.Type(), fa.Field) != "children" || NamedOf(fa.X.Type()) == nil || NamedOf(fa.X.Type()).Obj().Name() != "uploadBytesFuture" {
					continue
				}
				if c15SliceDepends(st.Val, v) {
					return "appended to " + AccessPath(fa.X) + ".children", nil
				}
			}
		}
		return "", nil
	}
	for _, c := range p.StaticCallers(upFn) {
		if IsTestSupportPkg(RelPkg(c.Fn.Pkg.Pkg)) {
			continue
		}
		n++
		construct := FuncKey(c.Fn) + "#future-of-uploadBytes"
		if c.Value() == nil {
			r.Violation(rule, construct, p.Pos(c.Pos()), "uploadBytes is started with go/defer: its future is lost")
			continue
		}
		how, _ := consumed(c.Fn, c.Value())
		r.Check(how != "", rule, construct, p.Pos(c.Pos()), "the future returned by uploadBytes is owned: "+how,
			"the future returned by uploadBytes is neither waited for (Get), nor attached to a parent's children, nor returned: the upload of these parts (and its error) is never joined, a file blob can be stored while parts are missing")
	}
	for _, c := range p.StaticCallers(addFn) {
		if IsTestSupportPkg(RelPkg(c.Fn.Pkg.Pkg)) || c.Value() == nil {
			continue
		}
		n++
		construct := FuncKey(c.Fn) + "#parent-of-addBytesParts"
		how, guard := consumed(c.Fn, c.Args()[parentIdx])
		if how == "" {
			r.Violation(rule, construct, p.Pos(c.Pos()), "the future that addBytesParts fills with the children's futures is neither waited for, attached, nor returned")
			continue
		}
		// when the function itself joins and has an error result, every maybe-nil return after the call must be behind Get's err==nil
		if guard != nil && ErrResultIndex(c.Fn) >= 0 && c.Fn != upFn {
			bad := ""
			for _, nr := range MaybeNilErrorReturns(c.Fn) {
				if !ReachableFrom(c.Instr, nil)[nr.Ret] {
					continue
				}
				gev, _, _ := ErrValue(guard)
				if gev != nil && sameOrigin(nr.Val, gev) {
					continue
				}
				last := nr.From.Instrs[len(nr.From.Instrs)-1]
				if ok, why := SuccessDominates(guard, last); !ok {
					bad = fmt.Sprintf("return at line %d may report success although Get() on the children's future did not succeed (%s)", c15Line(p, nr.Ret.Pos()), why)
				}
			}
			r.Check(bad == "", rule, construct, p.Pos(c.Pos()), "the children's future is owned ("+how+") and success is returned only on Get's err==nil edge", bad)
			continue
		}
		r.OK(rule, construct, p.Pos(c.Pos()), "the children's future is owned: "+how)
	}
	return n
}

// c15SliceDepends: does v (an append result etc.) contain value x? Follows
// append varargs through their backing array stores.
func c15SliceDepends(v, x ssa.Value) bool {
	seen := map[ssa.Value]bool{}
	var walk func(v ssa.Value, d int) bool
	walk = func(v ssa.Value, d int) bool {
		if v == nil || seen[v] || d > 20 {
			return false
		}
		seen[v] = true
		if sameOrigin(v, x) {
			return true
		}
		switch t := v.(type) {
		case *ssa.Call:
			if b, ok := t.Call.Value.(*ssa.Builtin); ok && b.Name() == "append" {
				for _, a := range t.Call.Args {
					if walk(a, d+1) {
						return true
					}
				}
			}
		case *ssa.Slice:
			// slice of a varargs array: look at the stores into it
			if al, ok := t.X.(*ssa.Alloc); ok {
				for _, ref := range *al.Referrers() {
					if ia, ok := ref.(*ssa.IndexAddr); ok {
						for _, u := range *ia.Referrers() {
							if st, ok := u.(*ssa.Store); ok && st.Addr == ssa.Value(ia) && walk(st.Val, d+1) {
								return true
							}
						}
					}
				}
			}
		case *ssa.Phi:
			for _, e := range t.Edges {
				if walk(e, d+1) {
					return true
				}
			}
		}
		return false
	}
	return walk(v, 0)
}

// (d) writeFileChunks: success only after all chunk uploads were joined without error
func c15ChunksJoined(p *Program, r *Reporter, rule string) int {
	fn := p.Func("pkg/schema", "", "writeFileChunks")
	upStr := p.Func("pkg/schema", "", "uploadString")
	key := FuncKey(fn)
	// the effective body: writeFileChunks, the unexported helpers it calls
	// (the tail that joins the uploads may have been split off), and their literals
	eff := c15Effective(fn)
	var all []*ssa.Function
	for _, f := range eff.funcs {
		if f != upStr && TopFunc(f) != upStr {
			all = append(all, f)
		}
	}
	n := 0

	// upload goroutines: literals started with `go` that (deep) call the uploader
	type spawn struct {
		site   CallSite
		worker *ssa.Function
	}
	var spawns []spawn
	for _, f := range all {
		for _, c := range CallsIn(f, false) {
			for _, lit := range spawnedClosures(c) {
				if len(FindCalls(lit, true, func(x CallSite) bool { return c15IsBlobUploader(x, upStr) })) > 0 {
					spawns = append(spawns, spawn{c, lit})
				}
			}
		}
	}
	if len(spawns) == 0 {
		r.Undecided(rule, key+"#chunk-upload-goroutine", p.Pos(fn.Pos()), "no goroutine that uploads a chunk found in writeFileChunks: the join discipline cannot be checked")
		return 1
	}
	// the error channel(s) the workers report into, and non-nil-ness of what is sent
	errChans := map[ssa.Value]bool{}
	sendsNonNil := true
	sendBad := ""
	for _, sp := range spawns {
		for _, f := range c15AllFuncs(sp.worker) {
			for _, b := range f.Blocks {
				for _, in := range b.Instrs {
					var ch, val ssa.Value
					switch x := in.(type) {
					case *ssa.Send:
						ch, val = x.Chan, x.X
					case *ssa.Select:
						for _, st := range x.States {
							if st.Dir == types.SendOnly {
								ch, val = st.Chan, st.Send
							}
						}
					}
					if ch == nil || !isErrorType(val.Type()) {
						continue
					}
					errChans[eff.resolve(ch)] = true
					if k, isNil := NilFact(b, val); !(k && !isNil) {
						sendsNonNil = false
						sendBad = fmt.Sprintf("value sent at line %d is not known non-nil", c15Line(p, in.Pos()))
					}
				}
			}
		}
	}
	if len(errChans) != 1 {
		r.Undecided(rule, key+"#chunk-error-channel", p.Pos(fn.Pos()), fmt.Sprintf("upload goroutines report errors into %d channels; expected exactly one", len(errChans)))
		return 1
	}
	var errChan ssa.Value
	for c := range errChans {
		errChan = c
	}
	n++
	r.Check(sendsNonNil, rule, key+"#chunk-error-channel", p.Pos(errChan.Pos()),
		"only errors known non-nil are sent into the channel the upload goroutines report into", "a possibly nil value is sent into the error channel ("+sendBad+"): a receive from it does not imply failure")

	// non-blocking receives from that channel; recvVal = the received error
	type recvSel struct {
		sel  *ssa.Select
		idx  *ssa.Extract
		val  *ssa.Extract
		only bool
	}
	var recvs []recvSel
	for _, f := range all {
		for _, b := range f.Blocks {
			for _, in := range b.Instrs {
				sel, ok := in.(*ssa.Select)
				if !ok || sel.Blocking {
					continue
				}
				k := 0
				for _, st := range sel.States {
					if st.Dir != types.RecvOnly {
						continue
					}
					if eff.resolve(st.Chan) == errChan {
						rs := recvSel{sel: sel, only: len(sel.States) == 1}
						for _, ref := range *sel.Referrers() {
							if ex, ok := ref.(*ssa.Extract); ok {
								if ex.Index == 0 {
									rs.idx = ex
								}
								if ex.Index == 2+k {
									rs.val = ex
								}
							}
						}
						recvs = append(recvs, rs)
					}
					k++
				}
			}
		}
	}
	isRecvVal := func(v ssa.Value) bool {
		for _, rs := range recvs {
			if rs.val != nil && originValue(v) == ssa.Value(rs.val) {
				return true
			}
		}
		return false
	}
	// emptyEdge: block b is on the 'nothing received' edge of rs
	var emptyEdge func(b *ssa.BasicBlock, rs recvSel) bool
	emptyEdge = func(b *ssa.BasicBlock, rs recvSel) bool {
		if !rs.only || rs.idx == nil {
			return false
		}
		// the poll sits in a helper: b is on the err == nil edge of a call of
		// that helper, and the helper reports success only where nothing was received
		if h := rs.sel.Parent(); h != b.Parent() && h.Parent() == nil && h != fn && ErrResultIndex(h) >= 0 {
			nrs := MaybeNilErrorReturns(h)
			okH := len(nrs) > 0
			for _, nr := range nrs {
				if isRecvVal(nr.Val) && sendsNonNil {
					continue // hands back the (non-nil) error it received
				}
				at := nr.Ret.Block()
				if nr.From != nil {
					at = nr.From
				}
				if !emptyEdge(at, rs) {
					okH = false
				}
			}
			if okH {
				for _, c := range eff.sites[h] {
					if c.Value() == nil || c.Fn != b.Parent() {
						continue
					}
					if ok, _ := SuccessDominates(c.Value(), b.Instrs[len(b.Instrs)-1]); ok {
						return true
					}
				}
			}
		}
		for _, f := range eff.ctxFacts(b) {
			cond, val := c15StripNot(f.Cond, f.Val)
			bo, ok := cond.(*ssa.BinOp)
			if !ok || bo.X != ssa.Value(rs.idx) {
				continue
			}
			k, ok := ConstInt(bo.Y)
			if !ok {
				continue
			}
			if k == 0 && (bo.Op == token.EQL && !val || bo.Op == token.NEQ && val) {
				return true
			}
			if k == -1 && (bo.Op == token.EQL && val || bo.Op == token.NEQ && !val) {
				return true
			}
		}
		return false
	}

	// the drain: Start on the gate the workers hold, in a loop with trip count == capacity
	var gate ssa.Value
	for _, sp := range spawns {
		n++
		construct := FuncKey(sp.site.Fn) + "#chunk-upload-goroutine"
		var g ssa.Value
		for _, c := range CallsIn(sp.site.Fn, false) {
			if c.IsStatic("go4.org/syncutil", "Gate", "Start") && Precedes(c.Instr, sp.site.Instr) {
				g = eff.resolve(c.Args()[0])
			}
		}
		done := false
		if g != nil {
			for _, c := range CallsIn(sp.worker, false) {
				if c.IsStatic("go4.org/syncutil", "Gate", "Done") && eff.resolve(c.Args()[0]) == g {
					done = true
				}
			}
		}
		if gate != nil && g != gate {
			g = nil
		}
		if g != nil {
			gate = g
		}
		r.Check(g != nil && done, rule, construct, p.Pos(sp.site.Pos()),
			"the upload goroutine is started after taking a token of the gate and gives it back (Done) when finished, so taking all tokens joins it",
			"the upload goroutine is not started under a token of the (one) upload gate or never returns it: draining the gate does not wait for this upload")
	}
	var drain *CallSite
	var drainHdr *ssa.BasicBlock // header of the drain loop: passing it means the loop ran its full trip count
	drainWhy := "no loop that takes all tokens of the upload gate"
	if gate != nil {
		capN := int64(-1)
		if mk, ok := gate.(*ssa.Call); ok && (CallSite{mk.Parent(), mk}).IsStatic("go4.org/syncutil", "", "NewGate") {
			if k, ok := eff.constInt(mk.Call.Args[0]); ok {
				capN = k
			}
		}
		var drainCands []CallSite
		for _, f := range eff.decl {
			if f != upStr {
				drainCands = append(drainCands, CallsIn(f, false)...)
			}
		}
		for _, c := range drainCands {
			if !c.IsStatic("go4.org/syncutil", "Gate", "Start") || eff.resolve(c.Args()[0]) != gate || !inLoop(c.Block()) {
				continue
			}
			trip, hdr, ok := c15TripCount(eff, c.Block())
			switch {
			case capN < 0:
				drainWhy = "the gate's capacity is not a constant"
			case !ok:
				drainWhy = "the trip count of the loop around gate.Start() could not be established"
			case trip != capN:
				drainWhy = fmt.Sprintf("the loop takes %d tokens but the gate has %d: uploads can still be running when it ends", trip, capN)
			case !(hdr == c.Block() || hdr.Dominates(c.Block())) || !c15StartEveryIteration(hdr, c):
				drainWhy = "gate.Start() is not executed on every iteration of the counted loop"
			default:
				cc := c
				drain, drainHdr = &cc, hdr
			}
		}
	}

	// classify every return
	outerrKnownNonNil := func(v ssa.Value, at *ssa.BasicBlock) (bool, string) {
		if isRecvVal(v) && sendsNonNil {
			return true, "error received from the upload goroutines' channel"
		}
		ld, ok := v.(*ssa.UnOp)
		if !ok || ld.Op != token.MUL {
			return false, ""
		}
		cell := c15Cell(ld.X)
		// (i) a dominating `*cell != nil` test with no call or store in between
		for _, f := range FactsAt(at) {
			cond, val := c15StripNot(f.Cond, f.Val)
			bo, ok := cond.(*ssa.BinOp)
			if !ok || !(bo.Op == token.NEQ && val || bo.Op == token.EQL && !val) || !IsNilConst(bo.Y) {
				continue
			}
			l2, ok := bo.X.(*ssa.UnOp)
			if !ok || l2.Op != token.MUL || c15Cell(l2.X) != cell {
				continue
			}
			if c15NoWriteBetween(l2, ld, cell) {
				return true, "result variable tested non-nil just before"
			}
		}
		// (ii) on the false edge of a call to a literal that returns false only
		// after storing a received error into the cell
		known, val, call := BoolCallFact(at, func(c CallSite) bool {
			lit := c.Callee()
			return lit != nil && lit.Parent() == fn && c15FalseMeansErrStored(lit, cell, isRecvVal)
		})
		if known && !val && sendsNonNil && call.Value() != nil && c15NoWriteBetween(call.Value(), ld, cell) {
			return true, "the literal reported failure, which it does only after storing an error received from the upload goroutines"
		}
		return false, ""
	}
	// the returns of the effective body: a return that hands on the results of a
	// helper (return helper(...)) is replaced by the helper's own returns
	type effRet struct {
		ri ReturnInfo
		ei int
	}
	var rets []effRet
	var expand func(g *ssa.Function, d int)
	expand = func(g *ssa.Function, d int) {
		gi := ErrResultIndex(g)
		rs := Returns(g)
		sort.Slice(rs, func(i, j int) bool { return rs[i].Ret.Pos() < rs[j].Ret.Pos() })
		for _, ri := range rs {
			var call *ssa.Call
			idx := 0
			switch x := originValue(ri.Results[gi]).(type) {
			case *ssa.Extract:
				call, _ = x.Tuple.(*ssa.Call)
				idx = x.Index
			case *ssa.Call:
				call = x
			}
			if call != nil && d < c15EffDepth {
				if h := (CallSite{call.Parent(), call}).Callee(); h != nil && h != fn && h != g && h.Parent() == nil && eff.in[h] && ErrResultIndex(h) == idx && call.Block() == ri.Ret.Block() {
					expand(h, d+1)
					continue
				}
			}
			rets = append(rets, effRet{ri, gi})
		}
	}
	expand(fn, 0)
	succ, fail := 0, 0
	for _, er := range rets {
		n++
		ri, ei := er.ri, er.ei
		e := ri.Results[ei]
		blk := ri.Ret.Block()
		if !IsNilConst(e) {
			if k, isNil := NilFact(blk, e); k && !isNil {
				fail++
				r.OK(rule, fmt.Sprintf("%s#error-return-%d", key, fail), p.Pos(ri.Ret.Pos()), "returns an error tested non-nil")
				continue
			}
			// the raw operand (load of the result variable) for the cell-based reasoning
			raw := ri.Ret.Results[ei]
			v := e
			if _, isLoad := v.(*ssa.UnOp); !isLoad {
				if _, rl := raw.(*ssa.UnOp); rl && !isRecvVal(v) {
					v = raw
				}
			}
			if ok, why := outerrKnownNonNil(v, blk); ok {
				fail++
				r.OK(rule, fmt.Sprintf("%s#error-return-%d", key, fail), p.Pos(ri.Ret.Pos()), "returns a non-nil error: "+why)
				continue
			}
		}
		succ++
		construct := fmt.Sprintf("%s#success-return-%d", key, succ)
		if drain == nil {
			r.Violation(rule, construct, p.Pos(ri.Ret.Pos()), "this return can report success (error nil or not known non-nil) but "+drainWhy+": chunk uploads may still be running or have failed")
			continue
		}
		var via *recvSel
		for i := range recvs {
			if recvs[i].sel.Parent().Parent() == nil && emptyEdge(blk, recvs[i]) {
				via = &recvs[i]
			}
		}
		switch {
		case !eff.mustPass(drainHdr, c15EndOf(blk)):
			r.Violation(rule, construct, p.Pos(ri.Ret.Pos()), "this return can report success (error nil or not known non-nil) on a path that does not pass the loop taking all tokens of the upload gate: chunk uploads may still be running, their errors are lost and the file references blobs that were never stored")
		case via == nil:
			r.Violation(rule, construct, p.Pos(ri.Ret.Pos()), "this return can report success without being on the 'nothing received' edge of a non-blocking receive from the upload goroutines' error channel: a failed chunk upload is reported as success")
		case !eff.mustPass(drainHdr, c15Point{blk: via.sel.Block(), idx: instrIndex(via.sel)}) || via.sel.Block() == drainHdr || (via.sel.Parent() == drainHdr.Parent() && c15Reaches(via.sel.Block(), drainHdr)):
			r.Violation(rule, construct, p.Pos(ri.Ret.Pos()), "the error channel is polled before all tokens of the upload gate were taken: uploads still in flight can fail after the poll")
		default:
			r.OK(rule, construct, p.Pos(ri.Ret.Pos()), "success only after the loop that takes every token of the upload gate (trip count == capacity) and then finding the error channel empty")
		}
	}
	return n
}

// c15StartEveryIteration: from the loop header every way back to the header
// passes the Start call (the body is not skipped by a condition).
func c15StartEveryIteration(hdr *ssa.BasicBlock, start CallSite) bool {
	if start.Block() == hdr {
		return true
	}
	seen := map[*ssa.BasicBlock]bool{}
	var walk func(b *ssa.BasicBlock) bool // true if hdr is re-entered avoiding start's block
	walk = func(b *ssa.BasicBlock) bool {
		for _, s := range b.Succs {
			if s == start.Block() {
				continue
			}
			if s == hdr {
				return true
			}
			if !seen[s] {
				seen[s] = true
				if walk(s) {
					return true
				}
			}
		}
		return false
	}
	return !walk(hdr)
}

// c15NoWriteBetween: from instruction a to load b (a's block dominates b's,
// single-predecessor chain) there is no call and no store to cell.
func c15NoWriteBetween(a ssa.Instruction, b ssa.Instruction, cell ssa.Value) bool {
	blk := b.Block()
	idx := instrIndex(b)
	for steps := 0; steps < 16; steps++ {
		for i := idx - 1; i >= 0; i-- {
			in := blk.Instrs[i]
			if in == a {
				return true
			}
			switch x := in.(type) {
			case ssa.CallInstruction:
				return false
			case *ssa.Store:
				if c15Cell(x.Addr) == cell {
					// a store of a value loaded from the same cell is harmless
					if l, ok := x.Val.(*ssa.UnOp); !(ok && l.Op == token.MUL && c15Cell(l.X) == cell) {
						return false
					}
				}
			}
		}
		if len(blk.Preds) != 1 {
			return false
		}
		blk = blk.Preds[0]
		idx = len(blk.Instrs)
	}
	return false
}

// c15FalseMeansErrStored: every `return false` of lit is preceded, in the same
// block, by a store of a received error into cell.
func c15FalseMeansErrStored(lit *ssa.Function, cell ssa.Value, isRecvVal func(ssa.Value) bool) bool {
	if lit.Signature.Results().Len() != 1 {
		return false
	}
	any := false
	for _, ri := range Returns(lit) {
		c, ok := ri.Results[0].(*ssa.Const)
		if !ok {
			return false // computed result: cannot tell
		}
		if c.Value == nil || c.Value.Kind() != constant.Bool || constant.BoolVal(c.Value) {
			continue
		}
		any = true
		stored := false
		for _, in := range ri.Ret.Block().Instrs {
			if st, ok := in.(*ssa.Store); ok && c15Cell(st.Addr) == cell {
				stored = isRecvVal(st.Val)
			}
		}
		if !stored {
			return false
		}
	}
	return any
}

// c15TripCount: the number of iterations of the counted loop containing block
// body: a phi P = [0, P+1] and an exit test `P < K` (before the body) or
// `P+1 < K` (rotated, after the body), K constant.
func c15TripCount(e *c15Eff, body *ssa.BasicBlock) (int64, *ssa.BasicBlock, bool) {
	fn := body.Parent()
	for _, b := range fn.Blocks {
		for _, in := range b.Instrs {
			ph, ok := in.(*ssa.Phi)
			if !ok {
				break
			}
			if !(b == body || b.Dominates(body)) || !c15Reaches(body, b) {
				continue
			}
			var inc *ssa.BinOp
			okShape := true
			for i, e := range ph.Edges {
				pred := b.Preds[i]
				if b == pred || b.Dominates(pred) {
					bo, ok := e.(*ssa.BinOp)
					if !ok || bo.Op != token.ADD || bo.X != ssa.Value(ph) {
						okShape = false
						continue
					}
					if k, ok := ConstInt(bo.Y); !ok || k != 1 {
						okShape = false
					}
					inc = bo
				} else if k, ok := ConstInt(e); !ok || k != 0 {
					okShape = false
				}
			}
			if !okShape || inc == nil {
				continue
			}
			// exit test inside the loop
			for _, lb := range fn.Blocks {
				if !(lb == b || b.Dominates(lb)) || !(lb == b || c15Reaches(lb, b)) {
					continue
				}
				ifi, ok := lb.Instrs[len(lb.Instrs)-1].(*ssa.If)
				if !ok {
					continue
				}
				bo, ok := ifi.Cond.(*ssa.BinOp)
				if !ok || bo.Op != token.LSS {
					continue
				}
				k, ok := e.constInt(bo.Y)
				if !ok {
					continue
				}
				stays := lb.Succs[0] == b || c15Reaches(lb.Succs[0], b)
				leaves := !(lb.Succs[1] == b) && !b.Dominates(lb.Succs[1]) || !c15Reaches(lb.Succs[1], b)
				if !stays || !leaves {
					continue
				}
				if bo.X == ssa.Value(ph) || bo.X == ssa.Value(inc) {
					return k, b, true
				}
			}
		}
	}
	return 0, nil, false
}

// ---------------------------------------------------------------------------
// R-bound: symbolic linear forms

type c15Lin struct {
	coef map[string]int64
	k    int64
	ok   bool
}

func (l c15Lin) String() string {
	if !l.ok {
		return "<not linear>"
	}
	var ks []string
	for a := range l.coef {
		ks = append(ks, a)
	}
	sort.Strings(ks)
	var sb strings.Builder
	for _, a := range ks {
		c := l.coef[a]
		if c == 0 {
			continue
		}
		switch {
		case c == 1:
			sb.WriteString(" + " + a)
		case c == -1:
			sb.WriteString(" - " + a)
		default:
			sb.WriteString(fmt.Sprintf(" %+d*%s", c, a))
		}
	}
	if l.k != 0 || sb.Len() == 0 {
		sb.WriteString(fmt.Sprintf(" %+d", l.k))
	}
	return strings.TrimSpace(sb.String())
}

func (l c15Lin) equals(want map[string]int64) bool {
	if !l.ok || l.k != 0 {
		return false
	}
	for a, c := range l.coef {
		if c != want[a] {
			return false
		}
	}
	for a, c := range want {
		if l.coef[a] != c {
			return false
		}
	}
	return true
}

// c15LinOf evaluates v as a linear form over atoms. atom(v) names the atoms the
// caller cares about ("" = not an atom, descend or make an opaque atom).
func c15LinOf(e *c15Eff, v ssa.Value, atom func(ssa.Value) string) c15Lin {
	var ev func(v ssa.Value, d int) c15Lin
	ev = func(v ssa.Value, d int) c15Lin {
		if d > 40 {
			return c15Lin{}
		}
		if a := atom(v); a != "" {
			return c15Lin{map[string]int64{a: 1}, 0, true}
		}
		switch v.(type) {
		case *ssa.Parameter, *ssa.Extract, *ssa.Call:
			// a helper's parameter stands for the caller's argument, a helper's
			// result for the value it returns
			if rv := e.resolve(v); rv != v {
				return ev(rv, d+1)
			}
		}
		switch x := v.(type) {
		case *ssa.Const:
			if x.Value != nil && x.Value.Kind() == constant.Int {
				if k, exact := constant.Int64Val(x.Value); exact {
					return c15Lin{map[string]int64{}, k, true}
				}
			}
		case *ssa.Convert:
			if bt, ok := x.Type().Underlying().(*types.Basic); ok && bt.Info()&types.IsInteger != 0 {
				if st, ok := x.X.Type().Underlying().(*types.Basic); ok && st.Info()&types.IsInteger != 0 {
					return ev(x.X, d+1)
				}
			}
		case *ssa.ChangeType:
			return ev(x.X, d+1)
		case *ssa.BinOp:
			if x.Op == token.ADD || x.Op == token.SUB {
				a, b := ev(x.X, d+1), ev(x.Y, d+1)
				if !a.ok || !b.ok {
					return c15Lin{}
				}
				out := c15Lin{map[string]int64{}, a.k, true}
				for n, c := range a.coef {
					out.coef[n] += c
				}
				sign := int64(1)
				if x.Op == token.SUB {
					sign = -1
				}
				out.k += sign * b.k
				for n, c := range b.coef {
					out.coef[n] += sign * c
				}
				return out
			}
		case *ssa.UnOp:
			if x.Op == token.MUL {
				if o := originValue(x); o != ssa.Value(x) {
					return ev(o, d+1)
				}
			}
		}
		return c15Lin{map[string]int64{fmt.Sprintf("?%s", v.Name()): 1}, 0, true}
	}
	return ev(v, 0)
}

// c15PartField: v is a load of field `name` of a *BytesPart that is element
// [0] of slice value s; returns s.
func c15PartField(e *c15Eff, v ssa.Value, name string) (slice ssa.Value, ok bool) {
	ld, isLoad := v.(*ssa.UnOp)
	if !isLoad || ld.Op != token.MUL {
		return nil, false
	}
	fa, isFA := ld.X.(*ssa.FieldAddr)
	if !isFA || fieldName(fa.X.Type(), fa.Field) != name {
		return nil, false
	}
	if nt := NamedOf(fa.X.Type()); nt == nil || nt.Obj().Name() != "BytesPart" || RelPkg(nt.Obj().Pkg()) != "pkg/schema" {
		return nil, false
	}
	// the part may have been handed to a helper, or hoisted into a local
	base := e.resolve(fa.X)
	if bl, ok := base.(*ssa.UnOp); ok && bl.Op == token.MUL {
		if ia, ok := bl.X.(*ssa.IndexAddr); ok {
			if k, ok := e.constInt(ia.Index); ok && k == 0 {
				return e.resolve(ia.X), true
			}
		}
	}
	return nil, false
}

// c15CmpHolds evaluates `x op y` on small integers.
func c15CmpHolds(x int64, op token.Token, y int64) bool {
	switch op {
	case token.EQL:
		return x == y
	case token.NEQ:
		return x != y
	case token.LSS:
		return x < y
	case token.LEQ:
		return x <= y
	case token.GTR:
		return x > y
	case token.GEQ:
		return x >= y
	}
	return false
}

func c15IsCmp(op token.Token) bool {
	switch op {
	case token.EQL, token.NEQ, token.LSS, token.LEQ, token.GTR, token.GEQ:
		return true
	}
	return false
}

// c15LenFacts: what facts say about len(slice): +1 non-empty, -1 empty, 0 nothing.
func c15LenFacts(e *c15Eff, facts []CondFact, slice ssa.Value) int {
	slice = e.resolve(slice)
	isLen := func(v ssa.Value) bool {
		c, ok := v.(*ssa.Call)
		if !ok {
			return false
		}
		b, ok := c.Call.Value.(*ssa.Builtin)
		return ok && b.Name() == "len" && len(c.Call.Args) == 1 && e.resolve(c.Call.Args[0]) == slice
	}
	for _, f := range facts {
		cond, val := c15StripNot(f.Cond, f.Val)
		bo, ok := cond.(*ssa.BinOp)
		if !ok || !c15IsCmp(bo.Op) {
			continue
		}
		var truth func(l int64) bool
		if k, ok := e.constInt(bo.Y); ok && isLen(bo.X) {
			truth = func(l int64) bool { return c15CmpHolds(l, bo.Op, k) }
		} else if k, ok := e.constInt(bo.X); ok && isLen(bo.Y) {
			truth = func(l int64) bool { return c15CmpHolds(k, bo.Op, l) }
		} else {
			continue
		}
		// representatives: 0 (empty) and 1, 2, 1<<40 (non-empty)
		at0 := truth(0) == val
		pos := truth(1) == val && truth(2) == val && truth(1<<40) == val
		neg := truth(1) != val && truth(2) != val && truth(1<<40) != val
		if !at0 && pos {
			return +1
		}
		if at0 && neg {
			return -1
		}
	}
	return 0
}

// c15InsideFact: do the facts imply inPartOffset (R) < Size of parts[0]?
func c15InsideFact(e *c15Eff, facts []CondFact, R ssa.Value, parts ssa.Value) bool {
	strip := func(v ssa.Value) ssa.Value {
		for {
			if cv, ok := v.(*ssa.Convert); ok {
				v = cv.X
				continue
			}
			return v
		}
	}
	parts = e.resolve(parts)
	isSize := func(v ssa.Value) bool {
		v = strip(v)
		if s, ok := c15PartField(e, v, "Size"); ok && s == parts {
			return true
		}
		s, ok := c15PartField(e, e.resolve(v), "Size")
		return ok && s == parts
	}
	isR := func(v ssa.Value) bool { return strip(v) == R || e.resolve(strip(v)) == R }
	for _, f := range facts {
		cond, val := c15StripNot(f.Cond, f.Val)
		bo, ok := cond.(*ssa.BinOp)
		if !ok || !c15IsCmp(bo.Op) {
			continue
		}
		var truth func(size, r int64) bool
		switch {
		case isSize(bo.X) && isR(bo.Y):
			truth = func(size, r int64) bool { return c15CmpHolds(size, bo.Op, r) }
		case isR(bo.X) && isSize(bo.Y):
			truth = func(size, r int64) bool { return c15CmpHolds(r, bo.Op, size) }
		default:
			continue
		}
		// the fact must hold for r < size and fail for r == size and r > size
		if truth(5, 4) == val && truth(5, 0) == val && truth(5, 5) != val && truth(5, 6) != val {
			return true
		}
	}
	return false
}

// c15PartNotExhausted: at block at, on every feasible way out of the loop that
// skips leading parts (header = R's block), R < Size(parts[0]) is known.
// Edges out of the loop that imply an empty part list are infeasible when
// `at` is known to have a non-empty list.
func c15PartNotExhausted(e *c15Eff, at *ssa.BasicBlock, R *ssa.Phi, parts ssa.Value) (bool, string) {
	ctx := e.ctxFacts(at)
	if c15InsideFact(e, ctx, R, parts) {
		return true, "dominating comparison"
	}
	hdr := R.Block()
	lf := hdr.Parent()
	inLoopBlk := func(b *ssa.BasicBlock) bool {
		return (b == hdr || hdr.Dominates(b)) && (b == hdr || c15Reaches(b, hdr))
	}
	// the blocks of the loop's function through which the reader is reached:
	// the reader's own block (or the call leading to it) when the loop is in an
	// enclosing function, the returns of the loop's function when the loop was
	// moved into a helper that is called before the reader is built
	chain := e.targetChain(c15EndOf(at))
	var ds []*ssa.BasicBlock
	for _, tp := range chain {
		if tp.blk.Parent() == lf {
			ds = []*ssa.BasicBlock{tp.blk}
			break
		}
	}
	if ds == nil {
		g := lf
		for d := 0; d < c15EffDepth+1 && ds == nil; d++ {
			cs := e.site(g)
			if cs == nil || cs.Value() == nil {
				break
			}
			for _, tp := range chain {
				if tp.blk.Parent() != cs.Fn {
					continue
				}
				if (cs.Block() == tp.blk && instrIndex(cs.Instr) < tp.idx) || (cs.Block() != tp.blk && cs.Block().Dominates(tp.blk)) {
					for _, ri := range Returns(lf) {
						ds = append(ds, ri.Ret.Block())
					}
				}
			}
			g = cs.Fn
		}
	}
	if len(ds) == 0 {
		return false, "the part-skipping loop is not executed on the way to the reader"
	}
	atLen := c15LenFacts(e, ctx, parts)
	feasible := 0
	for _, dd := range ds {
		// the first block on dd's dominator chain that lies outside the loop and has a predecessor inside
		var join *ssa.BasicBlock
		for d := dd; d != nil; d = d.Idom() {
			if inLoopBlk(d) {
				break
			}
			for _, pr := range d.Preds {
				if inLoopBlk(pr) {
					join = d
				}
			}
		}
		if join == nil {
			return false, "no exit of the part-skipping loop dominates the reader"
		}
		for _, pr := range join.Preds {
			ef := c15EdgeFacts(pr, join)
			if l := c15LenFacts(e, ef, parts); l != 0 && atLen != 0 && l != atLen {
				continue // this way out contradicts what is known about len(parts) at the reader
			}
			feasible++
			if !c15InsideFact(e, ef, R, parts) {
				return false, fmt.Sprintf("the loop can be left through block %d of %s without inPartOffset < part.Size being established", pr.Index, lf.Name())
			}
		}
	}
	if feasible == 0 {
		return false, "no feasible way out of the loop"
	}
	return true, fmt.Sprintf("%d feasible loop exit(s), each on the failing side of the 'part is skipped' comparison", feasible)
}

type c15ReaderLeaf struct {
	kind string // "limit", "empty", "nil", "unbounded", "opaque"
	call *ssa.Call
	v    ssa.Value
}

// c15ReaderLeaves: what the returned reader reads from.
func c15ReaderLeaves(e *c15Eff, v ssa.Value) []c15ReaderLeaf {
	var out []c15ReaderLeaf
	seen := map[ssa.Value]bool{}
	hasRead := func(t types.Type) bool {
		ms := types.NewMethodSet(t)
		for i := 0; i < ms.Len(); i++ {
			if ms.At(i).Obj().Name() == "Read" {
				return true
			}
		}
		return false
	}
	var walk func(v ssa.Value, d int)
	walk = func(v ssa.Value, d int) {
		if v == nil || seen[v] {
			return
		}
		seen[v] = true
		if d > 30 {
			out = append(out, c15ReaderLeaf{"opaque", nil, v})
			return
		}
		switch x := v.(type) {
		case *ssa.Const:
			out = append(out, c15ReaderLeaf{"nil", nil, v})
		case *ssa.MakeInterface:
			walk(x.X, d+1)
		case *ssa.ChangeInterface:
			walk(x.X, d+1)
		case *ssa.ChangeType:
			walk(x.X, d+1)
		case *ssa.Phi:
			for _, e := range x.Edges {
				walk(e, d+1)
			}
		case *ssa.Call:
			cs := CallSite{x.Parent(), x}
			switch {
			case cs.IsStatic("io", "", "LimitReader"):
				out = append(out, c15ReaderLeaf{"limit", x, v})
			case cs.IsStatic("io", "", "NopCloser"):
				walk(x.Call.Args[0], d+1)
			default:
				f := cs.Callee()
				if f != nil && e.in[f] && f.Parent() == nil && f != e.root && f.Signature.Results().Len() == 1 {
					// a helper of the effective body: what it returns
					for _, ri := range Returns(f) {
						walk(ri.Results[0], d+1)
					}
				} else if f != nil && InModule(f) {
					out = append(out, c15ReaderLeaf{"opaque", x, v})
				} else {
					out = append(out, c15ReaderLeaf{"unbounded", x, v})
				}
			}
		case *ssa.Parameter:
			if rv := e.resolve(x); rv != ssa.Value(x) {
				walk(rv, d+1)
			} else {
				out = append(out, c15ReaderLeaf{"opaque", nil, v})
			}
		case *ssa.UnOp:
			if x.Op != token.MUL {
				out = append(out, c15ReaderLeaf{"opaque", nil, v})
				return
			}
			if g, ok := x.X.(*ssa.Global); ok {
				if g.Name() == "EmptyBody" && g.Pkg.Pkg.Path() == "go4.org/types" {
					out = append(out, c15ReaderLeaf{"empty", nil, v})
				} else {
					out = append(out, c15ReaderLeaf{"opaque", nil, v})
				}
				return
			}
			if al, ok := x.X.(*ssa.Alloc); ok {
				if st, ok := al.Type().(*types.Pointer).Elem().Underlying().(*types.Struct); ok {
					// struct literal: follow the fields that provide Read
					found := false
					for _, ref := range *al.Referrers() {
						fa, ok := ref.(*ssa.FieldAddr)
						if !ok || !hasRead(st.Field(fa.Field).Type()) || !st.Field(fa.Field).Embedded() {
							continue
						}
						for _, u := range *fa.Referrers() {
							if s, ok := u.(*ssa.Store); ok && s.Addr == ssa.Value(fa) {
								found = true
								walk(s.Val, d+1)
							}
						}
					}
					if !found {
						out = append(out, c15ReaderLeaf{"opaque", nil, v})
					}
					return
				}
			}
			if o := originValue(x); o != ssa.Value(x) {
				walk(o, d+1)
				return
			}
			out = append(out, c15ReaderLeaf{"opaque", nil, v})
		case *ssa.Extract:
			if call, ok := x.Tuple.(*ssa.Call); ok {
				if f := (CallSite{call.Parent(), call}).Callee(); f != nil && e.in[f] && f.Parent() == nil && f != e.root {
					for _, ri := range Returns(f) {
						if x.Index < len(ri.Results) {
							walk(ri.Results[x.Index], d+1)
						}
					}
					return
				}
			}
			out = append(out, c15ReaderLeaf{"unbounded", nil, v})
		default:
			out = append(out, c15ReaderLeaf{"unbounded", nil, v})
		}
	}
	walk(v, 0)
	return out
}

func c15RuleRBound(p *Program, r *Reporter) {
	const rule = "R-bound"
	fn := p.Func("pkg/schema", "FileReader", "readerForOffset")
	key := FuncKey(fn)
	n := 0
	defer func() { r.Analysed("reader_bounds", n); r.Floor(rule, 5) }()

	// the offset parameter (the int64 one)
	var off *ssa.Parameter
	for _, prm := range fn.Params[1:] {
		if bt, ok := prm.Type().Underlying().(*types.Basic); ok && bt.Kind() == types.Int64 {
			off = prm
		}
	}
	if off == nil {
		brokenf("anchor unresolved: int64 offset parameter of %s", key)
	}
	// R: phi [off, R - Size(parts[0])] with parts a slice phi consumed from the front;
	// looked for in the effective body (the loop may live in a helper that is
	// handed the offset)
	eff := c15Effective(fn)
	var R *ssa.Phi
	var partsPhi ssa.Value
	var allBlocks []*ssa.BasicBlock
	for _, f := range eff.funcs {
		allBlocks = append(allBlocks, f.Blocks...)
	}
	for _, b := range allBlocks {
		for _, in := range b.Instrs {
			ph, ok := in.(*ssa.Phi)
			if !ok {
				break
			}
			okShape, sawOff, sawSub := true, false, false
			var sl ssa.Value
			for _, e := range ph.Edges {
				if e == ssa.Value(off) || eff.resolve(e) == ssa.Value(off) {
					sawOff = true
					continue
				}
				bo, ok := e.(*ssa.BinOp)
				if !ok || bo.Op != token.SUB || bo.X != ssa.Value(ph) {
					okShape = false
					continue
				}
				y := bo.Y
				if cv, ok := y.(*ssa.Convert); ok {
					y = cv.X
				}
				s, ok := c15PartField(eff, y, "Size")
				if !ok || (sl != nil && sl != s) {
					okShape = false
					continue
				}
				sl, sawSub = s, true
			}
			if okShape && sawOff && sawSub {
				// the slice must itself be a phi advancing by [1:]
				if sp, ok := sl.(*ssa.Phi); ok && sp.Block() == b {
					adv := false
					for _, e := range sp.Edges {
						if s, ok := e.(*ssa.Slice); ok && s.X == ssa.Value(sp) && s.High == nil {
							if k, ok := ConstInt(s.Low); ok && k == 1 {
								adv = true
							}
						}
					}
					if adv {
						R, partsPhi = ph, sl
					}
				}
			}
		}
	}
	if R == nil {
		n++
		r.Undecided(rule, key+"#in-part-offset", p.Pos(fn.Pos()), "cannot identify the in-part offset (a loop variable starting at the offset parameter and reduced by the Size of each skipped leading part)")
		return
	}
	atom := func(v ssa.Value) string {
		if v == ssa.Value(R) {
			return "inPartOffset"
		}
		for _, f := range []string{"Size", "Offset"} {
			if s, ok := c15PartField(eff, v, f); ok && s == partsPhi {
				return "part." + f
			}
		}
		switch v.(type) {
		case *ssa.Extract, *ssa.Call, *ssa.Parameter, *ssa.UnOp:
			if eff.resolve(v) == ssa.Value(R) {
				return "inPartOffset"
			}
		}
		return ""
	}

	// (1) every returned reader
	kinds := map[string]int{}
	for _, ri := range Returns(fn) {
		rv := ri.Results[0]
		if IsNilConst(rv) {
			continue
		}
		for _, lf := range c15ReaderLeaves(eff, rv) {
			switch lf.kind {
			case "nil", "empty":
				continue
			case "limit":
				n++
				role := "part-data"
				if mi, ok := lf.call.Call.Args[0].(*ssa.MakeInterface); ok {
					if nt := NamedOf(mi.X.Type()); nt != nil && nt.Obj().Name() == "zeroReader" {
						role = "hole"
					}
				}
				kinds[role]++
				construct := key + "#bound:" + role
				lin := c15LinOf(eff, lf.call.Call.Args[1], atom)
				want := map[string]int64{"part.Size": 1, "inPartOffset": -1}
				r.Check(lin.equals(want), rule, construct, p.Pos(lf.call.Pos()),
					"byte bound of the returned reader = part.Size - inPartOffset (what is left of the part after the in-part start offset)",
					fmt.Sprintf("byte bound of the returned reader is [%s], not [part.Size - inPartOffset]: a read that starts inside the part runs past the part's end into bytes of the blob that do not belong to the file at this position (e.g. parts {blob \"0123456789\" size 5},{blob \"abcde\" size 5}: ReadAt(len 8, off 2) yields \"23456cde\" instead of \"234abcde\")", lin))
				// the part the bound is taken from is not exhausted: inPartOffset < part.Size
				n++
				okProg, why := c15PartNotExhausted(eff, lf.call.Block(), R, partsPhi)
				r.Check(okProg, rule, key+"#progress:"+role, p.Pos(lf.call.Pos()),
					"on every feasible way out of the part-skipping loop inPartOffset < part.Size holds, so the returned reader yields at least one byte ("+why+")",
					"the part selected for the reader may be exhausted already (inPartOffset == part.Size is possible: "+why+"): a zero-length reader is returned at a part boundary and ReadAt/Read stop short in the middle of the file")
			case "opaque":
				n++
				r.Undecided(rule, key+"#bound:opaque", p.Pos(ri.Ret.Pos()), "the returned reader comes from "+lf.v.String()+", which the analysis does not look into: bound not visible")
			default:
				n++
				r.Violation(rule, key+"#bound:unbounded", p.Pos(ri.Ret.Pos()),
					"a reader over the part's data ("+lf.v.Name()+" "+lf.v.Type().String()+") is returned without io.LimitReader: reads continue past the end of the part to the end of the underlying blob")
			}
		}
	}
	if kinds["part-data"] == 0 {
		n++
		r.Violation(rule, key+"#bound:part-data", p.Pos(fn.Pos()), "no returned reader over blob/bytes part data is bounded by io.LimitReader")
	}

	// (2) every Seek on the part's data: to inPartOffset + part.Offset from the start
	seeks := 0
	var seekCalls []CallSite
	for _, f := range eff.decl {
		seekCalls = append(seekCalls, CallsIn(f, false)...)
	}
	for _, c := range seekCalls {
		if c.MethodName() != "Seek" || c.Value() == nil || len(c.Args()) != 3 {
			continue
		}
		seeks++
		n++
		construct := key + "#seek"
		lin := c15LinOf(eff, c.Args()[1], atom)
		wh, okWh := eff.constInt(c.Args()[2])
		want := map[string]int64{"part.Offset": 1, "inPartOffset": 1}
		okSeek := lin.equals(want) && okWh && wh == 0
		// skipping the Seek is allowed only where the target is known to be 0 (not > 0)
		r.Check(okSeek, rule, construct, p.Pos(c.Pos()),
			"the part's data is positioned at inPartOffset + part.Offset from the start",
			fmt.Sprintf("Seek target is [%s] (whence %d), not [inPartOffset + part.Offset] from the start: the reader yields bytes from the wrong position of the blob", lin, wh))
	}
	if seeks == 0 {
		n++
		r.Violation(rule, key+"#seek", p.Pos(fn.Pos()), "the part's data is never positioned (no Seek): in-part offset and the part's 'offset' field are ignored")
	}
}

// ---------------------------------------------------------------------------
// W-spread: polynomials over SSA integer values (interval bookkeeping)

// c15Poly: monomial (atom names sorted and joined by "*"; "" = the constant
// term) -> coefficient.
type c15Poly map[string]int64

func c15PolyConst(k int64) c15Poly {
	if k == 0 {
		return c15Poly{}
	}
	return c15Poly{"": k}
}

func c15PolyAtom(a string) c15Poly { return c15Poly{a: 1} }

func (p c15Poly) add(q c15Poly, sign int64) c15Poly {
	out := c15Poly{}
	for m, c := range p {
		out[m] = c
	}
	for m, c := range q {
		out[m] += sign * c
		if out[m] == 0 {
			delete(out, m)
		}
	}
	return out
}

func c15MonoMul(a, b string) string {
	if a == "" {
		return b
	}
	if b == "" {
		return a
	}
	parts := append(strings.Split(a, "*"), strings.Split(b, "*")...)
	sort.Strings(parts)
	return strings.Join(parts, "*")
}

func (p c15Poly) mul(q c15Poly) c15Poly {
	out := c15Poly{}
	for m1, c1 := range p {
		for m2, c2 := range q {
			m := c15MonoMul(m1, m2)
			out[m] += c1 * c2
			if out[m] == 0 {
				delete(out, m)
			}
		}
	}
	return out
}

func (p c15Poly) eq(q c15Poly) bool { return len(p.add(q, -1)) == 0 }

func (p c15Poly) isConst() (int64, bool) {
	switch len(p) {
	case 0:
		return 0, true
	case 1:
		if c, ok := p[""]; ok {
			return c, true
		}
	}
	return 0, false
}

func (p c15Poly) atoms() []string {
	set := map[string]bool{}
	for m := range p {
		if m == "" {
			continue
		}
		for _, a := range strings.Split(m, "*") {
			set[a] = true
		}
	}
	var out []string
	for a := range set {
		out = append(out, a)
	}
	sort.Strings(out)
	return out
}

func (p c15Poly) has(atom string) bool {
	for _, a := range p.atoms() {
		if a == atom {
			return true
		}
	}
	return false
}

// subst replaces every occurrence of atom by polynomial q.
func (p c15Poly) subst(atom string, q c15Poly) c15Poly {
	out := c15Poly{}
	for m, c := range p {
		term := c15PolyConst(c)
		if m != "" {
			for _, a := range strings.Split(m, "*") {
				if a == atom {
					term = term.mul(q)
				} else {
					term = term.mul(c15PolyAtom(a))
				}
			}
		}
		out = out.add(term, 1)
	}
	return out
}

func (p c15Poly) String() string {
	if len(p) == 0 {
		return "0"
	}
	var ms []string
	for m := range p {
		ms = append(ms, m)
	}
	sort.Slice(ms, func(i, j int) bool {
		if (ms[i] == "") != (ms[j] == "") {
			return ms[j] == ""
		}
		return ms[i] < ms[j]
	})
	var sb strings.Builder
	for i, m := range ms {
		c := p[m]
		sign := "+"
		if c < 0 {
			sign, c = "-", -c
		}
		if i > 0 || sign == "-" {
			sb.WriteString(sign)
		}
		switch {
		case m == "":
			sb.WriteString(fmt.Sprint(c))
		case c == 1:
			sb.WriteString(m)
		default:
			sb.WriteString(fmt.Sprintf("%d*%s", c, m))
		}
	}
	return sb.String()
}

// c15PolyCtx names the atoms (SSA values the evaluation does not look into).
// len(x) of one slice value is one atom wherever it is evaluated (the length of
// a slice value does not change).
type c15PolyCtx struct {
	names map[ssa.Value]string
	vals  map[string]ssa.Value
}

func c15NewPolyCtx() *c15PolyCtx {
	return &c15PolyCtx{map[ssa.Value]string{}, map[string]ssa.Value{}}
}

func (cx *c15PolyCtx) atomName(v ssa.Value) string {
	if n, ok := cx.names[v]; ok {
		return n
	}
	n := v.Name()
	switch x := v.(type) {
	case *ssa.Phi:
		if x.Comment != "" {
			n += "#" + x.Comment
		}
	case *ssa.UnOp:
		if g, ok := x.X.(*ssa.Global); ok && x.Op == token.MUL {
			n += "#" + g.Name()
		}
		// loads of one field of a struct that is only ever accessed field by
		// field, and whose field is never stored to, are one value
		if fa, ok := x.X.(*ssa.FieldAddr); ok && x.Op == token.MUL && c15FieldNeverWritten(fa) {
			n = cx.atomName(originValue(fa.X)) + "." + fieldName(fa.X.Type(), fa.Field)
		}
	}
	n = strings.ReplaceAll(n, "*", "")
	cx.names[v] = n
	cx.vals[n] = v
	return n
}

// c15FieldNeverWritten: the struct behind fa is used only through field
// addresses in its function, and the field fa selects is only loaded.
func c15FieldNeverWritten(fa *ssa.FieldAddr) bool {
	base := fa.X
	refs := base.Referrers()
	if refs == nil {
		return false
	}
	for _, ref := range *refs {
		switch x := ref.(type) {
		case *ssa.DebugRef:
		case *ssa.FieldAddr:
			if x.Field != fa.Field {
				continue
			}
			for _, u := range *x.Referrers() {
				switch y := u.(type) {
				case *ssa.DebugRef:
				case *ssa.UnOp:
					if y.Op != token.MUL {
						return false
					}
				default:
					return false
				}
			}
		default:
			return false
		}
	}
	return true
}

func c15IsIntType(t types.Type) bool {
	bt, ok := t.Underlying().(*types.Basic)
	return ok && bt.Info()&types.IsInteger != 0
}

// c15LenArg: v is len(x) -> x.
func c15LenArg(v ssa.Value) (ssa.Value, bool) {
	c, ok := v.(*ssa.Call)
	if !ok {
		return nil, false
	}
	b, ok := c.Call.Value.(*ssa.Builtin)
	if !ok || b.Name() != "len" || len(c.Call.Args) != 1 {
		return nil, false
	}
	return c.Call.Args[0], true
}

func (cx *c15PolyCtx) lenAtom(x ssa.Value) string {
	n := "len(" + cx.atomName(originValue(x)) + ")"
	return n
}

// of evaluates integer value v as a polynomial (ok=false: too deep).
func (cx *c15PolyCtx) of(v ssa.Value) (c15Poly, bool) {
	var ev func(v ssa.Value, d int) (c15Poly, bool)
	ev = func(v ssa.Value, d int) (c15Poly, bool) {
		if d > 40 {
			return nil, false
		}
		switch x := v.(type) {
		case *ssa.Const:
			if x.Value != nil && x.Value.Kind() == constant.Int {
				if k, exact := constant.Int64Val(x.Value); exact {
					return c15PolyConst(k), true
				}
			}
		case *ssa.Convert:
			if c15IsIntType(x.Type()) && c15IsIntType(x.X.Type()) {
				return ev(x.X, d+1)
			}
		case *ssa.ChangeType:
			return ev(x.X, d+1)
		case *ssa.BinOp:
			switch x.Op {
			case token.ADD, token.SUB, token.MUL:
				a, ok1 := ev(x.X, d+1)
				b, ok2 := ev(x.Y, d+1)
				if !ok1 || !ok2 {
					return nil, false
				}
				switch x.Op {
				case token.ADD:
					return a.add(b, 1), true
				case token.SUB:
					return a.add(b, -1), true
				}
				out := a.mul(b)
				for m := range out {
					if strings.Count(m, "*") > 4 {
						return nil, false
					}
				}
				return out, true
			}
		case *ssa.UnOp:
			switch x.Op {
			case token.SUB:
				a, ok := ev(x.X, d+1)
				if !ok {
					return nil, false
				}
				return c15Poly{}.add(a, -1), true
			case token.MUL:
				if o := originValue(x); o != ssa.Value(x) {
					return ev(o, d+1)
				}
			}
		case *ssa.Call:
			if arg, ok := c15LenArg(x); ok {
				n := cx.lenAtom(arg)
				if _, have := cx.vals[n]; !have {
					cx.vals[n] = x
				}
				return c15PolyAtom(n), true
			}
		}
		return c15PolyAtom(cx.atomName(v)), true
	}
	return ev(v, 0)
}

// c15InNaturalLoop: block b belongs to the natural loop of header hdr.
func c15InNaturalLoop(hdr, b *ssa.BasicBlock) bool {
	return b == hdr || (hdr.Dominates(b) && c15Reaches(b, hdr))
}

// c15LessZero rewrites "comparison cond has truth value val" as Q < 0 over the
// integers (ok=false for (in)equality tests and non-comparisons).
func c15LessZero(cx *c15PolyCtx, cond ssa.Value, val bool) (c15Poly, bool) {
	cond, val = c15StripNot(cond, val)
	bo, ok := cond.(*ssa.BinOp)
	if !ok || !c15IsCmp(bo.Op) {
		return nil, false
	}
	x, ok1 := cx.of(bo.X)
	y, ok2 := cx.of(bo.Y)
	if !ok1 || !ok2 {
		return nil, false
	}
	op := bo.Op
	if !val {
		op = map[token.Token]token.Token{token.LSS: token.GEQ, token.GEQ: token.LSS, token.LEQ: token.GTR, token.GTR: token.LEQ, token.EQL: token.NEQ, token.NEQ: token.EQL}[op]
	}
	P := x.add(y, -1)
	switch op {
	case token.LSS:
		return P, true
	case token.LEQ: // P <= 0  <=>  P-1 < 0
		return P.add(c15PolyConst(1), -1), true
	case token.GTR: // P > 0  <=>  -P < 0
		return c15Poly{}.add(P, -1), true
	case token.GEQ: // P >= 0  <=>  -P-1 < 0
		return c15Poly{}.add(P, -1).add(c15PolyConst(1), -1), true
	}
	return nil, false
}

// c15Counted describes a loop over j = init, init+1, ... whose only regular
// exit is one test `j + a < bound`, evaluated either before the body (in the
// header) or after it (rotated loops, with the same test guarding the entry).
type c15Counted struct {
	hdr   *ssa.BasicBlock
	j     *ssa.Phi
	jName string
	init  c15Poly         // value of j when the loop is entered (a constant)
	test  *ssa.BasicBlock // the block whose If decides between staying and leaving
	q     c15Poly         // the loop is continued iff q < 0
	endQ  c15Poly         // first value of j for which the test fails; loop-invariant
	exit  *ssa.BasicBlock // successor of the test block outside the loop
}

// endAt: the first value of j for which code in block use is NOT executed
// (code in use runs for j = init .. endAt-1).
func (lp *c15Counted) endAt(cx *c15PolyCtx, use *ssa.BasicBlock) (c15Poly, string) {
	if !c15InNaturalLoop(lp.hdr, use) {
		return nil, "not inside the loop"
	}
	if use != lp.test && lp.test.Dominates(use) {
		return lp.endQ, "" // test first, then the body
	}
	if !(use == lp.test || use.Dominates(lp.test)) {
		return nil, "the position of the body relative to the loop test is not clear"
	}
	// body first, then the test: iteration j+1 runs iff q(j) < 0, and iteration
	// init must be guarded by the same test (q(init-1) < 0) on every way in
	want := lp.q.subst(lp.jName, lp.init.add(c15PolyConst(1), -1))
	for i, pred := range lp.hdr.Preds {
		_ = i
		if c15InNaturalLoop(lp.hdr, pred) {
			continue
		}
		guarded := false
		for _, f := range c15EdgeFacts(pred, lp.hdr) {
			if g, ok := c15LessZero(cx, f.Cond, f.Val); ok && g.eq(want) {
				guarded = true
			}
		}
		if !guarded {
			return nil, fmt.Sprintf("the loop tests after its body and the entry from block %d is not guarded by the same test: a zero-trip run is not excluded", pred.Index)
		}
	}
	return lp.endQ.add(c15PolyConst(1), 1), ""
}

// c15CountedLoop recognises the counted loop of iteration variable ph.
// terminalOK(b) says that leaving the loop to terminal block b (panic, error
// return) does not matter to the caller.
func c15CountedLoop(cx *c15PolyCtx, ph *ssa.Phi, terminalOK func(b *ssa.BasicBlock) bool) (*c15Counted, string) {
	hdr := ph.Block()
	lp := &c15Counted{hdr: hdr, j: ph, jName: cx.atomName(ph)}
	jp := c15PolyAtom(lp.jName)
	haveInit, haveBack := false, false
	for i, e := range ph.Edges {
		pred := hdr.Preds[i]
		ep, ok := cx.of(e)
		if !ok {
			return nil, "an incoming value of the iteration variable is too complex"
		}
		if c15InNaturalLoop(hdr, pred) {
			if !ep.eq(jp.add(c15PolyConst(1), 1)) {
				return nil, fmt.Sprintf("the iteration variable %s becomes [%s] on a back edge, not %s+1", lp.jName, ep, lp.jName)
			}
			haveBack = true
			continue
		}
		if _, isC := ep.isConst(); !isC || (haveInit && !ep.eq(lp.init)) {
			return nil, fmt.Sprintf("the iteration variable %s does not start from one constant", lp.jName)
		}
		lp.init, haveInit = ep, true
	}
	if !haveInit || !haveBack {
		return nil, fmt.Sprintf("%s is not the iteration variable of a loop", lp.jName)
	}
	// the one regular exit
	for _, b := range hdr.Parent().Blocks {
		if !c15InNaturalLoop(hdr, b) {
			continue
		}
		for _, s := range b.Succs {
			if c15InNaturalLoop(hdr, s) {
				continue
			}
			if len(s.Succs) == 0 && terminalOK != nil && terminalOK(s) {
				continue
			}
			if lp.test != nil {
				return nil, fmt.Sprintf("the loop can be left from block %d and from block %d (break / return inside the body)", lp.test.Index, b.Index)
			}
			lp.test, lp.exit = b, s
		}
	}
	if lp.test == nil {
		return nil, "the loop has no regular exit"
	}
	ifi, ok := lp.test.Instrs[len(lp.test.Instrs)-1].(*ssa.If)
	if !ok || len(lp.test.Succs) != 2 {
		return nil, "the loop is not left through a two-way test"
	}
	if !c15EveryIteration(hdr, lp.test) {
		return nil, "the loop test is not evaluated on every iteration"
	}
	Q, ok := c15LessZero(cx, ifi.Cond, lp.test.Succs[0] != lp.exit)
	if !ok {
		return nil, "the loop test is not an ordering comparison"
	}
	R := Q.add(jp, -1)
	if R.has(lp.jName) {
		return nil, "the loop test is not of the form j + a < bound"
	}
	lp.q = Q
	lp.endQ = c15Poly{}.add(R, -1)
	for _, a := range lp.endQ.atoms() {
		if !c15LoopInvariant(cx, a, hdr) {
			return nil, fmt.Sprintf("the loop bound depends on %s, which changes inside the loop", a)
		}
	}
	return lp, ""
}

// c15LoopInvariant: the value behind atom a is not computed inside the loop of hdr.
func c15LoopInvariant(cx *c15PolyCtx, a string, hdr *ssa.BasicBlock) bool {
	v := cx.vals[a]
	if v == nil {
		return false
	}
	for d := 0; d < 8; d++ {
		if arg, ok := c15LenArg(v); ok {
			v = originValue(arg)
			continue
		}
		if ld, ok := v.(*ssa.UnOp); ok && ld.Op == token.MUL {
			if fa, ok := ld.X.(*ssa.FieldAddr); ok && c15FieldNeverWritten(fa) {
				v = originValue(fa.X)
				continue
			}
		}
		break
	}
	in, ok := v.(ssa.Instruction)
	if !ok || in.Block() == nil {
		return true // parameter, constant, global
	}
	return !c15InNaturalLoop(hdr, in.Block())
}

// c15EveryIteration: every way round the loop passes block blk.
func c15EveryIteration(hdr, blk *ssa.BasicBlock) bool {
	if blk == hdr {
		return true
	}
	if !c15InNaturalLoop(hdr, blk) {
		return false
	}
	seen := map[*ssa.BasicBlock]bool{}
	var walk func(b *ssa.BasicBlock) bool // true: hdr re-entered avoiding blk
	walk = func(b *ssa.BasicBlock) bool {
		for _, s := range b.Succs {
			if s == blk || !c15InNaturalLoop(hdr, s) {
				continue
			}
			if s == hdr {
				return true
			}
			if !seen[s] {
				seen[s] = true
				if walk(s) {
					return true
				}
			}
		}
		return false
	}
	return !walk(hdr)
}

// c15LoopVarsOf: the phis among the atoms of p that sit in a loop header.
func c15LoopVarsOf(cx *c15PolyCtx, ps ...c15Poly) []*ssa.Phi {
	var out []*ssa.Phi
	seen := map[*ssa.Phi]bool{}
	for _, p := range ps {
		for _, a := range p.atoms() {
			ph, ok := cx.vals[a].(*ssa.Phi)
			if !ok || seen[ph] {
				continue
			}
			isHdr := false
			for _, pr := range ph.Block().Preds {
				if c15InNaturalLoop(ph.Block(), pr) {
					isHdr = true
				}
			}
			if isHdr {
				seen[ph] = true
				out = append(out, ph)
			}
		}
	}
	return out
}

// c15FullRange: index value idx runs over exactly 0 .. len(slice)-1, once per
// iteration of a counted loop, and the indexing happens on every iteration.
func c15FullRange(cx *c15PolyCtx, ia *ssa.IndexAddr, terminalOK func(*ssa.BasicBlock) bool) (*c15Counted, string) {
	ip, ok := cx.of(ia.Index)
	if !ok {
		return nil, "index too complex"
	}
	vars := c15LoopVarsOf(cx, ip)
	if len(vars) != 1 {
		return nil, fmt.Sprintf("the index [%s] is not a function of exactly one loop variable", ip)
	}
	lp, why := c15CountedLoop(cx, vars[0], terminalOK)
	if lp == nil {
		return nil, why
	}
	jp := c15PolyAtom(lp.jName)
	first := ip.subst(lp.jName, lp.init)
	step := ip.subst(lp.jName, jp.add(c15PolyConst(1), 1)).add(ip, -1)
	end, why := lp.endAt(cx, ia.Block())
	if why != "" {
		return nil, why
	}
	last := ip.subst(lp.jName, end)
	lenP := c15PolyAtom(cx.lenAtom(ia.X))
	switch {
	case !first.eq(c15Poly{}):
		return nil, fmt.Sprintf("the first index is [%s], not 0", first)
	case !step.eq(c15PolyConst(1)):
		return nil, fmt.Sprintf("the index advances by [%s] per iteration, not 1", step)
	case !last.eq(lenP):
		return nil, fmt.Sprintf("the loop stops at index [%s], not at [%s]", last, lenP)
	case !c15EveryIteration(lp.hdr, ia.Block()):
		return nil, "the element is not visited on every iteration"
	}
	return lp, ""
}

// c15BackSlice: everything value v is computed from (operands, phi edges,
// variables' stores, elements stored into arrays/slices it is built from).
func c15BackSlice(v ssa.Value) map[ssa.Value]bool {
	seen := map[ssa.Value]bool{}
	var walk func(v ssa.Value, d int)
	walk = func(v ssa.Value, d int) {
		if v == nil || seen[v] || d > 80 {
			return
		}
		seen[v] = true
		switch x := v.(type) {
		case *ssa.UnOp:
			if x.Op == token.MUL {
				if cell, ok := varOf(x.X); ok {
					for _, st := range storesTo(cell) {
						walk(st.Val, d+1)
					}
				}
			}
		case *ssa.Alloc, *ssa.MakeSlice:
			// element stores
			if refs := v.Referrers(); refs != nil {
				for _, ref := range *refs {
					ia, ok := ref.(*ssa.IndexAddr)
					if !ok {
						continue
					}
					for _, u := range *ia.Referrers() {
						if st, ok := u.(*ssa.Store); ok && st.Addr == ssa.Value(ia) {
							walk(st.Val, d+1)
						}
					}
				}
			}
		}
		if in, ok := v.(ssa.Instruction); ok {
			for _, op := range in.Operands(nil) {
				if *op != nil {
					walk(*op, d+1)
				}
			}
		}
	}
	walk(v, 0)
	return seen
}

// ---------------------------------------------------------------------------
// W-spread: "kept until the end" tracking

// c15Tracker follows one created item (a blob, a list element, a slice of
// results) forward over every CFG path and maintains the set H of SSA values
// (slices) whose current run-time value contains it: append(x, ...item...) and
// append(h, ...) / append(x, h...) for h in H, phis edge by edge. Appending is
// the only accepted way to carry the item; the order of items is not checked.
type c15Tracker struct {
	isItem func(v ssa.Value) bool        // v denotes the tracked item (only while the creation was not re-executed)
	reborn func(in ssa.Instruction) bool // the creation site is executed again: isItem values now denote another item
}

func c15IsAppend(in ssa.Instruction) (*ssa.Call, bool) {
	c, ok := in.(*ssa.Call)
	if !ok {
		return nil, false
	}
	b, ok := c.Call.Value.(*ssa.Builtin)
	return c, ok && b.Name() == "append" && len(c.Call.Args) == 2
}

// c15VarargElems: the values stored into the array behind `arr[:]`.
func c15VarargElems(v ssa.Value) []ssa.Value {
	sl, ok := v.(*ssa.Slice)
	if !ok {
		return nil
	}
	al, ok := sl.X.(*ssa.Alloc)
	if !ok {
		return nil
	}
	var out []ssa.Value
	for _, ref := range *al.Referrers() {
		if ia, ok := ref.(*ssa.IndexAddr); ok {
			for _, u := range *ia.Referrers() {
				if st, ok := u.(*ssa.Store); ok && st.Addr == ssa.Value(ia) {
					out = append(out, st.Val)
				}
			}
		}
	}
	return out
}

func (t *c15Tracker) run(start ssa.Instruction, at func(in ssa.Instruction, has func(ssa.Value) bool, path []int)) {
	type hset map[ssa.Value]bool
	keyOf := func(b *ssa.BasicBlock, h hset, live bool) string {
		var ns []string
		for v := range h {
			ns = append(ns, v.Name())
		}
		sort.Strings(ns)
		return fmt.Sprintf("%d|%v|%s", b.Index, live, strings.Join(ns, ","))
	}
	seen := map[string]bool{}
	budget := 20000
	var walk func(b *ssa.BasicBlock, from int, h hset, live bool, path []int)
	walk = func(b *ssa.BasicBlock, from int, h hset, live bool, path []int) {
		if from == 0 {
			k := keyOf(b, h, live)
			if seen[k] {
				return
			}
			seen[k] = true
		}
		if budget--; budget < 0 {
			return
		}
		path = append(path, b.Index)
		cur := hset{}
		for v := range h {
			cur[v] = true
		}
		has := func(v ssa.Value) bool {
			if cur[v] {
				return true
			}
			for {
				switch x := v.(type) {
				case *ssa.ChangeType:
					v = x.X
				case *ssa.MakeInterface:
					v = x.X
				default:
					return cur[v]
				}
				if cur[v] {
					return true
				}
			}
		}
		for i := from; i < len(b.Instrs); i++ {
			in := b.Instrs[i]
			if _, isPhi := in.(*ssa.Phi); isPhi {
				continue // set on the edge
			}
			if t.reborn != nil && t.reborn(in) {
				live = false
			}
			at(in, has, path)
			val, isVal := in.(ssa.Value)
			if !isVal {
				continue
			}
			contains := false
			if ap, ok := c15IsAppend(in); ok {
				base, extra := ap.Call.Args[0], ap.Call.Args[1]
				if has(base) || has(extra) {
					contains = true
				}
				if live {
					if t.isItem(extra) {
						contains = true
					}
					for _, e := range c15VarargElems(extra) {
						if t.isItem(e) {
							contains = true
						}
					}
				}
			}
			if contains {
				cur[val] = true
			} else {
				delete(cur, val)
			}
		}
		for _, s := range b.Succs {
			nh := hset{}
			for v := range cur {
				nh[v] = true
			}
			for _, in := range s.Instrs {
				ph, ok := in.(*ssa.Phi)
				if !ok {
					break
				}
				var e ssa.Value
				for i, pr := range s.Preds {
					if pr == b {
						e = ph.Edges[i]
					}
				}
				if e != nil && has(e) {
					nh[ph] = true
				} else {
					delete(nh, ph)
				}
			}
			walk(s, 0, nh, live, path)
		}
	}
	walk(start.Block(), instrIndex(start)+1, hset{}, true, nil)
}

// ---------------------------------------------------------------------------
// W-spread: the rule

func c15RuleSpread(p *Program, r *Reporter) {
	const rule = "W-spread"
	n := 0
	defer func() { r.Analysed("spread_obligations", n); r.Floor(rule, 16) }()
	n += c15SpreadWriter(p, r, rule)
	n += c15SpreadReader(p, r, rule)
}

// c15SetFields: JSON key -> field name for superset.Members / superset.MergeSets.
func c15SetFields(p *Program) map[string]string {
	ssT := p.NamedType("pkg/schema", "superset")
	st, _ := ssT.Underlying().(*types.Struct)
	if st == nil {
		brokenf("anchor unresolved: struct type superset")
	}
	out := map[string]string{}
	for i := 0; i < st.NumFields(); i++ {
		f := st.Field(i)
		if f.Name() != "Members" && f.Name() != "MergeSets" {
			continue
		}
		tag := c15JSONName(st.Tag(i))
		if tag == "" {
			tag = f.Name()
		}
		out[tag] = f.Name()
	}
	if len(out) != 2 {
		brokenf("anchor unresolved: superset.Members / superset.MergeSets")
	}
	return out
}

func c15MaskName(mask int) string {
	switch mask {
	case 0:
		return "none"
	case 1:
		return "Members"
	case 2:
		return "MergeSets"
	}
	return "Members+MergeSets"
}

var c15FieldBit = map[string]int{"Members": 1, "MergeSets": 2}

// c15ReaderShapes: for every success return of staticSet, which of the fields
// Members / MergeSets its result is computed from.
func c15ReaderShapes(p *Program) (fn *ssa.Function, masks map[int]bool, success map[*ssa.Return]bool) {
	fn = p.Func("pkg/schema", "", "staticSet")
	ssT := p.NamedType("pkg/schema", "superset")
	masks = map[int]bool{}
	success = map[*ssa.Return]bool{}
	for _, nr := range MaybeNilErrorReturns(fn) {
		success[nr.Ret] = true
	}
	for _, ri := range Returns(fn) {
		if !success[ri.Ret] {
			continue
		}
		mask := 0
		for v := range c15BackSlice(ri.Results[0]) {
			if fa, ok := v.(*ssa.FieldAddr); ok && NamedOf(fa.X.Type()) == ssT {
				mask |= c15FieldBit[fieldName(fa.X.Type(), fa.Field)]
			}
		}
		masks[mask] = true
	}
	return
}

type c15SubSlice struct {
	sl      *ssa.Slice
	lo, hi  c15Poly   // hi == nil: up to the end
	call    *ssa.Call // the call that hands the slice to a subset builder
	builder ssa.Value // that builder (origin)
}

func c15SpreadWriter(p *Program, r *Reporter, rule string) int {
	fn := p.Func("pkg/schema", "Builder", "SetStaticSetMembers")
	blobFn := p.Func("pkg/schema", "Builder", "Blob")
	key := FuncKey(fn)
	n := 0
	cx := c15NewPolyCtx()

	var members *ssa.Parameter
	for _, prm := range fn.Params[1:] {
		if _, ok := prm.Type().Underlying().(*types.Slice); ok {
			if members != nil {
				brokenf("anchor unresolved: more than one slice parameter in %s", key)
			}
			members = prm
		}
	}
	if members == nil {
		brokenf("anchor unresolved: the members parameter of %s", key)
	}
	membersIdx := c15ParamIndex(fn, members)
	cx.names[members] = "members"
	cx.vals["members"] = members
	lenName := cx.lenAtom(members)
	lenP := c15PolyAtom(lenName)
	isPanicBlock := func(b *ssa.BasicBlock) bool {
		_, ok := b.Instrs[len(b.Instrs)-1].(*ssa.Panic)
		return ok
	}

	// ---- every use of members
	var subs []c15SubSlice
	var elemAddrs []*ssa.IndexAddr
	for _, ref := range *members.Referrers() {
		switch x := ref.(type) {
		case *ssa.DebugRef:
		case *ssa.IndexAddr:
			elemAddrs = append(elemAddrs, x)
		case *ssa.Slice:
			subs = append(subs, c15SubSlice{sl: x})
		case *ssa.Call:
			if _, ok := c15LenArg(x); ok {
				continue
			}
			n++
			r.Undecided(rule, key+"#members-use", p.Pos(x.Pos()), "the member list is handed to "+(CallSite{fn, x}).CalleeKey()+" as a whole: which members that covers is not tracked")
		default:
			n++
			r.Undecided(rule, key+"#members-use", p.Pos(ref.Pos()), fmt.Sprintf("the member list is used by %T, a shape the interval bookkeeping does not follow", ref))
		}
	}

	// ---- which keys are written on which path; agreement with the reader's shapes
	keyField := c15SetFields(p)
	rdFn, rdMasks, _ := c15ReaderShapes(p)
	updates := map[ssa.Instruction]int{}
	var membersUpd, mergeUpd []*ssa.MapUpdate
	for _, b := range fn.Blocks {
		for _, in := range b.Instrs {
			mu, ok := in.(*ssa.MapUpdate)
			if !ok {
				continue
			}
			k, ok := ConstString(mu.Key)
			if !ok || keyField[k] == "" {
				continue
			}
			updates[in] = c15FieldBit[keyField[k]]
			if keyField[k] == "Members" {
				membersUpd = append(membersUpd, mu)
			} else {
				mergeUpd = append(mergeUpd, mu)
			}
		}
	}
	{
		type st struct {
			b    *ssa.BasicBlock
			mask int
		}
		seen := map[st]bool{}
		shapes := map[int]*ssa.Return{}
		var walk func(s st)
		walk = func(s st) {
			if seen[s] {
				return
			}
			seen[s] = true
			mask := s.mask
			for _, in := range s.b.Instrs {
				mask |= updates[in]
				if ret, ok := in.(*ssa.Return); ok && s.b != fn.Recover {
					if _, have := shapes[mask]; !have {
						shapes[mask] = ret
					}
				}
			}
			for _, succ := range s.b.Succs {
				walk(st{succ, mask})
			}
		}
		walk(st{fn.Blocks[0], 0})
		var ms []int
		for m := range shapes {
			ms = append(ms, m)
		}
		sort.Ints(ms)
		var rdNames []string
		for m := range rdMasks {
			rdNames = append(rdNames, c15MaskName(m))
		}
		sort.Strings(rdNames)
		for _, m := range ms {
			n++
			construct := key + "#shape:" + c15MaskName(m)
			handled := false
			for rm := range rdMasks {
				if m != 0 && rm&m == m {
					handled = true
				}
			}
			switch {
			case m == 0:
				r.Violation(rule, construct, p.Pos(shapes[m].Pos()), "a path returns without having stored the members either directly or as sub-sets: the static-set lists nothing")
			case !handled:
				r.Violation(rule, construct, p.Pos(shapes[m].Pos()), fmt.Sprintf("a path stores %s in one static-set, but no successful return of %s computes its result from all of these fields (its returns use %v): part of the members is never listed", c15MaskName(m), FuncKey(rdFn), rdNames))
			default:
				r.OK(rule, construct, p.Pos(shapes[m].Pos()), fmt.Sprintf("a static-set written with %s is a shape the reader lists completely (successful returns of %s use %v)", c15MaskName(m), FuncKey(rdFn), rdNames))
			}
		}
	}

	// ---- leaf: the value stored under the members key is built from a full traversal of members
	for _, mu := range membersUpd {
		n++
		construct := key + "#leaf-members"
		back := c15BackSlice(mu.Value)
		var used []*ssa.IndexAddr
		for _, ia := range elemAddrs {
			if back[ia] {
				used = append(used, ia)
			}
		}
		switch {
		case back[ssa.Value(members)] && len(used) == 0:
			r.Undecided(rule, construct, p.Pos(mu.Pos()), "the directly stored member list is computed from the members parameter in a way the analysis does not follow")
		case len(used) == 0:
			r.Violation(rule, construct, p.Pos(mu.Pos()), "the directly stored member list is not computed from the elements of the members parameter")
		default:
			bad := ""
			for _, ia := range used {
				if _, why := c15FullRange(cx, ia, isPanicBlock); why != "" {
					bad = why
				}
			}
			r.Check(bad == "", rule, construct, p.Pos(mu.Pos()),
				"the directly stored member list is filled from members[i] for every i in 0..len(members)-1",
				"the loop that fills the directly stored member list does not visit every member: "+bad)
		}
	}

	// ---- the sub-slices
	var loops, tails []c15SubSlice
	for _, s := range subs {
		construct := key + "#slice"
		if s.sl.Max != nil {
			n++
			r.Undecided(rule, construct, p.Pos(s.sl.Pos()), "three-index slice of members")
			continue
		}
		ok := true
		s.lo = c15Poly{}
		if s.sl.Low != nil {
			s.lo, ok = cx.of(s.sl.Low)
		}
		if ok && s.sl.High != nil {
			s.hi, ok = cx.of(s.sl.High)
		}
		if !ok {
			n++
			r.Undecided(rule, construct, p.Pos(s.sl.Pos()), "bounds of a sub-slice of members are too complex for the interval bookkeeping")
			continue
		}
		// what the slice is used for
		bad := ""
		for _, ref := range *s.sl.Referrers() {
			if _, isDbg := ref.(*ssa.DebugRef); isDbg {
				continue
			}
			c, isCall := ref.(*ssa.Call)
			if !isCall || c.Call.StaticCallee() != fn || len(c.Call.Args) <= membersIdx || c.Call.Args[membersIdx] != ssa.Value(s.sl) {
				bad = fmt.Sprintf("the sub-slice is used by %s, not handed to SetStaticSetMembers of a sub-set", ref)
				continue
			}
			if s.call != nil {
				bad = "the sub-slice is handed to more than one sub-set"
			}
			s.call = c
			s.builder = originValue(c.Call.Args[0])
		}
		if bad == "" && s.call == nil {
			bad = "the sub-slice is not used"
		}
		if bad == "" {
			bc, isCall := s.builder.(*ssa.Call)
			if !isCall || bc.Parent() != fn || NamedOf(bc.Type()) == nil || NamedOf(bc.Type()).Obj().Name() != "Builder" {
				bad = "the builder that receives the sub-slice is not created in this function"
			}
		}
		if bad != "" {
			n++
			r.Undecided(rule, construct, p.Pos(s.sl.Pos()), bad)
			continue
		}
		switch {
		case len(c15LoopVarsOf(cx, s.lo, s.hi)) > 0 && s.hi != nil:
			loops = append(loops, s)
		case s.hi == nil && len(c15LoopVarsOf(cx, s.lo)) == 0:
			tails = append(tails, s)
		default:
			n++
			r.Undecided(rule, construct, p.Pos(s.sl.Pos()), fmt.Sprintf("sub-slice members[%s:%s] is neither a per-iteration slice of a counted loop nor a tail members[K:]", s.lo, c15PolyOrEnd(s.hi)))
		}
	}
	if len(loops) != 1 {
		n++
		r.Undecided(rule, key+"#slice:loop", p.Pos(fn.Pos()), fmt.Sprintf("expected exactly one per-iteration sub-slice members[lo(i):hi(i)] handed to a sub-set, found %d: the coverage of the member list cannot be established", len(loops)))
		return n
	}
	ls := loops[0]
	var lp *c15Counted
	var jEnd c15Poly
	{
		n++
		construct := key + "#slice:loop"
		vars := c15LoopVarsOf(cx, ls.lo, ls.hi)
		why := ""
		if len(vars) != 1 {
			why = fmt.Sprintf("the bounds [%s : %s] depend on %d loop variables", ls.lo, ls.hi, len(vars))
		} else {
			lp, why = c15CountedLoop(cx, vars[0], isPanicBlock)
		}
		if lp != nil {
			for _, a := range append(ls.lo.atoms(), ls.hi.atoms()...) {
				if a != lp.jName && !c15LoopInvariant(cx, a, lp.hdr) {
					why = fmt.Sprintf("the bounds depend on %s, which changes inside the loop", a)
				}
			}
			if why == "" && !(c15EveryIteration(lp.hdr, ls.sl.Block()) && c15EveryIteration(lp.hdr, ls.call.Block())) {
				why = "the sub-slice is not taken and handed to a sub-set on every iteration"
			}
			if why == "" {
				jEnd, why = lp.endAt(cx, ls.call.Block())
			}
			if why == "" {
				if e2, w2 := lp.endAt(cx, ls.sl.Block()); w2 != "" || !e2.eq(jEnd) {
					why = "the sub-slice is taken and handed over on different sides of the loop test"
				}
			}
		}
		if why != "" {
			r.Undecided(rule, construct, p.Pos(ls.sl.Pos()), "the loop that cuts members into sub-sets is not a counted loop the interval bookkeeping can follow: "+why)
			return n
		}
		r.OK(rule, construct, p.Pos(ls.sl.Pos()), fmt.Sprintf("members[%s : %s] is handed to a new sub-set on every iteration, %s = %s .. (%s)-1, all other operands fixed before the loop", ls.lo, ls.hi, lp.jName, lp.init, jEnd))
	}
	jp := c15PolyAtom(lp.jName)
	first := ls.lo.subst(lp.jName, lp.init)
	next := ls.lo.subst(lp.jName, jp.add(c15PolyConst(1), 1))
	loopEnd := ls.lo.subst(lp.jName, jEnd)
	stride := next.add(ls.lo, -1)
	n++
	r.Check(first.eq(c15Poly{}), rule, key+"#first-slice", p.Pos(ls.sl.Pos()),
		"the first sub-slice starts at index 0",
		fmt.Sprintf("the first sub-slice starts at [%s], not at 0: the members before it are in no static-set", first))
	n++
	r.Check(ls.hi.eq(next), rule, key+"#contiguous", p.Pos(ls.sl.Pos()),
		fmt.Sprintf("the end of one sub-slice [%s] is, as a polynomial in the same stride and index, the start of the next one", ls.hi),
		fmt.Sprintf("sub-slice i ends at [%s] but sub-slice i+1 starts at [%s]: consecutive sub-sets leave a gap (members lost) or overlap (members listed twice)", ls.hi, next))

	// ---- the rest
	switch len(tails) {
	case 0:
		n++
		r.Undecided(rule, key+"#rest-start", p.Pos(ls.sl.Pos()), fmt.Sprintf("no sub-set receives members[%s:]: the members behind the last full sub-slice are in no static-set unless the count is an exact multiple of the stride, which is not established", loopEnd))
	case 1:
		ts := tails[0]
		n++
		r.Check(ts.lo.eq(loopEnd), rule, key+"#rest-start", p.Pos(ts.sl.Pos()),
			fmt.Sprintf("the rest sub-set starts at [%s], the structural end of the loop's last sub-slice (same stride, same count as the loop bound)", ts.lo),
			fmt.Sprintf("the rest sub-set starts at [%s] but the loop's last sub-slice ends at [%s]: members are lost or listed twice", ts.lo, loopEnd))
		n++
		c15RestTest(p, r, rule, key, cx, fn, lp, ts, lenP, lenName, members)
	default:
		n++
		r.Undecided(rule, key+"#rest-start", p.Pos(tails[1].sl.Pos()), "more than one tail sub-slice members[K:]")
	}

	// ---- every created sub-set is returned and referenced by the parent
	rets := map[*ssa.Return]ssa.Value{}
	for _, ri := range Returns(fn) {
		if len(ri.Results) == 1 {
			rets[ri.Ret] = ri.Results[0]
		}
	}
	// the list whose full traversal feeds the mergeSets key
	type mergeList struct {
		mu   *ssa.MapUpdate
		list ssa.Value
	}
	var mergeLists []mergeList
	for _, mu := range mergeUpd {
		n++
		construct := key + "#merge-list"
		back := c15BackSlice(mu.Value)
		var cands []*ssa.IndexAddr
		for v := range back {
			ia, ok := v.(*ssa.IndexAddr)
			if !ok {
				continue
			}
			if sl, ok := ia.X.Type().Underlying().(*types.Slice); ok {
				if pt, ok := sl.Elem().(*types.Pointer); ok && NamedOf(pt) != nil && NamedOf(pt).Obj().Name() == "Blob" {
					cands = append(cands, ia)
				}
			}
		}
		if len(cands) != 1 {
			r.Undecided(rule, construct, p.Pos(mu.Pos()), fmt.Sprintf("the value stored as the sub-set list is not computed from the elements of one list of blobs (%d candidates)", len(cands)))
			continue
		}
		if _, why := c15FullRange(cx, cands[0], isPanicBlock); why != "" {
			r.Violation(rule, construct, p.Pos(mu.Pos()), "the sub-set list stored in the parent does not name every blob of the list of sub-sets: "+why)
			continue
		}
		r.OK(rule, construct, p.Pos(mu.Pos()), "the sub-set list stored in the parent is computed from every element of one list of blobs")
		mergeLists = append(mergeLists, mergeList{mu, cands[0].X})
	}
	for _, s := range append([]c15SubSlice{ls}, tails...) {
		role := "rest"
		if s.hi != nil {
			role = "loop"
		}
		creation := s.builder.(*ssa.Call)
		tr := &c15Tracker{
			isItem: func(v ssa.Value) bool {
				c, ok := originValue(v).(*ssa.Call)
				return ok && c.Call.StaticCallee() == blobFn && len(c.Call.Args) == 1 && originValue(c.Call.Args[0]) == ssa.Value(creation)
			},
			reborn: func(in ssa.Instruction) bool { return in == ssa.Instruction(creation) },
		}
		badRet, badRef := "", ""
		sawRet, sawRef := false, false
		tr.run(creation, func(in ssa.Instruction, has func(ssa.Value) bool, path []int) {
			if ret, ok := in.(*ssa.Return); ok {
				sawRet = true
				if v := rets[ret]; (v == nil || !has(v)) && badRet == "" {
					badRet = fmt.Sprintf("on the path through blocks %v the returned list does not contain the blob of the sub-set created here", path)
				}
			}
			for _, ml := range mergeLists {
				if in == ssa.Instruction(ml.mu) {
					sawRef = true
					if !has(ml.list) && badRef == "" {
						badRef = fmt.Sprintf("on the path through blocks %v the list the parent's sub-set references are computed from does not contain the blob of the sub-set created here", path)
					}
				}
			}
		})
		n++
		r.Check(sawRet && badRet == "", rule, key+"#subset-returned:"+role, p.Pos(creation.Pos()),
			"on every path the blob of this sub-set is appended to the list the function returns (so the caller uploads it)",
			"a created sub-set is not handed back to the caller: it is never uploaded while the parent (or nobody) refers to it; "+badRet)
		n++
		r.Check(sawRef && badRef == "", rule, key+"#subset-referenced:"+role, p.Pos(creation.Pos()),
			"on every path the blob of this sub-set is appended to the list whose references are stored in the parent",
			"a created sub-set is not referenced by the parent static-set: its members are never listed; "+badRef)
	}
	// the sub-sets a recursive call created for a stride longer than one blob
	{
		n++
		construct := key + "#children-returned:loop"
		bounded := c15StrideIsLeafCapacity(cx, stride, ls.sl.Block(), lenName)
		callRes := ls.call
		tr := &c15Tracker{
			isItem: func(v ssa.Value) bool { return originValue(v) == ssa.Value(callRes) },
			reborn: func(in ssa.Instruction) bool { return in == ssa.Instruction(callRes) },
		}
		bad, saw := "", false
		tr.run(callRes, func(in ssa.Instruction, has func(ssa.Value) bool, path []int) {
			if ret, ok := in.(*ssa.Return); ok {
				saw = true
				if v := rets[ret]; (v == nil || !has(v)) && bad == "" {
					bad = fmt.Sprintf("path through blocks %v", path)
				}
			}
		})
		switch {
		case saw && bad == "":
			r.OK(rule, construct, p.Pos(callRes.Pos()), "the sub-sets the recursive call created for one stride are appended to the returned list on every path")
		case bounded:
			r.OK(rule, construct, p.Pos(callRes.Pos()), fmt.Sprintf("the stride [%s] is the leaf capacity tested on entry, so the recursive call creates no further sub-sets", stride))
		default:
			r.Violation(rule, construct, p.Pos(callRes.Pos()), fmt.Sprintf("the stride [%s] can exceed what one static-set holds, so the recursive call creates sub-sets of its own, but its result does not reach the returned list (%s): these blobs are never uploaded although their parent references them", stride, bad))
		}
	}
	return n
}

func c15PolyOrEnd(p c15Poly) string {
	if p == nil {
		return ""
	}
	return p.String()
}

// c15StrideIsLeafCapacity: the stride is one value all of whose phi leaves are
// loads of the global that a dominating test compares len(members) with.
func c15StrideIsLeafCapacity(cx *c15PolyCtx, stride c15Poly, at *ssa.BasicBlock, lenName string) bool {
	as := stride.atoms()
	if len(as) != 1 || stride[as[0]] != 1 || len(stride) != 1 {
		return false
	}
	var g *ssa.Global
	seen := map[ssa.Value]bool{}
	var leaves func(v ssa.Value) bool
	leaves = func(v ssa.Value) bool {
		if seen[v] {
			return true
		}
		seen[v] = true
		switch x := v.(type) {
		case *ssa.Phi:
			for _, e := range x.Edges {
				if !leaves(e) {
					return false
				}
			}
			return true
		case *ssa.UnOp:
			if gl, ok := x.X.(*ssa.Global); ok && x.Op == token.MUL && (g == nil || g == gl) {
				g = gl
				return true
			}
		}
		return false
	}
	if !leaves(cx.vals[as[0]]) || g == nil {
		return false
	}
	for _, f := range FactsAt(at) {
		bo, ok := f.Cond.(*ssa.BinOp)
		if !ok || !c15IsCmp(bo.Op) {
			continue
		}
		x, _ := cx.of(bo.X)
		y, _ := cx.of(bo.Y)
		isG := func(v ssa.Value) bool {
			u, ok := v.(*ssa.UnOp)
			return ok && u.Op == token.MUL && u.X == ssa.Value(g)
		}
		if (x.eq(c15PolyAtom(lenName)) && isG(bo.Y)) || (y.eq(c15PolyAtom(lenName)) && isG(bo.X)) {
			return true
		}
	}
	return false
}

// c15SourceKey: identity of a value for "computed from the same input" tests.
func c15SourceKey(v ssa.Value) string {
	switch x := v.(type) {
	case *ssa.UnOp:
		if g, ok := x.X.(*ssa.Global); ok && x.Op == token.MUL {
			return "global " + g.Name()
		}
	case *ssa.Global:
		return "global " + x.Name()
	case *ssa.Parameter:
		return "parameter " + x.Name()
	}
	return fmt.Sprintf("%s@%p", v.Name(), v)
}

// c15RestTest: the condition under which the rest sub-set members[K:] is
// emitted must hold whenever K < len(members), and it must be computed from
// the stride and count that position the rest.
func c15RestTest(p *Program, r *Reporter, rule, key string, cx *c15PolyCtx, fn *ssa.Function, lp *c15Counted, ts c15SubSlice, lenP c15Poly, lenName string, members *ssa.Parameter) {
	construct := key + "#rest-test"
	site := p.Pos(ts.sl.Pos())
	bt := ts.call.Block()
	if !(lp.exit == bt || lp.exit.Dominates(bt)) || c15InNaturalLoop(lp.hdr, bt) {
		r.Undecided(rule, construct, site, "the rest sub-set is not built after the loop that cuts the full sub-sets: the analysis cannot tell under which condition it is emitted")
		return
	}
	type fk struct {
		c ssa.Value
		v bool
	}
	before := map[fk]bool{}
	for _, f := range FactsAt(lp.exit) {
		before[fk{f.Cond, f.Val}] = true
	}
	var guards []CondFact
	for _, f := range FactsAt(bt) {
		if !before[fk{f.Cond, f.Val}] {
			guards = append(guards, f)
		}
	}
	if len(guards) == 0 {
		// unconditional: every way from the loop exit to a return must pass bt
		seen := map[*ssa.BasicBlock]bool{}
		var skip func(b *ssa.BasicBlock) bool
		skip = func(b *ssa.BasicBlock) bool {
			if b == bt || seen[b] {
				return false
			}
			seen[b] = true
			if _, ok := b.Instrs[len(b.Instrs)-1].(*ssa.Return); ok {
				return true
			}
			for _, s := range b.Succs {
				if skip(s) {
					return true
				}
			}
			return false
		}
		if skip(lp.exit) {
			r.Undecided(rule, construct, site, "the rest sub-set is emitted under a condition the analysis cannot read off the dominating branches")
			return
		}
		r.OK(rule, construct, site, "the rest sub-set is emitted unconditionally after the loop")
		return
	}
	K := ts.lo
	x := lenP.add(K, -1) // number of members behind the loop's last sub-slice
	var okDetails []string
	for _, g := range guards {
		cond, val := c15StripNot(g.Cond, g.Val)
		bo, isCmp := cond.(*ssa.BinOp)
		matched := false
		if isCmp && c15IsCmp(bo.Op) {
			a, ok1 := cx.of(bo.X)
			b, ok2 := cx.of(bo.Y)
			if ok1 && ok2 {
				D := a.add(b, -1)
				for _, c := range []int64{1, -1} {
					k0, isC := D.add(c15PolyConst(c).mul(x), -1).isConst()
					if !isC {
						continue
					}
					matched = true
					// the guard reads  c*x + k0  op  0  (taken with truth value val); must hold for every x >= 1
					holds := func(xv int64) bool { return c15CmpHolds(c*xv+k0, bo.Op, 0) == val }
					all := holds(1) && holds(2) && holds(1<<40)
					if bo.Op == token.EQL || bo.Op == token.NEQ {
						root := -k0 * c // c*x + k0 == 0  <=>  x == -k0/c, c = +-1
						if root >= 1 {
							all = all && holds(root)
						}
					}
					if !all {
						bad := int64(1)
						for _, xv := range []int64{1, 2, -k0 * c, 1 << 40} {
							if xv >= 1 && !holds(xv) {
								bad = xv
								break
							}
						}
						r.Violation(rule, construct, site, fmt.Sprintf("the rest sub-set members[%s:] is emitted only where (%s %s %s) is %v; with %d member(s) behind the last full sub-slice (len(members) - (%s) = %d) that is not the case: these members are in no static-set", K, a, bo.Op, b, val, bad, K, bad))
						return
					}
					okDetails = append(okDetails, fmt.Sprintf("(%s %s %s) is %v", a, bo.Op, b, val))
					break
				}
			}
		}
		if matched {
			continue
		}
		// not the structural K < len test: which values is it computed from?
		slice := c15BackSlice(g.Cond)
		keys := map[string]bool{}
		for v := range slice {
			if _, isC := v.(*ssa.Const); isC {
				continue
			}
			if v == ssa.Value(members) {
				continue
			}
			if arg, ok := c15LenArg(v); ok && originValue(arg) == ssa.Value(members) {
				continue
			}
			keys[c15SourceKey(v)] = true
		}
		var missing []string
		for _, a := range K.atoms() {
			if a == lenName {
				continue
			}
			if v := cx.vals[a]; v != nil && !slice[v] {
				missing = append(missing, a)
			}
		}
		if len(missing) == 0 {
			r.Undecided(rule, construct, site, fmt.Sprintf("the condition for emitting the rest sub-set depends on the stride and count of the slicing but is not a comparison of [%s] with len(members): whether it holds whenever members are left over is arithmetic the analysis does not do", K))
			return
		}
		// "stale": the condition is a function of values that were all available
		// before the missing stride/count was re-assigned (no phi, no call in its
		// computation), and it shares an input with that stride/count.
		isInput := func(v ssa.Value) bool {
			if _, isC := v.(*ssa.Const); isC {
				return false
			}
			if v == ssa.Value(members) {
				return false
			}
			if arg, ok := c15LenArg(v); ok && originValue(arg) == ssa.Value(members) {
				return false
			}
			switch x := v.(type) {
			case *ssa.Parameter:
				return true
			case *ssa.UnOp:
				_, isG := x.X.(*ssa.Global)
				return isG && x.Op == token.MUL
			}
			return false
		}
		pure := true
		for v := range slice {
			switch x := v.(type) {
			case *ssa.Phi:
				pure = false
			case *ssa.Call:
				if _, isLen := c15LenArg(x); !isLen {
					pure = false
				}
			}
		}
		var stale []string
		for _, a := range missing {
			ph, isPhi := cx.vals[a].(*ssa.Phi)
			if !isPhi || !pure {
				continue
			}
			distinct := map[ssa.Value]bool{}
			for _, e := range ph.Edges {
				distinct[e] = true
			}
			if len(distinct) < 2 {
				continue
			}
			shared := map[string]bool{}
			for v := range c15BackSlice(ph) {
				if isInput(v) && keys[c15SourceKey(v)] {
					shared[c15SourceKey(v)] = true
				}
			}
			for k := range shared {
				stale = append(stale, fmt.Sprintf("%s (computed from %s among others, then re-assigned)", a, k))
			}
		}
		if len(stale) > 0 {
			sort.Strings(stale)
			r.Violation(rule, construct, site, fmt.Sprintf("rest test uses a stale stride: the rest sub-set members[%s:] is emitted under a condition that is computed only from inputs read before the stride/count were final and does not depend on %s; where a phi takes its other value the test no longer tells whether members are left behind [%s]: the last members of a large directory are in no static-set", K, strings.Join(stale, ", "), K))
			return
		}
		r.Undecided(rule, construct, site, fmt.Sprintf("the condition for emitting the rest sub-set does not depend on %v, which position the rest [%s]: the analysis cannot relate it to the slicing", missing, K))
		return
	}
	r.OK(rule, construct, site, fmt.Sprintf("the rest sub-set members[%s:] is emitted where %s, which holds whenever [%s] < len(members): same stride and count as the slicing", K, strings.Join(okDetails, " and "), K))
}

// c15SpreadReader: staticSet visits every element of Members / MergeSets and
// keeps every member / every recursive result until each successful return.
func c15SpreadReader(p *Program, r *Reporter, rule string) int {
	fn, _, success := c15ReaderShapes(p)
	ssT := p.NamedType("pkg/schema", "superset")
	key := FuncKey(fn)
	cx := c15NewPolyCtx()
	n := 0
	rets := map[*ssa.Return]ssa.Value{}
	for _, ri := range Returns(fn) {
		if success[ri.Ret] {
			rets[ri.Ret] = ri.Results[0]
		}
	}
	terminalOK := func(b *ssa.BasicBlock) bool {
		switch x := b.Instrs[len(b.Instrs)-1].(type) {
		case *ssa.Panic:
			return true
		case *ssa.Return:
			return !success[x]
		}
		return false
	}
	found := map[string]int{}
	for _, b := range fn.Blocks {
		for _, in := range b.Instrs {
			ia, ok := in.(*ssa.IndexAddr)
			if !ok {
				continue
			}
			ld, ok := ia.X.(*ssa.UnOp)
			if !ok || ld.Op != token.MUL {
				continue
			}
			fa, ok := ld.X.(*ssa.FieldAddr)
			if !ok || NamedOf(fa.X.Type()) != ssT {
				continue
			}
			field := fieldName(fa.X.Type(), fa.Field)
			if c15FieldBit[field] == 0 {
				continue
			}
			found[field]++
			n++
			_, why := c15FullRange(cx, ia, terminalOK)
			r.Check(why == "", rule, key+"#range:"+field, p.Pos(ia.Pos()),
				"every element of "+field+" (index 0 .. len-1) is visited; the loop is left early only to fail",
				"the loop over "+field+" does not visit every element before a successful return: "+why)
			// the item to keep
			var elems []ssa.Value
			for _, ref := range *ia.Referrers() {
				if u, ok := ref.(*ssa.UnOp); ok && u.Op == token.MUL {
					elems = append(elems, u)
				}
			}
			isElem := func(v ssa.Value) bool {
				o := originValue(v)
				for _, e := range elems {
					if o == e || v == e {
						return true
					}
				}
				return false
			}
			n++
			construct := key + "#kept:" + field
			var start ssa.Instruction
			var tr *c15Tracker
			if field == "Members" {
				if len(elems) != 1 {
					r.Undecided(rule, construct, p.Pos(ia.Pos()), "the element is not loaded exactly once")
					continue
				}
				start = elems[0].(ssa.Instruction)
				tr = &c15Tracker{isItem: isElem, reborn: func(in ssa.Instruction) bool { return in == start }}
			} else {
				var rec *ssa.Call
				for _, c := range CallsIn(fn, false) {
					if c.Callee() != fn || c.Value() == nil {
						continue
					}
					for _, a := range c.Args() {
						if isElem(a) {
							rec = c.Value()
						}
					}
				}
				if rec == nil {
					r.Violation(rule, construct, p.Pos(ia.Pos()), "the sub-sets named by MergeSets are not read recursively: a directory spread over sub-sets lists no members")
					continue
				}
				var res ssa.Value
				for _, ref := range *rec.Referrers() {
					if ex, ok := ref.(*ssa.Extract); ok && ex.Index == 0 {
						res = ex
					}
				}
				if res == nil {
					r.Violation(rule, construct, p.Pos(rec.Pos()), "the members a sub-set yields are discarded")
					continue
				}
				start = rec
				tr = &c15Tracker{isItem: func(v ssa.Value) bool { return v == res }, reborn: func(in ssa.Instruction) bool { return in == ssa.Instruction(rec) }}
			}
			bad, saw := "", false
			tr.run(start, func(in ssa.Instruction, has func(ssa.Value) bool, path []int) {
				ret, ok := in.(*ssa.Return)
				if !ok || !success[ret] {
					return
				}
				saw = true
				if !has(rets[ret]) && bad == "" {
					bad = fmt.Sprintf("path through blocks %v", path)
				}
			})
			what := map[string]string{"Members": "every member read from the blob", "MergeSets": "the members every sub-set yields"}[field]
			r.Check(saw && bad == "", rule, construct, p.Pos(ia.Pos()),
				what+" is appended to the list that every later successful return hands back",
				what+" does not reach the returned list on every successful path ("+bad+"): the directory lists fewer members than were written")
		}
	}
	for _, f := range []string{"Members", "MergeSets"} {
		if found[f] == 0 {
			n++
			r.Undecided(rule, key+"#range:"+f, p.Pos(fn.Pos()), "no indexed traversal of superset."+f+" in the static-set reader")
		}
	}
	return n
}

// ---------------------------------------------------------------------------
// W-keys (table agreement)

func c15RuleKeys(p *Program, r *Reporter) {
	const rule = "W-keys"
	n := 0
	defer func() { r.Analysed("key_tables", n); r.Floor(rule, 4) }()

	jsonTags := func(st *types.Struct, only map[string]bool) map[string]string {
		out := map[string]string{}
		for i := 0; i < st.NumFields(); i++ {
			f := st.Field(i)
			if only != nil && !only[f.Name()] {
				continue
			}
			tag := c15JSONName(st.Tag(i))
			if tag == "" {
				tag = f.Name()
			}
			if tag != "-" {
				out[tag] = f.Name()
			}
		}
		return out
	}
	// string constants used as map index in stores of fn (m["x"] = ...) whose map is a map[string]any
	mapKeys := func(fn *ssa.Function) map[string]token.Pos {
		out := map[string]token.Pos{}
		for _, b := range fn.Blocks {
			for _, in := range b.Instrs {
				mu, ok := in.(*ssa.MapUpdate)
				if !ok {
					continue
				}
				if s, ok := ConstString(mu.Key); ok {
					out[s] = mu.Pos()
				}
			}
		}
		return out
	}
	diff := func(written map[string]token.Pos, read map[string]string) (missingInReader, neverWritten []string) {
		for k := range written {
			if _, ok := read[k]; !ok {
				missingInReader = append(missingInReader, k)
			}
		}
		for k := range read {
			if _, ok := written[k]; !ok {
				neverWritten = append(neverWritten, k)
			}
		}
		sort.Strings(missingInReader)
		sort.Strings(neverWritten)
		return
	}

	// (1) bytes parts
	pp := p.Func("pkg/schema", "", "populateParts")
	bpT := p.NamedType("pkg/schema", "BytesPart")
	bpS, _ := bpT.Underlying().(*types.Struct)
	ssT := p.NamedType("pkg/schema", "superset")
	ssS, _ := ssT.Underlying().(*types.Struct)
	if bpS == nil || ssS == nil {
		brokenf("anchor unresolved: struct types BytesPart / superset")
	}
	written := mapKeys(pp)
	partKeys := map[string]token.Pos{}
	topKeys := map[string]token.Pos{}
	partTags := jsonTags(bpS, nil)
	for k, pos := range written {
		if _, isTop := jsonTags(ssS, map[string]bool{"Parts": true})[k]; isTop {
			topKeys[k] = pos
		} else {
			partKeys[k] = pos
		}
	}
	n++
	mr, nw := diff(partKeys, partTags)
	r.Check(len(mr) == 0 && len(nw) == 0, rule, FuncKey(pp)+"#part-keys", p.Pos(pp.Pos()),
		fmt.Sprintf("keys written per part %v = JSON tags of BytesPart", c15Keys(partKeys)),
		fmt.Sprintf("populateParts and BytesPart disagree on JSON keys: written but not decoded %v, decoded but never written %v: a written file reads back with that field zero", mr, nw))
	n++
	r.Check(len(topKeys) == 1, rule, FuncKey(pp)+"#parts-key", p.Pos(pp.Pos()),
		"the part list is written under the JSON tag of superset.Parts",
		"populateParts does not write the part list under the JSON tag of superset.Parts: every written file reads back empty")

	// (2) static sets
	sw := p.Func("pkg/schema", "Builder", "SetStaticSetMembers")
	wk := mapKeys(sw)
	setTags := jsonTags(ssS, map[string]bool{"Members": true, "MergeSets": true})
	n++
	mr, nw = diff(wk, setTags)
	r.Check(len(mr) == 0 && len(nw) == 0, rule, FuncKey(sw)+"#static-set-keys", p.Pos(sw.Pos()),
		fmt.Sprintf("keys written %v = JSON tags of superset.Members / superset.MergeSets", c15Keys(wk)),
		fmt.Sprintf("SetStaticSetMembers and superset disagree on JSON keys: written but not decoded %v, decoded but never written %v: a directory lists no (or not all) members", mr, nw))
	// the reader must look at both fields
	rd := p.Func("pkg/schema", "", "staticSet")
	reads := map[string]bool{}
	for _, b := range rd.Blocks {
		for _, in := range b.Instrs {
			if fa, ok := in.(*ssa.FieldAddr); ok && NamedOf(fa.X.Type()) == ssT {
				reads[fieldName(fa.X.Type(), fa.Field)] = true
			}
		}
	}
	n++
	r.Check(reads["Members"] && reads["MergeSets"], rule, FuncKey(rd)+"#static-set-fields", p.Pos(rd.Pos()),
		"the static-set reader consults both Members and MergeSets", "the static-set reader ignores Members or MergeSets: a directory spread over sub-sets lists no members")
}

func c15Keys(m map[string]token.Pos) []string {
	var out []string
	for k := range m {
		out = append(out, k)
	}
	sort.Strings(out)
	return out
}

// c15JSONName extracts the name part of a `json:"name,opts"` struct tag.
func c15JSONName(tag string) string {
	const pfx = `json:"`
	i := strings.Index(tag, pfx)
	if i < 0 {
		return ""
	}
	rest := tag[i+len(pfx):]
	j := strings.IndexByte(rest, '"')
	if j < 0 {
		return ""
	}
	name := rest[:j]
	if c := strings.IndexByte(name, ','); c >= 0 {
		name = name[:c]
	}
	return name
}
