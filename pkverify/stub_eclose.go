package main

// Placeholder until rules_c01.go provides the real E-close rule (shared with C13 as G-enum).
func ruleEClose(p *Program, r *Reporter, as string) {}

// Placeholder until rules_c03.go provides F-order(iii) (shared with C13 as G-tmp).
func ruleGTmpImpl(p *Program, r *Reporter, as string) {}
