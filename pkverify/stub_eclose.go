package main

// Placeholder until rules_c03.go provides F-order(iii) (shared with C13 as G-tmp).
func ruleGTmpImpl(p *Program, r *Reporter, as string) {}
