package main

// Placeholder until rules_c01.go provides the real E-close rule (shared with C13 as G-enum).
func ruleEClose(p *Program, r *Reporter, as string) {}
