package main

import (
	"fmt"
	"go/constant"
	"go/token"
	"go/types"
	"sort"
	"strings"

	"golang.org/x/tools/go/ssa"
)

// C08 — a search returns exactly the matches, whatever candidate source the
// planner picks (pkg/search/query.go).
//
// All rules work on enumerated acyclic CFG paths of small functions (the planner
// predicates and pickCandidateSource) with phi resolution per path, or on
// dominating facts / assumption-pruned reachability in the executor (Query).

func init() {
	register(&PropSpec{
		ID:    "C08",
		Title: "A search returns exactly the matching blobs, however it is planned",
		Explanation: "Decided (structural necessary conditions, pkg/search/query.go): " +
			"P-restrict — for every planner predicate (the *Constraint methods called from pickCandidateSource), on every acyclic CFG path to a return: a result that may restrict the candidates (true / possibly-valid ref / possibly non-empty slice) and that is obtained from a recursive call on an operand of c.Logical (by data flow, or for booleans by a positive branch on the recursive result) is returned only where the path establishes Op==\"and\", or Op==\"or\" together with restricting results from BOTH operands (and, for set/ref-valued predicates, a value built from both); under any other or no Op fact it is a violation; recursion on anything but c.Logical.A/B is undecided. " +
			"P-nil-operand — a recursive call on operand B happens only under an Op fact for which checkValid guarantees B (and/or/xor), unless the predicate tolerates a nil receiver (every receiver dereference is under c!=nil). " +
			"P-sorted — on every path of pickCandidateSource the returned source has a constant 'sorted'; sorted==true only with the enumerator that yields the requested order (EnumeratePermanodesLastModified under q.Sort==LastModifiedDesc, EnumeratePermanodesCreated(fn,true) under q.Sort==CreatedDesc). " +
			"P-source-superset — every source is built from a classified enumerator and a restricted enumerator is entered only on paths where the predicate that justifies it returned a restricting result for q.Constraint (permanode enumerations under onlyMatchesPermanode; by-node-type with the very slice returned by matchesPermanodeTypes known non-empty; single blob with the very ref returned by matchesAtMostOneBlob known valid; camli blobs of type file under matchesFileByWholeRef; camli blobs of c.CamliType under AnyCamliType||CamliType!=\"\"); the executor compiles the matcher from the same constraint the planner looked at. " +
			"P-match — in the enumeration callback a result is appended only where the matcher returned (true, nil). " +
			"P-limit — in the callback every action that can lose results (stopping the enumeration, shrinking res.Blobs) is on the matcher-error path or under the fact cands.sorted. " +
			"P-postsort — with an unsorted source, for every SortType constant that requests an order, every path from the enumeration to a return of a non-nil result passes a sort call (or the query is refused with an error). " +
			"P-truncate — with an unsorted source, 0 < Limit < len(res.Blobs) and any sort but MapSort, every such path truncates res.Blobs by a bounded slice. " +
			"P-nodup — every corpus enumerator a source is built from hands each blob to the callback at most once as far as its loop structure shows: the callback is invoked (directly or through one same-package helper) inside at most one loop, i.e. one pass over one collection; an invocation nested in two or more loops (several collections, or caller-supplied keys) must be guarded by a look-up in a map made in that function (a 'seen' set), or be a recorded exception (one symbol, one reason). " +
			"NOT decided: the meaning of each leaf constraint and of the leaf cases of the predicates (e.g. that a camliNodeType attribute constraint only matches that node type), matcher semantics per constraint kind, that the enumerators really enumerate a superset in the claimed order, that a single collection holds each blob once, the sort comparators and which slice is sorted, the Around window arithmetic, MapSort selection, any concrete world or query.",
		RuleDocs: map[string]string{
			"P-restrict":        "per planner predicate × Op label: contradiction rule over all acyclic paths — a may-restrict result derived from a recursive call needs Op==and, or Op==or with both operands restricting",
			"P-nil-operand":     "per planner predicate: recursion on Logical.B only under Op in {and,or,xor} unless the predicate is nil-receiver tolerant",
			"P-sorted":          "per candidate source (by src.name) of pickCandidateSource: sorted is constant per path; true only with the enumerator/sort pair that yields that order",
			"P-source-superset": "per candidate source: restricted enumerator entered only under the restricting result of its justifying predicate on q.Constraint; matcher compiled from the same constraint",
			"P-match":           "per append to res.Blobs in the enumeration callback: dominated by matcher()==(true,nil)",
			"P-limit":           "per result-losing action in the enumeration callback: on the matcher-error path or under fact cands.sorted",
			"P-postsort":        "per SortType constant: unsorted source ⇒ sort call (or error) on every path from enumeration to a non-nil result",
			"P-nodup":           "per corpus enumerator in the source table × callback invocation: loop depth <= 1, or guarded by a local seen-set look-up, or recorded exception",
			"P-fresh":           "C06's K-inval reported for C08: the generation-stamped sorted-permanode caches behind the sources flagged sorted are invalidated by every live write of a location their order is computed from (generation increment on every such path through Corpus.addBlob), served only on the stamp==generation edge, and the generation only grows",
			"P-truncate":        "per SortType constant except MapSort: unsorted source and 0<Limit<len ⇒ bounded re-slice of res.Blobs on every path to a non-nil result",
		},
		Run:       runC08,
		DesignRef: "DESIGN.md §4 C08",
		Technique: "static analysis: exhaustive acyclic-path enumeration over go/ssa with per-path phi resolution and branch facts (contradiction rule on the planner predicates, constant propagation and table agreement on the planner), dominance facts and assumption-pruned reachability in the executor",
		LevelText: "Decides structural necessary conditions only: the planner predicates combine recursive results soundly for and/or/not/xor; a source is flagged sorted only when its enumerator yields the requested order; every restricted source is guarded by the predicate that justifies it, on the same constraint the matcher is compiled from; results are appended only on a match; results are dropped early only for sorted sources; unsorted sources are post-sorted and truncated; the cached orders the sorted sources enumerate are invalidated by every live write of their inputs. Does not decide matcher semantics, leaf cases of the predicates, enumerator contents/order, comparators, or any concrete query.",
	})
}

const c08Pkg = "pkg/search"

// ---------------------------------------------------------------------------
// generic path machinery (prefixed helpers; candidates for helpers.go)

type c08Path []*ssa.BasicBlock

// c08Paths enumerates the acyclic entry-to-exit paths of fn. why != "" when fn
// has a cycle reachable from entry or more than max paths.
func c08Paths(fn *ssa.Function, max int) (paths []c08Path, why string) {
	if len(fn.Blocks) == 0 {
		return nil, "no body"
	}
	on := map[*ssa.BasicBlock]bool{}
	var cur c08Path
	var walk func(b *ssa.BasicBlock)
	walk = func(b *ssa.BasicBlock) {
		if why != "" {
			return
		}
		if on[b] {
			why = "the function contains a loop (block " + fmt.Sprint(b.Index) + ")"
			return
		}
		on[b] = true
		cur = append(cur, b)
		if len(b.Succs) == 0 {
			paths = append(paths, append(c08Path(nil), cur...))
			if len(paths) > max {
				why = fmt.Sprintf("more than %d paths", max)
			}
		}
		for _, s := range b.Succs {
			walk(s)
		}
		cur = cur[:len(cur)-1]
		on[b] = false
	}
	walk(fn.Blocks[0])
	return
}

func (pth c08Path) index(b *ssa.BasicBlock) int {
	for i, x := range pth {
		if x == b {
			return i
		}
	}
	return -1
}

// norm resolves v to its origin on this path: originValue plus selection of
// the phi edge the path comes in through.
func (pth c08Path) norm(v ssa.Value) ssa.Value {
	for i := 0; i < 24 && v != nil; i++ {
		o := originValue(v)
		ph, ok := o.(*ssa.Phi)
		if !ok {
			return o
		}
		idx := pth.index(ph.Block())
		if idx <= 0 {
			return o
		}
		pred := pth[idx-1]
		var e ssa.Value
		for j, p := range ph.Block().Preds {
			if p == pred {
				e = ph.Edges[j]
				break
			}
		}
		if e == nil {
			return o
		}
		v = e
	}
	return v
}

type c08Branch struct {
	Cond ssa.Value // normalised, leading NOTs folded into Val
	Val  bool
	At   int // index in the path of the block whose If this is
}

func (pth c08Path) branches() []c08Branch {
	var out []c08Branch
	for i := 0; i+1 < len(pth); i++ {
		b := pth[i]
		if len(b.Instrs) == 0 || len(b.Succs) != 2 || b.Succs[0] == b.Succs[1] {
			continue
		}
		ifi, ok := b.Instrs[len(b.Instrs)-1].(*ssa.If)
		if !ok {
			continue
		}
		val := b.Succs[0] == pth[i+1]
		cond := pth.norm(ifi.Cond)
		for {
			u, ok := cond.(*ssa.UnOp)
			if !ok || u.Op != token.NOT {
				break
			}
			cond, val = pth.norm(u.X), !val
		}
		out = append(out, c08Branch{cond, val, i})
	}
	return out
}

func (pth c08Path) String() string {
	var s []string
	for _, b := range pth {
		s = append(s, fmt.Sprint(b.Index))
	}
	return strings.Join(s, ">")
}

// c08FieldLoad decomposes a load of a struct field through a pointer:
// v == *(&X.field). It returns X, the named struct type and the field name.
func c08FieldLoad(v ssa.Value) (base ssa.Value, named *types.Named, field string, ok bool) {
	u, isU := v.(*ssa.UnOp)
	if !isU || u.Op != token.MUL {
		return
	}
	fa, isFA := u.X.(*ssa.FieldAddr)
	if !isFA {
		return
	}
	return c08FieldAddr(fa)
}

func c08FieldAddr(fa *ssa.FieldAddr) (base ssa.Value, named *types.Named, field string, ok bool) {
	pt, isP := fa.X.Type().Underlying().(*types.Pointer)
	if !isP {
		return
	}
	st, isS := pt.Elem().Underlying().(*types.Struct)
	if !isS || fa.Field >= st.NumFields() {
		return
	}
	named, _ = pt.Elem().(*types.Named)
	if named == nil {
		return
	}
	return fa.X, named, st.Field(fa.Field).Name(), true
}

func c08IsType(n *types.Named, rel, name string) bool {
	return n != nil && n.Obj().Name() == name && n.Obj().Pkg() != nil && n.Obj().Pkg().Path() == modPrefix+rel
}

func c08ConstBool(v ssa.Value) (val, ok bool) {
	c, isC := v.(*ssa.Const)
	if !isC || c.Value == nil || c.Value.Kind() != constant.Bool {
		return false, false
	}
	return constant.BoolVal(c.Value), true
}

func c08Cmp(op token.Token, l, r int64) (res, ok bool) {
	switch op {
	case token.EQL:
		return l == r, true
	case token.NEQ:
		return l != r, true
	case token.LSS:
		return l < r, true
	case token.LEQ:
		return l <= r, true
	case token.GTR:
		return l > r, true
	case token.GEQ:
		return l >= r, true
	}
	return false, false
}

// ---------------------------------------------------------------------------
// restricting results of planner predicates

const (
	c08Bool = iota + 1
	c08Slice
	c08Ref
)

func c08ResultKind(fn *ssa.Function) int {
	res := fn.Signature.Results()
	if res.Len() != 1 {
		return 0
	}
	t := res.At(0).Type()
	if b, ok := t.Underlying().(*types.Basic); ok && b.Kind() == types.Bool {
		return c08Bool
	}
	if _, ok := t.Underlying().(*types.Slice); ok {
		return c08Slice
	}
	if IsNamed(t, modPrefix+"pkg/blob", "Ref") {
		if _, isPtr := t.(*types.Pointer); !isPtr {
			return c08Ref
		}
	}
	return 0
}

// c08LenFact: what does (len OP k)==val (or (k OP len)==val) say about len==0?
// +1: len is certainly non-zero, -1: certainly zero, 0: nothing.
func c08LenFact(op token.Token, k int64, lenOnLeft, val bool) int {
	sat := func(n int64) bool {
		l, r := n, k
		if !lenOnLeft {
			l, r = k, n
		}
		res, ok := c08Cmp(op, l, r)
		return ok && res == val
	}
	if _, ok := c08Cmp(op, 0, 0); !ok {
		return 0
	}
	hi := k
	if hi < 0 {
		hi = 0
	}
	pos := false
	for n := int64(1); n <= hi+2; n++ {
		if sat(n) {
			pos = true
		}
	}
	zero := sat(0)
	switch {
	case !zero && pos:
		return 1
	case zero && !pos:
		return -1
	}
	return 0
}

// c08RestrictFact interprets a branch as a statement about the result of a
// predicate call: +1 the result is restricting (true / valid / non-empty),
// -1 it is not. classify tells which calls are predicate calls and their kind.
func c08RestrictFact(pth c08Path, br c08Branch, classify func(*ssa.Call) int) (*ssa.Call, int) {
	sign := func(b bool) int {
		if b {
			return 1
		}
		return -1
	}
	asPred := func(v ssa.Value, kind int) *ssa.Call {
		c, ok := pth.norm(v).(*ssa.Call)
		if ok && classify(c) == kind {
			return c
		}
		return nil
	}
	switch c := br.Cond.(type) {
	case *ssa.Call:
		if classify(c) == c08Bool {
			return c, sign(br.Val)
		}
		if (CallSite{c.Parent(), c}).IsStatic(modPrefix+"pkg/blob", "Ref", "Valid") && len(c.Call.Args) == 1 {
			if pc := asPred(c.Call.Args[0], c08Ref); pc != nil {
				return pc, sign(br.Val)
			}
		}
	case *ssa.BinOp:
		for side := 0; side < 2; side++ {
			x, y := c.X, c.Y
			if side == 1 {
				x, y = y, x
			}
			// len(pred()) OP k
			if lc, ok := pth.norm(x).(*ssa.Call); ok {
				if b, isB := lc.Call.Value.(*ssa.Builtin); isB && b.Name() == "len" && len(lc.Call.Args) == 1 {
					if pc := asPred(lc.Call.Args[0], c08Slice); pc != nil {
						if k, ok := ConstInt(pth.norm(y)); ok {
							return pc, c08LenFact(c.Op, k, side == 0, br.Val)
						}
					}
				}
			}
			// pred() == nil
			if pc := asPred(x, c08Slice); pc != nil && IsNilConst(pth.norm(y)) {
				if (c.Op == token.EQL) == br.Val && (c.Op == token.EQL || c.Op == token.NEQ) {
					return pc, -1
				}
				return pc, 0
			}
		}
	}
	return nil, 0
}

// ---------------------------------------------------------------------------
// P-restrict, P-nil-operand

type c08PredAn struct {
	p     *Program
	fn    *ssa.Function
	kind  int
	preds map[*ssa.Function]bool
}

func (a *c08PredAn) recv() ssa.Value { return a.fn.Params[0] }

// isLogical: v == c.Logical for the receiver c.
func (a *c08PredAn) isLogical(pth c08Path, v ssa.Value) bool {
	base, n, f, ok := c08FieldLoad(pth.norm(v))
	return ok && f == "Logical" && c08IsType(n, c08Pkg, "Constraint") && pth.norm(base) == ssa.Value(a.recv())
}

func (a *c08PredAn) isOpLoad(pth c08Path, v ssa.Value) bool {
	base, n, f, ok := c08FieldLoad(pth.norm(v))
	return ok && f == "Op" && c08IsType(n, c08Pkg, "LogicalConstraint") && a.isLogical(pth, base)
}

// operand returns "A"/"B" when v == c.Logical.A / c.Logical.B.
func (a *c08PredAn) operand(pth c08Path, v ssa.Value) string {
	base, n, f, ok := c08FieldLoad(pth.norm(v))
	if ok && (f == "A" || f == "B") && c08IsType(n, c08Pkg, "LogicalConstraint") && a.isLogical(pth, base) {
		return f
	}
	return ""
}

func (a *c08PredAn) isRec(c *ssa.Call) bool {
	return c != nil && c.Call.StaticCallee() == a.fn
}

func (a *c08PredAn) classify(c *ssa.Call) int {
	if a.isRec(c) {
		return a.kind
	}
	return 0
}

type c08PredState struct {
	opIs     string
	opNot    map[string]bool
	opOpaque bool // a branch depends on Op in a way not understood
	rec      map[*ssa.Call]int
	dead     bool
}

func (st *c08PredState) clone() *c08PredState {
	n := &c08PredState{opIs: st.opIs, opOpaque: st.opOpaque, dead: st.dead, opNot: map[string]bool{}, rec: map[*ssa.Call]int{}}
	for k, v := range st.opNot {
		n.opNot[k] = v
	}
	for k, v := range st.rec {
		n.rec[k] = v
	}
	return n
}

func (st *c08PredState) label() string {
	switch {
	case st.opIs != "":
		return st.opIs
	case len(st.opNot) > 0:
		return "other"
	}
	return "unguarded"
}

// apply folds one branch into the state.
func (a *c08PredAn) apply(pth c08Path, st *c08PredState, br c08Branch) {
	if cv, ok := c08ConstBool(br.Cond); ok {
		if cv != br.Val {
			st.dead = true
		}
		return
	}
	if bo, ok := br.Cond.(*ssa.BinOp); ok && (bo.Op == token.EQL || bo.Op == token.NEQ) {
		for side := 0; side < 2; side++ {
			x, y := bo.X, bo.Y
			if side == 1 {
				x, y = y, x
			}
			if !a.isOpLoad(pth, x) {
				continue
			}
			k, isConst := ConstString(pth.norm(y))
			if !isConst {
				st.opOpaque = true
				return
			}
			if (bo.Op == token.EQL) == br.Val {
				if (st.opIs != "" && st.opIs != k) || st.opNot[k] {
					st.dead = true
				}
				st.opIs = k
			} else {
				if st.opIs == k {
					st.dead = true
				}
				st.opNot[k] = true
			}
			return
		}
	}
	if c, s := c08RestrictFact(pth, br, a.classify); c != nil {
		if s != 0 {
			if st.rec[c] == -s {
				st.dead = true
			}
			st.rec[c] = s
		}
		return
	}
	if DependsOn(br.Cond, func(v ssa.Value) bool { return a.isOpLoad(pth, v) }) {
		st.opOpaque = true
	}
}

// operandStatus folds the facts about all recursive calls on one operand.
func (a *c08PredAn) operandStatus(pth c08Path, st *c08PredState, operand string) int {
	res := 0
	for c, s := range st.rec {
		if len(c.Call.Args) > 0 && a.operand(pth, c.Call.Args[0]) == operand && s != 0 {
			res = s
		}
	}
	return res
}

type c08Deriv struct {
	restrict int             // +1 certainly restricting, -1 certainly not, 0 unknown
	from     map[string]bool // operands whose recursive result flows into the value (those not known non-restricting)
	bad      string
}

func (a *c08PredAn) derive(pth c08Path, st *c08PredState, v ssa.Value, depth int) c08Deriv {
	d := c08Deriv{from: map[string]bool{}}
	v = pth.norm(v)
	dependsOnRec := func(x ssa.Value) bool {
		return DependsOn(x, func(y ssa.Value) bool { c, ok := y.(*ssa.Call); return ok && a.isRec(c) })
	}
	switch x := v.(type) {
	case *ssa.Const:
		if bv, ok := c08ConstBool(x); ok {
			d.restrict = -1
			if bv {
				d.restrict = 1
			}
			return d
		}
		if x.Value == nil { // nil slice, zero Ref
			d.restrict = -1
		}
		return d
	case *ssa.Call:
		if a.isRec(x) {
			op := ""
			if len(x.Call.Args) > 0 {
				op = a.operand(pth, x.Call.Args[0])
			}
			if op == "" {
				d.bad = "recursive call on a receiver that is not c.Logical.A or c.Logical.B"
				return d
			}
			d.restrict = st.rec[x]
			if d.restrict == 0 {
				d.restrict = a.operandStatus(pth, st, op)
			}
			if d.restrict != -1 {
				d.from[op] = true
			}
			return d
		}
		if b, ok := x.Call.Value.(*ssa.Builtin); ok && b.Name() == "append" && depth < 8 {
			allNon, anyPos := true, false
			for _, arg := range x.Call.Args {
				ad := a.derive(pth, st, arg, depth+1)
				if ad.bad != "" {
					return ad
				}
				for k := range ad.from {
					d.from[k] = true
				}
				if ad.restrict != -1 {
					allNon = false
				}
				if ad.restrict == 1 {
					anyPos = true
				}
			}
			switch {
			case anyPos:
				d.restrict = 1
			case allNon:
				d.restrict = -1
			}
			return d
		}
	}
	if dependsOnRec(v) {
		d.bad = "the returned value depends on a recursive result through an operation the rule does not model (" + v.String() + ")"
	}
	return d // leaf value: restricting-ness justified by the constraint's own fields
}

type c08Verdict struct {
	label  string
	status Status
	detail string
	site   token.Pos
}

// nilTolerant: every dereference of the receiver is in a block where c != nil is known.
func (a *c08PredAn) nilTolerant() bool {
	recv := a.recv()
	for _, b := range a.fn.Blocks {
		for _, in := range b.Instrs {
			var x ssa.Value
			switch t := in.(type) {
			case *ssa.FieldAddr:
				x = t.X
			case *ssa.UnOp:
				if t.Op == token.MUL {
					x = t.X
				}
			}
			if x == nil || originValue(x) != ssa.Value(recv) {
				continue
			}
			if k, isNil := NilFact(b, recv); !k || isNil {
				return false
			}
		}
	}
	return true
}

func c08RulePredicates(p *Program, r *Reporter, preds []*ssa.Function) {
	predSet := map[*ssa.Function]bool{}
	for _, f := range preds {
		predSet[f] = true
	}
	nInst, nNil := 0, 0
	for _, fn := range preds {
		key := FuncKey(fn)
		site := p.Pos(fn.Pos())
		a := &c08PredAn{p: p, fn: fn, kind: c08ResultKind(fn), preds: predSet}
		if a.kind == 0 {
			r.Undecided("P-restrict", key+"#result-type", site, "planner predicate with a result type the rule has no notion of 'restricting' for: "+fn.Signature.Results().String())
			continue
		}
		// calls to a different planner predicate are not modelled
		for _, c := range CallsIn(fn, true) {
			if f := c.Callee(); f != nil && f != fn && predSet[f] {
				r.Undecided("P-restrict", key+"#cross-predicate", p.Pos(c.Pos()), "calls planner predicate "+FuncKey(f)+"; cross-predicate recursion is not modelled")
			}
		}
		if len(fn.AnonFuncs) > 0 {
			r.Undecided("P-restrict", key+"#closures", site, "planner predicate contains function literals; not modelled")
			continue
		}
		paths, why := c08Paths(fn, 4000)
		if why != "" {
			r.Undecided("P-restrict", key+"#paths", site, "cannot enumerate the paths of the predicate: "+why)
			continue
		}
		r.Analysed("predicate_paths", len(paths))
		tolerant := a.nilTolerant()
		type agg struct {
			ok, bad, und int
			details      []string
			site         token.Pos
		}
		byLabel := map[string]*agg{}
		get := func(l string) *agg {
			if byLabel[l] == nil {
				byLabel[l] = &agg{}
			}
			return byLabel[l]
		}
		leaf := 0
		nilAgg := map[string]*agg{}
		for _, pth := range paths {
			last := pth[len(pth)-1]
			ret, isRet := last.Instrs[len(last.Instrs)-1].(*ssa.Return)
			brs := pth.branches()
			st := &c08PredState{opNot: map[string]bool{}, rec: map[*ssa.Call]int{}}
			bi := 0
			for i, b := range pth {
				// P-nil-operand: recursive calls on B in this block, with the facts established before it
				for _, in := range b.Instrs {
					c, ok := in.(*ssa.Call)
					if !ok || !a.isRec(c) || st.dead || len(c.Call.Args) == 0 {
						continue
					}
					if a.operand(pth, c.Call.Args[0]) != "B" {
						continue
					}
					g := nilAgg["B"]
					if g == nil {
						g = &agg{site: c.Pos()}
						nilAgg["B"] = g
					}
					switch {
					case tolerant:
						g.ok++
					case st.opIs == "and" || st.opIs == "or" || st.opIs == "xor":
						g.ok++
					default:
						g.bad++
						g.details = append(g.details, fmt.Sprintf("path %s: recursive call on c.Logical.B under Op label %q, but B is nil for Op==\"not\" and %s dereferences its receiver without a nil check", pth, st.label(), fn.Name()))
					}
				}
				for bi < len(brs) && brs[bi].At == i {
					a.apply(pth, st, brs[bi])
					bi++
				}
			}
			if st.dead || !isRet || len(ret.Results) != 1 {
				continue
			}
			d := a.derive(pth, st, ret.Results[0], 0)
			if d.bad != "" {
				g := get(st.label())
				g.und++
				g.site = ret.Pos()
				g.details = append(g.details, fmt.Sprintf("path %s: %s", pth, d.bad))
				continue
			}
			if d.restrict == -1 {
				continue
			}
			pos := map[string]bool{}
			for _, o := range []string{"A", "B"} {
				if a.operandStatus(pth, st, o) == 1 {
					pos[o] = true
				}
			}
			just := map[string]bool{}
			for k := range d.from {
				just[k] = true
			}
			if a.kind == c08Bool {
				if cv, isC := c08ConstBool(pth.norm(ret.Results[0])); isC && cv {
					for k := range pos {
						just[k] = true
					}
				}
			}
			if len(just) == 0 {
				leaf++
				continue
			}
			g := get(st.label())
			g.site = ret.Pos()
			var js []string
			for k := range just {
				js = append(js, k)
			}
			sort.Strings(js)
			switch st.opIs {
			case "and":
				g.ok++
			case "or":
				both := pos["A"] && pos["B"]
				if a.kind != c08Bool {
					both = both && d.from["A"] && d.from["B"]
				}
				if both {
					g.ok++
				} else {
					g.bad++
					g.details = append(g.details, fmt.Sprintf("path %s returns a possibly restricting result obtained from operand(s) %s of an \"or\" without restricting results from both operands (known restricting: %v, value built from: %v): a match of the unrestricted operand would be missed", pth, strings.Join(js, ","), c08Keys(pos), c08Keys(d.from)))
				}
			default:
				if st.opOpaque {
					g.und++
					g.details = append(g.details, fmt.Sprintf("path %s returns a possibly restricting result from operand(s) %s and branches on Op in a way the rule cannot interpret", pth, strings.Join(js, ",")))
				} else {
					g.bad++
					g.details = append(g.details, fmt.Sprintf("path %s returns a possibly restricting result obtained from operand(s) %s under Op label %q (neither \"and\" nor a fully restricted \"or\")", pth, strings.Join(js, ","), st.label()))
				}
			}
		}
		var labels []string
		for l := range byLabel {
			labels = append(labels, l)
		}
		sort.Strings(labels)
		for _, l := range labels {
			g := byLabel[l]
			nInst++
			c := key + "#" + l
			s := p.Pos(g.site)
			switch {
			case g.bad > 0:
				r.Violation("P-restrict", c, s, strings.Join(g.details, "; "))
			case g.und > 0:
				r.Undecided("P-restrict", c, s, strings.Join(g.details, "; "))
			default:
				r.OK("P-restrict", c, s, fmt.Sprintf("%d path(s) return a result justified by recursion under Op==%q; all sound", g.ok, l))
			}
		}
		r.OKTable("P-restrict", key+"#leaf", site, fmt.Sprintf("%d path(s) return a possibly restricting result justified by the constraint's own fields only (leaf semantics not decided)", leaf))
		for o, g := range nilAgg {
			nNil++
			c := key + "#operand-" + o
			how := "recursion on B only under Op in {and,or,xor}"
			if tolerant {
				how = "predicate tolerates a nil receiver"
			}
			r.Check(g.bad == 0, "P-nil-operand", c, p.Pos(g.site), fmt.Sprintf("%d path(s): %s", g.ok, how), strings.Join(c08Uniq(g.details), "; "))
		}
	}
	r.Floor("P-restrict", 5+len(preds)) // and×4 + or×1 recursion-justified labels, plus one #leaf row per predicate
	_ = nInst
	r.Floor("P-nil-operand", 4)
	_ = nNil
}

func c08Keys(m map[string]bool) []string {
	var out []string
	for k, v := range m {
		if v {
			out = append(out, k)
		}
	}
	sort.Strings(out)
	return out
}

func c08Uniq(in []string) []string {
	seen := map[string]bool{}
	var out []string
	for _, s := range in {
		if !seen[s] {
			seen[s] = true
			out = append(out, s)
		}
	}
	if len(out) > 4 {
		out = append(out[:4], fmt.Sprintf("... (%d more)", len(out)-4))
	}
	return out
}

// ---------------------------------------------------------------------------
// the planner: P-sorted, P-source-superset

type c08Source struct {
	class  string // permanodes | permanode-types | one | camli | all
	reason string
}

// c08SourceTable classifies every enumerator a candidate source may be built
// from. One symbol + one reason each; an unknown enumerator is undecided.
var c08SourceTable = map[string]c08Source{
	"pkg/index.(*Corpus).EnumeratePermanodesLastModified": {"permanodes", "all permanodes, newest modtime first"},
	"pkg/index.(*Corpus).EnumeratePermanodesCreated":      {"permanodes", "all permanodes by creation time, newest first iff its bool argument is true"},
	"pkg/index.(*Corpus).EnumeratePermanodesByNodeTypes":  {"permanode-types", "permanodes whose camliNodeType is in the given list"},
	"pkg/index.(*Corpus).EnumerateSingleBlob":             {"one", "the single given blob"},
	"pkg/index.(*Corpus).EnumerateCamliBlobs":             {"camli", "schema blobs of the given camli type ('' = all schema blobs)"},
	"pkg/index.(*Corpus).EnumerateBlobMeta":               {"all", "every blob known to the corpus"},
	"iface:pkg/index.Interface.EnumerateBlobMeta":         {"all", "every blob known to the index"},
}

type c08Planner struct {
	p     *Program
	fn    *ssa.Function
	preds map[*ssa.Function]bool
	sorts map[int64]string // SortType constant value -> name
}

// isConstraintOfQ: v == q.Constraint for the receiver q.
func (pl *c08Planner) isConstraintOfQ(pth c08Path, v ssa.Value) bool {
	base, n, f, ok := c08FieldLoad(pth.norm(v))
	return ok && f == "Constraint" && c08IsType(n, c08Pkg, "SearchQuery") && pth.norm(base) == ssa.Value(pl.fn.Params[0])
}

func (pl *c08Planner) classify(c *ssa.Call) int {
	f := c.Call.StaticCallee()
	if f == nil || !pl.preds[f] {
		return 0
	}
	return c08ResultKind(f)
}

type c08PlanFacts struct {
	pred      map[*ssa.Call]int // predicate call -> +1/-1
	sortIs    string
	anyCamli  bool // c.AnyCamliType known true
	typeSet   bool // c.CamliType != "" known
	dead      bool
	constrOK  map[*ssa.Call]bool // predicate call has q.Constraint as receiver
	sortNames []string
}

func (pl *c08Planner) facts(pth c08Path) *c08PlanFacts {
	pf := &c08PlanFacts{pred: map[*ssa.Call]int{}, constrOK: map[*ssa.Call]bool{}}
	for _, br := range pth.branches() {
		if cv, ok := c08ConstBool(br.Cond); ok {
			if cv != br.Val {
				pf.dead = true
			}
			continue
		}
		if c, s := c08RestrictFact(pth, br, pl.classify); c != nil {
			if s != 0 {
				if pf.pred[c] == -s {
					pf.dead = true
				}
				pf.pred[c] = s
				pf.constrOK[c] = len(c.Call.Args) > 0 && pl.isConstraintOfQ(pth, c.Call.Args[0])
			}
			continue
		}
		// c.AnyCamliType
		if base, n, f, ok := c08FieldLoad(br.Cond); ok && f == "AnyCamliType" && c08IsType(n, c08Pkg, "Constraint") && pl.isConstraintOfQ(pth, base) {
			if br.Val {
				pf.anyCamli = true
			}
			continue
		}
		bo, ok := br.Cond.(*ssa.BinOp)
		if !ok || (bo.Op != token.EQL && bo.Op != token.NEQ) {
			continue
		}
		for side := 0; side < 2; side++ {
			x, y := pth.norm(bo.X), pth.norm(bo.Y)
			if side == 1 {
				x, y = y, x
			}
			base, n, f, ok := c08FieldLoad(x)
			if !ok {
				continue
			}
			truth := (bo.Op == token.EQL) == br.Val
			switch {
			case f == "Sort" && c08IsType(n, c08Pkg, "SearchQuery") && pth.norm(base) == ssa.Value(pl.fn.Params[0]):
				if k, ok := ConstInt(y); ok && truth {
					name := pl.sorts[k]
					if pf.sortIs != "" && pf.sortIs != name {
						pf.dead = true
					}
					pf.sortIs = name
				}
			case f == "CamliType" && c08IsType(n, c08Pkg, "Constraint") && pl.isConstraintOfQ(pth, base):
				if s, ok := ConstString(y); ok && s == "" && !truth {
					pf.typeSet = true
				}
			}
		}
	}
	return pf
}

// has reports whether predicate name returned a restricting result for
// q.Constraint on this path, and returns the call.
func (pf *c08PlanFacts) has(name string) *ssa.Call {
	for c, s := range pf.pred {
		if s == 1 && pf.constrOK[c] && c.Call.StaticCallee().Name() == name {
			return c
		}
	}
	return nil
}

type c08Plan struct {
	pth       c08Path
	ret       *ssa.Return
	name      string
	sorted    bool
	sortedSet string // how sorted was determined
	send      *ssa.Function
	enum      CallSite
	bad       string
}

// plan reconstructs the candidateSource returned at the end of the path.
func (pl *c08Planner) plan(pth c08Path) *c08Plan {
	out := &c08Plan{pth: pth}
	last := pth[len(pth)-1]
	ret, ok := last.Instrs[len(last.Instrs)-1].(*ssa.Return)
	if !ok {
		return nil // panic exit
	}
	out.ret = ret
	if len(ret.Results) != 1 {
		out.bad = "unexpected number of results"
		return out
	}
	ld, ok := ret.Results[0].(*ssa.UnOp)
	var cell *ssa.Alloc
	if ok && ld.Op == token.MUL {
		cell, _ = ld.X.(*ssa.Alloc)
	}
	if cell == nil {
		out.bad = "the returned candidateSource is not read from a local variable; cannot propagate its fields"
		return out
	}
	var nameV, sortedV, sendV ssa.Value
	for _, b := range pth {
		for _, in := range b.Instrs {
			st, ok := in.(*ssa.Store)
			if !ok {
				continue
			}
			if st.Addr == ssa.Value(cell) {
				out.bad = "whole-struct assignment to the returned candidateSource; not modelled"
				return out
			}
			fa, ok := st.Addr.(*ssa.FieldAddr)
			if !ok || fa.X != ssa.Value(cell) {
				continue
			}
			_, _, f, ok := c08FieldAddr(fa)
			if !ok {
				continue
			}
			switch f {
			case "name":
				nameV = st.Val
			case "sorted":
				sortedV = st.Val
			case "send":
				sendV = st.Val
			}
		}
	}
	// the variable's address must not escape (field stores are the only writers)
	if refs := cell.Referrers(); refs != nil {
		for _, rf := range *refs {
			switch rf.(type) {
			case *ssa.FieldAddr, *ssa.UnOp, *ssa.DebugRef:
			default:
				out.bad = "the returned candidateSource variable escapes (" + rf.String() + ")"
				return out
			}
		}
	}
	if nameV != nil {
		out.name, _ = ConstString(pth.norm(nameV))
	}
	if out.name == "" {
		out.bad = "src.name is not a constant string on this path"
		return out
	}
	if sortedV == nil {
		out.sorted, out.sortedSet = false, "never assigned (zero value)"
	} else if bv, ok := c08ConstBool(pth.norm(sortedV)); ok {
		out.sorted, out.sortedSet = bv, "constant store"
	} else {
		out.bad = "src.sorted is not a constant on this path"
		return out
	}
	if sendV == nil {
		out.bad = "src.send is not assigned on this path"
		return out
	}
	switch f := pth.norm(sendV).(type) {
	case *ssa.MakeClosure:
		out.send = f.Fn.(*ssa.Function)
	case *ssa.Function:
		out.send = f
	default:
		out.bad = "src.send is not a function literal or declared function"
		return out
	}
	// the enumerator: the call inside send that receives send's callback parameter
	var cbs []*ssa.Parameter
	for _, prm := range out.send.Params {
		if _, ok := prm.Type().Underlying().(*types.Signature); ok {
			cbs = append(cbs, prm)
		}
	}
	var enums []CallSite
	for _, c := range CallsIn(out.send, true) {
		for _, arg := range c.Args() {
			o := originValue(arg)
			for _, cb := range cbs {
				if o == ssa.Value(cb) {
					enums = append(enums, c)
				}
			}
		}
	}
	if len(enums) != 1 {
		out.bad = fmt.Sprintf("send passes its callback to %d calls; expected exactly one enumerator", len(enums))
		return out
	}
	out.enum = enums[0]
	return out
}

func c08RulePlanner(p *Program, r *Reporter, pick *ssa.Function, preds map[*ssa.Function]bool, sorts map[int64]string) {
	key := FuncKey(pick)
	for k := range c08SourceTable {
		if !strings.HasPrefix(k, "iface:") {
			i := strings.LastIndex(k, ".")
			p.Func("pkg/index", "Corpus", k[i+1:])
		}
	}
	paths, why := c08Paths(pick, 4000)
	if why != "" {
		r.Undecided("P-sorted", key+"#paths", p.Pos(pick.Pos()), "cannot enumerate the planner's paths: "+why)
		return
	}
	r.Analysed("planner_paths", len(paths))
	pl := &c08Planner{p: p, fn: pick, preds: preds, sorts: sorts}
	type res struct {
		st     Status
		detail string
		site   token.Pos
		table  bool
	}
	merge := func(m map[string]*res, k string, st Status, site token.Pos, table bool, detail string) {
		cur := m[k]
		rank := map[Status]int{Discharged: 0, Undecided: 1, Violated: 2}
		if cur == nil || rank[st] > rank[cur.st] {
			m[k] = &res{st, detail, site, table}
		} else if cur.st == st && !strings.Contains(cur.detail, detail) && st != Discharged {
			cur.detail += "; " + detail
		} else if cur.st == Discharged && !table {
			cur.table = false
		}
	}
	sortedRes, superRes := map[string]*res{}, map[string]*res{}
	for _, pth := range paths {
		pf := pl.facts(pth)
		if pf.dead {
			continue
		}
		pn := pl.plan(pth)
		if pn == nil {
			continue
		}
		if pn.bad != "" {
			k := key + "#" + pn.name
			if pn.name == "" {
				k = key + "#path-" + pth.String()
			}
			merge(sortedRes, k, Undecided, pn.ret.Pos(), false, "path "+pth.String()+": "+pn.bad)
			continue
		}
		k := key + "#" + pn.name
		site := pn.ret.Pos()
		ek := pn.enum.CalleeKey()
		src, known := c08SourceTable[ek]
		if !known {
			d := "path " + pth.String() + ": source built from unclassified enumerator " + ek + "; classify it (what it enumerates, in which order) in c08SourceTable"
			merge(sortedRes, k, Undecided, site, false, d)
			merge(superRes, k, Undecided, site, false, d)
			continue
		}
		args := pn.enum.Args()
		// ---- P-sorted
		if !pn.sorted {
			merge(sortedRes, k, Discharged, site, true, "sorted=false ("+pn.sortedSet+"): the executor post-sorts")
		} else {
			want := ""
			switch ek {
			case "pkg/index.(*Corpus).EnumeratePermanodesLastModified":
				want = "LastModifiedDesc"
			case "pkg/index.(*Corpus).EnumeratePermanodesCreated":
				if len(args) == 3 {
					if nf, ok := c08ConstBool(originValue(args[2])); ok {
						want = "CreatedAsc"
						if nf {
							want = "CreatedDesc"
						}
					}
				}
			}
			switch {
			case want == "":
				merge(sortedRes, k, Violated, site, false, "path "+pth.String()+": sorted=true with enumerator "+ek+" which yields no query sort order ("+src.reason+")")
			case pf.sortIs != want:
				merge(sortedRes, k, Violated, site, false, fmt.Sprintf("path %s: sorted=true with %s, which yields %s order, but the path establishes q.Sort==%q", pth, ek, want, pf.sortIs))
			default:
				merge(sortedRes, k, Discharged, site, false, "sorted=true with "+ek+" under q.Sort=="+want)
			}
		}
		// ---- P-source-superset
		need := func(pred string) *ssa.Call { return pf.has(pred) }
		bad := func(d string) { merge(superRes, k, Violated, site, false, "path "+pth.String()+": "+d) }
		good := func(d string) { merge(superRes, k, Discharged, site, false, d) }
		switch src.class {
		case "all":
			merge(superRes, k, Discharged, site, true, "unrestricted source ("+src.reason+")")
		case "permanodes":
			if need("onlyMatchesPermanode") == nil {
				bad("permanode-only enumerator " + ek + " entered without onlyMatchesPermanode()==true for q.Constraint")
			} else {
				good("permanode-only enumerator under onlyMatchesPermanode()")
			}
		case "permanode-types":
			c := need("matchesPermanodeTypes")
			switch {
			case need("onlyMatchesPermanode") == nil:
				bad("by-node-type enumerator entered without onlyMatchesPermanode()==true for q.Constraint")
			case c == nil:
				bad("by-node-type enumerator entered without a non-empty matchesPermanodeTypes() result for q.Constraint")
			case len(args) != 3 || originValue(args[2]) != ssa.Value(c):
				bad("the type list passed to the enumerator is not the slice returned by the matchesPermanodeTypes() call that was tested non-empty")
			default:
				good("by-node-type enumerator under onlyMatchesPermanode() with the non-empty matchesPermanodeTypes() result")
			}
		case "one":
			c := need("matchesAtMostOneBlob")
			switch {
			case c == nil:
				bad("single-blob enumerator entered without a valid matchesAtMostOneBlob() result for q.Constraint")
			case len(args) != 3 || originValue(args[2]) != ssa.Value(c):
				bad("the ref passed to the enumerator is not the one returned by the matchesAtMostOneBlob() call that was tested valid")
			default:
				good("single-blob enumerator with the valid matchesAtMostOneBlob() result")
			}
		case "camli":
			if len(args) != 3 {
				merge(superRes, k, Undecided, site, false, "unexpected arity of EnumerateCamliBlobs")
				break
			}
			tv := originValue(args[1])
			if s, ok := ConstString(tv); ok {
				switch {
				case s == "file" && need("matchesFileByWholeRef") != nil:
					good("file-blob enumerator under matchesFileByWholeRef()")
				case s == "file":
					bad("file-blob enumerator entered without matchesFileByWholeRef()==true for q.Constraint")
				case s == "permanode" && need("onlyMatchesPermanode") != nil:
					good("permanode-blob enumerator under onlyMatchesPermanode()")
				default:
					merge(superRes, k, Undecided, site, false, fmt.Sprintf("path %s: camli-blob enumerator restricted to constant type %q: no justifying predicate is recorded for it", pth, s))
				}
				break
			}
			base, n, f, ok := c08FieldLoad(tv)
			if ok && f == "CamliType" && c08IsType(n, c08Pkg, "Constraint") && pl.isConstraintOfQ(pth, base) {
				if pf.anyCamli || pf.typeSet {
					good("camli-blob enumerator of q.Constraint.CamliType under AnyCamliType || CamliType != \"\"")
				} else {
					bad("camli-blob enumerator of q.Constraint.CamliType entered without AnyCamliType || CamliType != \"\": a constraint that also matches non-schema blobs would miss them")
				}
				break
			}
			merge(superRes, k, Undecided, site, false, "path "+pth.String()+": the camli type passed to the enumerator is neither a constant nor q.Constraint.CamliType")
		default:
			merge(superRes, k, Undecided, site, false, "unknown source class "+src.class)
		}
	}
	emit := func(rule string, m map[string]*res) {
		var ks []string
		for k := range m {
			ks = append(ks, k)
		}
		sort.Strings(ks)
		for _, k := range ks {
			x := m[k]
			s := p.Pos(x.site)
			switch x.st {
			case Violated:
				r.Violation(rule, k, s, x.detail)
			case Undecided:
				r.Undecided(rule, k, s, x.detail)
			default:
				if x.table {
					r.OKTable(rule, k, s, x.detail)
				} else {
					r.OK(rule, k, s, x.detail)
				}
			}
		}
	}
	emit("P-sorted", sortedRes)
	emit("P-source-superset", superRes)
	r.Floor("P-sorted", 7)
	r.Floor("P-source-superset", 8) // 7 sources + #same-constraint
}

// ---------------------------------------------------------------------------
// P-nodup

// c08NoDupExceptions: enumerators whose nested loops provably visit disjoint
// collections. One symbol, one reason.
var c08NoDupExceptions = map[string]string{
	"pkg/index.(*Corpus).EnumerateCamliBlobs": "c.camBlobs partitions the schema blobs by their own (single) CamliType: mergeMetaRow files a blob under bm.CamliType only, so the inner maps are disjoint",
}

// c08LoopDepth counts the natural loops containing block b.
func c08LoopDepth(b *ssa.BasicBlock) int {
	n := 0
	for _, h := range b.Parent().Blocks {
		if !h.Dominates(b) {
			continue
		}
		in := false
		for _, p := range h.Preds {
			if !h.Dominates(p) {
				continue
			}
			// back edge p->h: body = blocks reaching p without passing h
			seen := map[*ssa.BasicBlock]bool{h: true}
			var walk func(x *ssa.BasicBlock)
			walk = func(x *ssa.BasicBlock) {
				if seen[x] {
					return
				}
				seen[x] = true
				for _, q := range x.Preds {
					walk(q)
				}
			}
			walk(p)
			if seen[b] {
				in = true
			}
		}
		if in {
			n++
		}
	}
	return n
}

type c08CbSite struct {
	in    ssa.CallInstruction
	fn    *ssa.Function
	depth int
	via   string
}

// c08CallbackSites finds where fn's parameter prm is invoked, following one
// level of static pass-through helpers.
func c08CallbackSites(fn *ssa.Function, prm *ssa.Parameter, outer int, via string, level int) (sites []c08CbSite, bad string) {
	for _, c := range CallsIn(fn, true) {
		cc := c.Common()
		if !cc.IsInvoke() && originValue(cc.Value) == ssa.Value(prm) {
			if c.Fn != fn {
				return nil, "callback invoked from a function literal inside " + FuncKey(fn)
			}
			sites = append(sites, c08CbSite{c.Instr, fn, outer + c08LoopDepth(c.Block()), via})
			continue
		}
		for i, a := range c.Args() {
			if originValue(a) != ssa.Value(prm) {
				continue
			}
			callee := c.Callee()
			if callee == nil || callee.Blocks == nil || c.Fn != fn || level >= 2 || i >= len(callee.Params) {
				return nil, "callback passed on to " + c.CalleeKey() + ", which the rule cannot follow"
			}
			sub, b := c08CallbackSites(callee, callee.Params[i], outer+c08LoopDepth(c.Block()), via+" -> "+FuncKey(callee), level+1)
			if b != "" {
				return nil, b
			}
			sites = append(sites, sub...)
		}
	}
	return sites, ""
}

func c08SeenGuarded(s c08CbSite) bool {
	for _, f := range FactsAt(s.in.Block()) {
		if DependsOn(f.Cond, func(v ssa.Value) bool {
			lk, ok := v.(*ssa.Lookup)
			if !ok {
				return false
			}
			_, isMake := originValue(lk.X).(*ssa.MakeMap)
			return isMake
		}) {
			return true
		}
	}
	return false
}

func c08RuleNoDup(p *Program, r *Reporter) {
	var keys []string
	for k := range c08SourceTable {
		if !strings.HasPrefix(k, "iface:") {
			keys = append(keys, k)
		}
	}
	sort.Strings(keys)
	for _, k := range keys {
		fn := p.Func("pkg/index", "Corpus", k[strings.LastIndex(k, ".")+1:])
		site := p.Pos(fn.Pos())
		var cb *ssa.Parameter
		for _, prm := range fn.Params {
			if _, ok := prm.Type().Underlying().(*types.Signature); ok {
				cb = prm
			}
		}
		if cb == nil {
			r.Undecided("P-nodup", k+"#callback", site, "enumerator has no callback parameter")
			continue
		}
		sites, bad := c08CallbackSites(fn, cb, 0, FuncKey(fn), 0)
		if bad != "" {
			r.Undecided("P-nodup", k+"#callback", site, bad)
			continue
		}
		if len(sites) == 0 {
			r.Undecided("P-nodup", k+"#callback", site, "the enumerator never invokes its callback")
			continue
		}
		for i, s := range sites {
			c := fmt.Sprintf("%s#callback/%d", k, i+1)
			at := p.Pos(s.in.Pos())
			switch {
			case s.depth <= 1:
				r.OK("P-nodup", c, at, fmt.Sprintf("callback invoked at loop depth %d (%s): one pass over one collection", s.depth, s.via))
			case c08SeenGuarded(s):
				r.OK("P-nodup", c, at, fmt.Sprintf("callback invoked at loop depth %d under a look-up in a locally made seen-set", s.depth))
			case c08NoDupExceptions[k] != "":
				r.OKTable("P-nodup", c, at, fmt.Sprintf("loop depth %d, recorded exception: %s", s.depth, c08NoDupExceptions[k]))
			default:
				r.Violation("P-nodup", c, at, fmt.Sprintf("callback invoked at loop depth %d (%s) without a seen-set guard: a blob contained in several of the visited collections, or a key supplied twice by the planner, is handed to the matcher more than once and returned as a duplicate result", s.depth, s.via))
			}
		}
	}
	r.Floor("P-nodup", 7)
}

// ---------------------------------------------------------------------------
// the executor (Query): P-match, P-limit, P-postsort, P-truncate

type c08Exec struct {
	p        *Program
	fn       *ssa.Function
	pickCall *ssa.Call
	cell     *ssa.Alloc // cands
	sendCall CallSite
	callback *ssa.Function
}

// isCandsField: v is a load of field `field` of the cands variable (also from inside literals).
func (e *c08Exec) isCandsField(v ssa.Value, field string) bool {
	base, n, f, ok := c08FieldLoad(v)
	if !ok || f != field || !c08IsType(n, c08Pkg, "candidateSource") {
		return false
	}
	c, ok := varOf(base)
	return ok && c == ssa.Value(e.cell)
}

func c08IsQueryField(v ssa.Value, typ, field string) bool {
	_, n, f, ok := c08FieldLoad(v)
	return ok && f == field && c08IsType(n, c08Pkg, typ)
}

func c08IsLenOfBlobs(v ssa.Value) bool {
	c, ok := v.(*ssa.Call)
	if !ok {
		return false
	}
	b, isB := c.Call.Value.(*ssa.Builtin)
	return isB && b.Name() == "len" && len(c.Call.Args) == 1 && c08IsQueryField(c.Call.Args[0], "SearchResult", "Blobs")
}

func c08IsSortCall(c CallSite) bool {
	for _, n := range []string{"Sort", "Stable", "Slice", "SliceStable"} {
		if c.IsStatic("sort", "", n) {
			return true
		}
	}
	for _, n := range []string{"SortFunc", "SortStableFunc", "Sort"} {
		if c.IsStatic("slices", "", n) {
			return true
		}
	}
	return false
}

// storeToBlobs: in is `X.Blobs = v` for a SearchResult X; returns v.
func c08StoreToBlobs(in ssa.Instruction) ssa.Value {
	st, ok := in.(*ssa.Store)
	if !ok {
		return nil
	}
	fa, ok := st.Addr.(*ssa.FieldAddr)
	if !ok {
		return nil
	}
	_, n, f, ok := c08FieldAddr(fa)
	if !ok || f != "Blobs" || !c08IsType(n, c08Pkg, "SearchResult") {
		return nil
	}
	return st.Val
}

func c08FindExec(p *Program, r *Reporter, pick *ssa.Function) []*c08Exec {
	var out []*c08Exec
	for _, cs := range p.StaticCallers(pick) {
		if IsTestSupportPkg(RelPkg(cs.Fn.Pkg.Pkg)) {
			continue
		}
		key := FuncKey(cs.Fn)
		site := p.Pos(cs.Pos())
		call := cs.Value()
		if call == nil {
			r.Undecided("P-limit", key+"#pick", site, "pickCandidateSource started by go/defer")
			continue
		}
		e := &c08Exec{p: p, fn: cs.Fn, pickCall: call}
		if refs := call.Referrers(); refs != nil {
			for _, rf := range *refs {
				if st, ok := rf.(*ssa.Store); ok && st.Val == ssa.Value(call) {
					if al, ok := st.Addr.(*ssa.Alloc); ok && len(storesTo(al)) == 1 {
						e.cell = al
					}
				}
			}
		}
		if e.cell == nil {
			r.Undecided("P-limit", key+"#cands", site, "the result of pickCandidateSource is not kept in a single-assignment local variable")
			continue
		}
		var sends []CallSite
		for _, c := range CallsIn(cs.Fn, true) {
			if c.Common().IsInvoke() {
				continue
			}
			if e.isCandsField(originValue(c.Common().Value), "send") {
				sends = append(sends, c)
			}
		}
		if len(sends) != 1 || sends[0].Fn != cs.Fn || sends[0].Value() == nil {
			r.Undecided("P-limit", key+"#send", site, fmt.Sprintf("expected exactly one direct call of cands.send in the executor, found %d", len(sends)))
			continue
		}
		e.sendCall = sends[0]
		cbs := FuncArgClosures(e.sendCall)
		if len(cbs) != 1 {
			r.Undecided("P-limit", key+"#callback", site, "the callback passed to cands.send is not a single function literal")
			continue
		}
		e.callback = cbs[0]
		out = append(out, e)
	}
	return out
}

func c08RuleExecutor(p *Program, r *Reporter, e *c08Exec, sorts map[int64]string) {
	key := FuncKey(e.fn)
	cb := e.callback
	matcherFn := p.Func(c08Pkg, "Constraint", "matcher")

	// --- the matcher call inside the callback
	var mcall *ssa.Call
	nm := 0
	for _, c := range CallsIn(cb, false) {
		if c.Common().IsInvoke() || c.Value() == nil {
			continue
		}
		if src, ok := originValue(c.Common().Value).(*ssa.Call); ok && src.Call.StaticCallee() == matcherFn {
			mcall = c.Value()
			nm++
			// same constraint as the planner
			okSame := false
			if len(src.Call.Args) == 1 {
				if base, n, f, ok := c08FieldLoad(originValue(src.Call.Args[0])); ok && f == "Constraint" && c08IsType(n, c08Pkg, "SearchQuery") {
					okSame = originValue(base) == originValue(e.pickCall.Call.Args[0])
				}
			}
			r.Check(okSame, "P-source-superset", key+"#same-constraint", p.Pos(src.Pos()),
				"the matcher is compiled from the Constraint of the very SearchQuery the planner was called on",
				"the matcher applied to the candidates is not compiled from <planner receiver>.Constraint: the planner's restriction is justified by a different constraint than the one matched")
		}
	}
	if nm != 1 {
		r.Undecided("P-match", key+"#matcher", p.Pos(cb.Pos()), fmt.Sprintf("expected exactly one call of the compiled matcher in the enumeration callback, found %d", nm))
		return
	}
	matchVal := ResultValue(mcall, 0)
	errVal := ResultValue(mcall, 1)

	underMatch := func(b *ssa.BasicBlock) bool {
		if matchVal == nil {
			return false
		}
		for _, f := range FactsAt(b) {
			cond, val := f.Cond, f.Val
			for {
				u, ok := cond.(*ssa.UnOp)
				if !ok || u.Op != token.NOT {
					break
				}
				cond, val = u.X, !val
			}
			if val && originValue(cond) == matchVal {
				return true
			}
		}
		return false
	}
	underSorted := func(b *ssa.BasicBlock) bool {
		for _, f := range FactsAt(b) {
			cond, val := f.Cond, f.Val
			for {
				u, ok := cond.(*ssa.UnOp)
				if !ok || u.Op != token.NOT {
					break
				}
				cond, val = u.X, !val
			}
			if val && e.isCandsField(originValue(cond), "sorted") {
				return true
			}
		}
		return false
	}
	errPath := func(b *ssa.BasicBlock) bool {
		if errVal == nil {
			return false
		}
		k, isNil := NilFact(b, errVal)
		return k && !isNil
	}
	errNil := func(b *ssa.BasicBlock) bool {
		if errVal == nil {
			return false
		}
		k, isNil := NilFact(b, errVal)
		return k && isNil
	}

	// --- P-match and P-limit over the callback (nested literals are not expected)
	nAppend, nLose := 0, 0
	for _, b := range cb.Blocks {
		for _, in := range b.Instrs {
			if v := c08StoreToBlobs(in); v != nil {
				switch x := originValue(v).(type) {
				case *ssa.Call:
					if bi, ok := x.Call.Value.(*ssa.Builtin); ok && bi.Name() == "append" {
						nAppend++
						r.Check(underMatch(b) && errNil(b), "P-match", fmt.Sprintf("%s#append/%d", key, nAppend), p.Pos(in.Pos()),
							"result appended only where the matcher returned (true, nil)",
							"a candidate is appended to res.Blobs on a path where the matcher did not return (true, nil): non-matching blobs would be returned")
						continue
					}
					r.Undecided("P-limit", fmt.Sprintf("%s#blobs-store/%s", key, x.Name()), p.Pos(in.Pos()), "res.Blobs assigned from a call the rule does not model")
				case *ssa.Slice:
					nLose++
					r.Check(errPath(b) || underSorted(b), "P-limit", fmt.Sprintf("%s#shrink/%d", key, nLose), p.Pos(in.Pos()),
						"res.Blobs is shrunk during enumeration only under fact cands.sorted",
						"res.Blobs is shrunk during enumeration without the fact cands.sorted: with an unsorted source arbitrary matches are dropped before the post-sort")
				case *ssa.Const:
					nLose++
					r.Check(errPath(b) || underSorted(b), "P-limit", fmt.Sprintf("%s#shrink/%d", key, nLose), p.Pos(in.Pos()),
						"res.Blobs is reset during enumeration only under fact cands.sorted", "res.Blobs is reset during enumeration without the fact cands.sorted")
				default:
					r.Undecided("P-limit", fmt.Sprintf("%s#blobs-store", key), p.Pos(in.Pos()), "res.Blobs assigned a value the rule does not model: "+v.String())
				}
			}
		}
	}
	nStop := 0
	for _, ri := range Returns(cb) {
		if len(ri.Results) != 1 {
			continue
		}
		if cv, ok := c08ConstBool(originValue(ri.Results[0])); ok && cv {
			continue // "continue enumerating" never loses a result
		}
		nStop++
		nLose++
		b := ri.Ret.Block()
		// phi of constants: look at each incoming edge that may be false
		okAll := true
		if ph, ok := ri.Results[0].(*ssa.Phi); ok {
			for i, ed := range ph.Edges {
				if cv, ok := c08ConstBool(originValue(ed)); ok && cv {
					continue
				}
				pb := ph.Block().Preds[i]
				if !(errPath(pb) || underSorted(pb) || errPath(b) || underSorted(b)) {
					okAll = false
				}
			}
		} else {
			okAll = errPath(b) || underSorted(b)
		}
		r.Check(okAll, "P-limit", fmt.Sprintf("%s#stop/%d", key, nStop), p.Pos(ri.Ret.Pos()),
			"enumeration is stopped early only on the matcher-error path or under fact cands.sorted",
			"the callback may return false (stop the enumeration) without the fact cands.sorted and not on the error path: with an unsorted source the remaining candidates, which may sort first, are never seen")
	}
	r.Floor("P-match", 1)
	r.Floor("P-limit", 5)

	// --- P-postsort / P-truncate in the executor
	retRes := map[*ssa.Return][]ssa.Value{}
	for _, ri := range Returns(e.fn) {
		retRes[ri.Ret] = ri.Results
	}
	exitOK := func(exit ssa.Instruction) bool {
		ret, ok := exit.(*ssa.Return)
		if !ok {
			return false
		}
		rs := retRes[ret]
		return len(rs) > 0 && IsNilConst(originValue(rs[0])) // no result returned
	}
	noOrder := map[string]string{
		"UnspecifiedSort": "no order requested",
		"Unsorted":        "no order requested",
		"MapSort":         "a selection (bestByLocation), not an order",
	}
	var ks []int64
	for k := range sorts {
		ks = append(ks, k)
	}
	sort.Slice(ks, func(i, j int) bool { return ks[i] < ks[j] })
	qRecv := originValue(e.pickCall.Call.Args[0])
	for _, k := range ks {
		name := sorts[k]
		opaque := false
		// concrete model for P-truncate: 0 < Limit < len(res.Blobs), with wide gaps so
		// that comparisons against small literals come out the same for any such world
		const modelLimit, modelLen = int64(1) << 20, int64(1) << 21
		model := func(v ssa.Value) (int64, bool) {
			v = originValue(v)
			if n, ok := ConstInt(v); ok && n >= 0 && n < 1<<10 {
				return n, true
			}
			if c08IsQueryField(v, "SearchQuery", "Limit") {
				return modelLimit, true
			}
			if c08IsLenOfBlobs(v) {
				return modelLen, true
			}
			return 0, false
		}
		mkAssume := func(withLimit bool) func(cond ssa.Value) (bool, bool) {
			return func(cond ssa.Value) (bool, bool) {
				neg := false
				cond = originValue(cond)
				for {
					u, ok := cond.(*ssa.UnOp)
					if !ok || u.Op != token.NOT {
						break
					}
					cond, neg = originValue(u.X), !neg
				}
				if e.isCandsField(cond, "sorted") {
					return true, neg // sorted == false
				}
				if bo, ok := cond.(*ssa.BinOp); ok {
					x, y := originValue(bo.X), originValue(bo.Y)
					for side := 0; side < 2; side++ {
						if side == 1 {
							x, y = y, x
						}
						if base, n, f, ok := c08FieldLoad(x); ok && f == "Sort" && c08IsType(n, c08Pkg, "SearchQuery") && originValue(base) == qRecv {
							if c, ok := ConstInt(y); ok {
								l, rr := k, c
								if side == 1 {
									l, rr = c, k
								}
								if res, ok := c08Cmp(bo.Op, l, rr); ok {
									return true, res != neg
								}
							}
							opaque = true
							return false, false
						}
					}
					if withLimit {
						mx, okx := model(bo.X)
						my, oky := model(bo.Y)
						if okx && oky && (mx >= modelLimit || my >= modelLimit) {
							if res, ok := c08Cmp(bo.Op, mx, my); ok {
								return true, res != neg
							}
						}
					}
				}
				if DependsOn(cond, func(v ssa.Value) bool {
					return e.isCandsField(v, "sorted") || c08IsQueryField(v, "SearchQuery", "Sort")
				}) {
					opaque = true
				}
				return false, false
			}
		}
		report := func(rule, construct string, leaks []Leak, okDetail, badDetail string) {
			site := p.Pos(e.sendCall.Pos())
			if len(leaks) == 0 {
				r.OK(rule, construct, site, okDetail)
				return
			}
			var via []string
			for _, l := range leaks {
				via = append(via, "exit at "+p.Pos(l.Exit.Pos())+" via blocks "+blockNames(l.Via))
			}
			if opaque {
				r.Undecided(rule, construct, site, "a branch on cands.sorted / q.Sort could not be interpreted; "+strings.Join(via, "; "))
				return
			}
			r.Violation(rule, construct, p.Pos(leaks[0].Exit.Pos()), badDetail+": "+strings.Join(via, "; "))
		}
		// P-postsort
		c := key + "#unsorted+" + name
		if why, ok := noOrder[name]; ok {
			r.OKTable("P-postsort", c, p.Pos(e.sendCall.Pos()), "no post-sort needed: "+why)
		} else {
			opaque = false
			leaks := LeakingExits(PathQuery{
				Start:        e.sendCall.Instr,
				Stop:         func(in ssa.Instruction) bool { ci, ok := in.(ssa.CallInstruction); return ok && c08IsSortCall(CallSite{e.fn, ci}) },
				Assume:       mkAssume(false),
				ExitOK:       exitOK,
				IgnorePanics: true,
			})
			report("P-postsort", c, leaks,
				"with an unsorted source and q.Sort=="+name+" every path from the enumeration to a non-nil result passes a sort call (or the query is refused)",
				"with an unsorted source and q.Sort=="+name+" a result is returned without passing any sort call")
		}
		// P-truncate
		if name == "MapSort" {
			r.OKTable("P-truncate", c, p.Pos(e.sendCall.Pos()), "MapSort: the limit is applied by bestByLocation (not decided)")
			continue
		}
		opaque = false
		leaks := LeakingExits(PathQuery{
			Start: e.sendCall.Instr,
			Stop: func(in ssa.Instruction) bool {
				v := c08StoreToBlobs(in)
				if v == nil {
					return false
				}
				sl, ok := originValue(v).(*ssa.Slice)
				return ok && sl.High != nil
			},
			Assume:       mkAssume(true),
			ExitOK:       exitOK,
			IgnorePanics: true,
		})
		report("P-truncate", c, leaks,
			"with an unsorted source, q.Sort=="+name+" and 0<Limit<len(res.Blobs) every path to a non-nil result re-slices res.Blobs with an upper bound (or the query is refused)",
			"with an unsorted source, q.Sort=="+name+" and 0<Limit<len(res.Blobs) a result is returned without truncating res.Blobs")
	}
	r.Floor("P-postsort", len(sorts)-1)
	r.Floor("P-truncate", len(sorts)-1)
}

// ---------------------------------------------------------------------------

func runC08(p *Program, r *Reporter) {
	pick := p.Func(c08Pkg, "SearchQuery", "pickCandidateSource")
	// anchors by name (exit 2 when renamed): the four predicates the source table refers to
	named := []*ssa.Function{
		p.Func(c08Pkg, "Constraint", "matchesPermanodeTypes"),
		p.Func(c08Pkg, "Constraint", "matchesAtMostOneBlob"),
		p.Func(c08Pkg, "Constraint", "onlyMatchesPermanode"),
		p.Func(c08Pkg, "Constraint", "matchesFileByWholeRef"),
	}
	// by role: every *Constraint method the planner calls is a planner predicate
	predSet := map[*ssa.Function]bool{}
	var preds []*ssa.Function
	for _, c := range CallsIn(pick, true) {
		f := c.Common().StaticCallee()
		if f == nil || f.Signature.Recv() == nil || !InModule(f) {
			continue
		}
		if c08IsType(NamedOf(f.Signature.Recv().Type()), c08Pkg, "Constraint") && !predSet[f] {
			predSet[f] = true
			preds = append(preds, f)
		}
	}
	for _, f := range named {
		if !predSet[f] {
			r.Note("planner predicate %s is no longer called from pickCandidateSource; still checked", FuncKey(f))
			predSet[f] = true
			preds = append(preds, f)
		}
	}
	sort.Slice(preds, func(i, j int) bool { return FuncKey(preds[i]) < FuncKey(preds[j]) })
	r.Analysed("functions", len(preds)+2)

	// SortType constants (exported ones; maxSortType is the validity bound)
	sorts := map[int64]string{}
	sc := p.Pkg(c08Pkg).Types.Scope()
	st := p.NamedType(c08Pkg, "SortType")
	for _, n := range sc.Names() {
		c, ok := sc.Lookup(n).(*types.Const)
		if !ok || !c.Exported() || !types.Identical(c.Type(), st) {
			continue
		}
		if v, ok := constant.Int64Val(c.Val()); ok {
			sorts[v] = n
		}
	}
	if len(sorts) < 8 {
		brokenf("anchor unresolved: expected >= 8 exported SortType constants in pkg/search, found %d", len(sorts))
	}

	c08RulePredicates(p, r, preds)
	c08RulePlanner(p, r, pick, predSet, sorts)
	c08RuleNoDup(p, r)
	execs := c08FindExec(p, r, pick)
	if len(execs) == 0 {
		r.Undecided("P-limit", FuncKey(pick)+"#executor", p.Pos(pick.Pos()), "no analysable caller of pickCandidateSource found")
	}
	for _, e := range execs {
		c08RuleExecutor(p, r, e, sorts)
	}
	c08RuleFresh(p, r)
}

// c08RuleFresh is C06's K-inval reported under C08 as P-fresh (like E-close/G-enum):
// the sources pickCandidateSource flags as sorted enumerate the corpus'
// generation-stamped sorted-permanode caches, so "the results are in the requested
// order, and with a limit the first N" needs those caches to be invalidated by every
// live write of what their order is computed from, and served only when fresh.
func c08RuleFresh(p *Program, r *Reporter) {
	sub := NewReporter("C06", p)
	cx := c06Setup(p, sub)
	c06RuleInval(cx)
	n := 0
	for _, o := range sub.Obls {
		if o.Rule != "K-inval" {
			continue
		}
		n++
		r.add("P-fresh", o.Construct, o.Site, o.Status, o.Nontrivial, o.Detail)
	}
	r.Floor("P-fresh", sub.floors["K-inval"])
}
