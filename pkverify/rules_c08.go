package main

import (
	"fmt"
	"go/constant"
	"go/token"
	"go/types"
	"sort"
	"strings"

	"golang.org/x/tools/go/ssa"
)

// C08 — a search returns exactly the matches, whatever candidate source the
// planner picks (pkg/search/query.go).
//
// All rules work on enumerated acyclic CFG paths of small functions (the planner
// predicates and pickCandidateSource) with phi resolution per path, or on
// dominating facts / assumption-pruned reachability in the executor (Query).

func init() {
	register(&PropSpec{
		ID:    "C08",
		Title: "A search returns exactly the matching blobs, however it is planned",
		Explanation: "Decided (structural necessary conditions, pkg/search/query.go): " +
			"P-restrict — for every planner predicate (the *Constraint methods called from pickCandidateSource), on every acyclic CFG path to a return: a result that may restrict the candidates (true / possibly-valid ref / possibly non-empty slice) and that is obtained from a recursive call on an operand of c.Logical (by data flow, or for booleans by a positive branch on the recursive result) is returned only where the path establishes Op==\"and\", or Op==\"or\" together with restricting results from BOTH operands (and, for set/ref-valued predicates, a value built from both); under any other or no Op fact it is a violation; recursion on anything but c.Logical.A/B is undecided. " +
			"P-nil-operand — a recursive call on operand B happens only under an Op fact for which checkValid guarantees B (and/or/xor), unless the predicate tolerates a nil receiver (every receiver dereference is under c!=nil). " +
			"P-sorted — on every path of pickCandidateSource the returned source has a constant 'sorted'; sorted==true only with the enumerator that yields the requested order (EnumeratePermanodesLastModified under q.Sort==LastModifiedDesc, EnumeratePermanodesCreated(fn,true) under q.Sort==CreatedDesc). " +
			"P-source-superset — every source is built from a classified enumerator and a restricted enumerator is entered only on paths where the predicate that justifies it returned a restricting result for q.Constraint (permanode enumerations under onlyMatchesPermanode; by-node-type with the very slice returned by matchesPermanodeTypes known non-empty; single blob with the very ref returned by matchesAtMostOneBlob known valid; camli blobs of type file under matchesFileByWholeRef; camli blobs of c.CamliType under AnyCamliType||CamliType!=\"\"); the executor compiles the matcher from the same constraint the planner looked at. " +
			"P-match — in the enumeration callback a result is appended only where the matcher returned (true, nil). " +
			"P-limit — in the callback every action that can lose results (stopping the enumeration, shrinking res.Blobs) is on the matcher-error path or under the fact cands.sorted. " +
			"P-postsort — with an unsorted source, for every SortType constant that requests an order, every path from the enumeration to a return of a non-nil result passes a sort call (or the query is refused with an error). " +
			"P-truncate — with an unsorted source, 0 < Limit < len(res.Blobs) and any sort but MapSort, every such path truncates res.Blobs by a bounded slice. " +
			"P-nodup — every corpus enumerator a source is built from hands each blob to the callback at most once as far as its loop structure shows: the callback is invoked (directly or through one same-package helper) inside at most one loop, i.e. one pass over one collection; an invocation nested in two or more loops (several collections, or caller-supplied keys) must be guarded by a look-up in a map made in that function (a 'seen' set), or be a recorded exception (one symbol, one reason). " +
			"P-memo — every branch in pkg/search on a map membership test m[k] whose 'found' edge bypasses a matcher call (a call returning bool or (bool, error) that takes k as a blob.Ref and has the matchFn signature, or is a pkg/search function working on a *search such as RelationConstraint.match, or is a helper / local literal that itself makes such a call on the parameter k arrives in) on that same k is a skip guard; today: permanodesChecked in the claim callback of (*RelationConstraint).match. For a memo map local to one invocation, every value that can become a key (the key of each map update, followed through all stores of the variables that feed it, e.g. lastChecked; zero-value resets excluded) must be remembered only where its evaluation completed: the assignment is dominated by the success edge (error result known nil) of a matcher call on that same value, or every path from the assignment to an exit of the callback passes such an edge, except exits that return false from a callback whose enumerators (resolved through phi / bound-method thunks, here Corpus.ForeachClaim and ForeachClaimBack) provably never call it again after false, with the memo consulted nowhere else. A remembered value that no matcher call evaluates, a memo whose map or feeder variables escape, and a guard on a map shared beyond one invocation (could be a traversal visited-set, where marking first is correct) are undecided. Set membership tests keyed by blob refs that bypass no matcher call (dr.started: started-set of the describe traversal; resFromRule: membership filter) are listed as classified, not judged. " +
			"NOT decided: the meaning of each leaf constraint and of the leaf cases of the predicates (e.g. that a camliNodeType attribute constraint only matches that node type), matcher semantics per constraint kind, that the enumerators really enumerate a superset in the claimed order, that a single collection holds each blob once, that a memoised verdict is still valid for the later occurrence of the key (the memo key captures everything the verdict depends on), memos kept in anything but a map (slices, sorted lists), the sort comparators and which slice is sorted, the Around window arithmetic, MapSort selection, any concrete world or query.",
		RuleDocs: map[string]string{
			"P-restrict":        "per planner predicate × Op label: contradiction rule over all acyclic paths — a may-restrict result derived from a recursive call needs Op==and, or Op==or with both operands restricting",
			"P-nil-operand":     "per planner predicate: recursion on Logical.B only under Op in {and,or,xor} unless the predicate is nil-receiver tolerant",
			"P-sorted":          "per candidate source (by src.name) of pickCandidateSource: sorted is constant per path; true only with the enumerator/sort pair that yields that order",
			"P-source-superset": "per candidate source: restricted enumerator entered only under the restricting result of its justifying predicate on q.Constraint; matcher compiled from the same constraint",
			"P-match":           "per append to res.Blobs in the enumeration callback: dominated by matcher()==(true,nil)",
			"P-limit":           "per result-losing action in the enumeration callback: on the matcher-error path or under fact cands.sorted",
			"P-postsort":        "per SortType constant: unsorted source ⇒ sort call (or error) on every path from enumeration to a non-nil result",
			"P-nodup":           "per corpus enumerator in the source table × callback invocation: loop depth <= 1, or guarded by a local seen-set look-up, or recorded exception",
			"P-memo":            "per skip guard (map membership test that bypasses a matcher call on its key) in pkg/search × per assignment that can put a key into that memo: the assignment is dominated by the success edge of a matcher call on the same value, or every continuing path from it passes one (exits that provably end the enumeration excepted); other blob-ref sets are classified only",
			"P-fresh":           "C06's K-inval reported for C08: the generation-stamped sorted-permanode caches behind the sources flagged sorted are invalidated by every live write of a location their order is computed from (generation increment on every such path through Corpus.addBlob), served only on the stamp==generation edge, and the generation only grows",
			"P-truncate":        "per SortType constant except MapSort: unsorted source and 0<Limit<len ⇒ bounded re-slice of res.Blobs on every path to a non-nil result",
		},
		Run:       runC08,
		DesignRef: "DESIGN.md §4 C08",
		Technique: "static analysis: exhaustive acyclic-path enumeration over go/ssa with per-path phi resolution and branch facts (contradiction rule on the planner predicates, constant propagation and table agreement on the planner), dominance facts and assumption-pruned reachability in the executor; for skip-memos: key provenance through variable stores, success-edge dominance / must-pass-through of the matcher call, callback stop-protocol checked in the resolved enumerators",
		LevelText: "Decides structural necessary conditions only: the planner predicates combine recursive results soundly for and/or/not/xor; a source is flagged sorted only when its enumerator yields the requested order; every restricted source is guarded by the predicate that justifies it, on the same constraint the matcher is compiled from; results are appended only on a match; results are dropped early only for sorted sources; unsorted sources are post-sorted and truncated; the relation matcher's 'already checked' memo remembers a relative only after the matcher really ran on it; the cached orders the sorted sources enumerate are invalidated by every live write of their inputs. Does not decide matcher semantics, leaf cases of the predicates, enumerator contents/order, comparators, or any concrete query.",
	})
}

const c08Pkg = "pkg/search"

// ---------------------------------------------------------------------------
// generic path machinery (prefixed helpers; candidates for helpers.go)

type c08Path []*ssa.BasicBlock

// c08Paths enumerates the acyclic entry-to-exit paths of fn. why != "" when fn
// has a cycle reachable from entry or more than max paths.
func c08Paths(fn *ssa.Function, max int) (paths []c08Path, why string) {
	if len(fn.Blocks) == 0 {
		return nil, "no body"
	}
	on := map[*ssa.BasicBlock]bool{}
	var cur c08Path
	var walk func(b *ssa.BasicBlock)
	walk = func(b *ssa.BasicBlock) {
		if why != "" {
			return
		}
		if on[b] {
			why = "the function contains a loop (block " + fmt.Sprint(b.Index) + ")"
			return
		}
		on[b] = true
		cur = append(cur, b)
		if len(b.Succs) == 0 {
			paths = append(paths, append(c08Path(nil), cur...))
			if len(paths) > max {
				why = fmt.Sprintf("more than %d paths", max)
			}
		}
		for _, s := range b.Succs {
			walk(s)
		}
		cur = cur[:len(cur)-1]
		on[b] = false
	}
	walk(fn.Blocks[0])
	return
}

func (pth c08Path) index(b *ssa.BasicBlock) int {
	for i, x := range pth {
		if x == b {
			return i
		}
	}
	return -1
}

// norm resolves v to its origin on this path: originValue plus selection of
// the phi edge the path comes in through.
func (pth c08Path) norm(v ssa.Value) ssa.Value {
	for i := 0; i < 24 && v != nil; i++ {
		o := originValue(v)
		ph, ok := o.(*ssa.Phi)
		if !ok {
			return o
		}
		idx := pth.index(ph.Block())
		if idx <= 0 {
			return o
		}
		pred := pth[idx-1]
		var e ssa.Value
		for j, p := range ph.Block().Preds {
			if p == pred {
				e = ph.Edges[j]
				break
			}
		}
		if e == nil {
			return o
		}
		v = e
	}
	return v
}

type c08Branch struct {
	Cond ssa.Value // normalised, leading NOTs folded into Val
	Val  bool
	At   int // index in the path of the block whose If this is
}

func (pth c08Path) branches() []c08Branch {
	var out []c08Branch
	for i := 0; i+1 < len(pth); i++ {
		b := pth[i]
		if len(b.Instrs) == 0 || len(b.Succs) != 2 || b.Succs[0] == b.Succs[1] {
			continue
		}
		ifi, ok := b.Instrs[len(b.Instrs)-1].(*ssa.If)
		if !ok {
			continue
		}
		val := b.Succs[0] == pth[i+1]
		cond := pth.norm(ifi.Cond)
		for {
			u, ok := cond.(*ssa.UnOp)
			if !ok || u.Op != token.NOT {
				break
			}
			cond, val = pth.norm(u.X), !val
		}
		out = append(out, c08Branch{cond, val, i})
	}
	return out
}

func (pth c08Path) String() string {
	var s []string
	for _, b := range pth {
		s = append(s, fmt.Sprint(b.Index))
	}
	return strings.Join(s, ">")
}

// c08FieldLoad decomposes a load of a struct field through a pointer:
// v == *(&X.field). It returns X, the named struct type and the field name.
func c08FieldLoad(v ssa.Value) (base ssa.Value, named *types.Named, field string, ok bool) {
	u, isU := v.(*ssa.UnOp)
	if !isU || u.Op != token.MUL {
		return
	}
	fa, isFA := u.X.(*ssa.FieldAddr)
	if !isFA {
		return
	}
	return c08FieldAddr(fa)
}

func c08FieldAddr(fa *ssa.FieldAddr) (base ssa.Value, named *types.Named, field string, ok bool) {
	pt, isP := fa.X.Type().Underlying().(*types.Pointer)
	if !isP {
		return
	}
	st, isS := pt.Elem().Underlying().(*types.Struct)
	if !isS || fa.Field >= st.NumFields() {
		return
	}
	named, _ = pt.Elem().(*types.Named)
	if named == nil {
		return
	}
	return fa.X, named, st.Field(fa.Field).Name(), true
}

func c08IsType(n *types.Named, rel, name string) bool {
	return n != nil && n.Obj().Name() == name && n.Obj().Pkg() != nil && n.Obj().Pkg().Path() == modPrefix+rel
}

func c08ConstBool(v ssa.Value) (val, ok bool) {
	c, isC := v.(*ssa.Const)
	if !isC || c.Value == nil || c.Value.Kind() != constant.Bool {
		return false, false
	}
	return constant.BoolVal(c.Value), true
}

func c08Cmp(op token.Token, l, r int64) (res, ok bool) {
	switch op {
	case token.EQL:
		return l == r, true
	case token.NEQ:
		return l != r, true
	case token.LSS:
		return l < r, true
	case token.LEQ:
		return l <= r, true
	case token.GTR:
		return l > r, true
	case token.GEQ:
		return l >= r, true
	}
	return false, false
}

// ---------------------------------------------------------------------------
// restricting results of planner predicates

const (
	c08Bool = iota + 1
	c08Slice
	c08Ref
)

func c08ResultKind(fn *ssa.Function) int {
	res := fn.Signature.Results()
	if res.Len() != 1 {
		return 0
	}
	t := res.At(0).Type()
	if b, ok := t.Underlying().(*types.Basic); ok && b.Kind() == types.Bool {
		return c08Bool
	}
	if _, ok := t.Underlying().(*types.Slice); ok {
		return c08Slice
	}
	if IsNamed(t, modPrefix+"pkg/blob", "Ref") {
		if _, isPtr := t.(*types.Pointer); !isPtr {
			return c08Ref
		}
	}
	return 0
}

// c08LenFact: what does (len OP k)==val (or (k OP len)==val) say about len==0?
// +1: len is certainly non-zero, -1: certainly zero, 0: nothing.
func c08LenFact(op token.Token, k int64, lenOnLeft, val bool) int {
	sat := func(n int64) bool {
		l, r := n, k
		if !lenOnLeft {
			l, r = k, n
		}
		res, ok := c08Cmp(op, l, r)
		return ok && res == val
	}
	if _, ok := c08Cmp(op, 0, 0); !ok {
		return 0
	}
	hi := k
	if hi < 0 {
		hi = 0
	}
	pos := false
	for n := int64(1); n <= hi+2; n++ {
		if sat(n) {
			pos = true
		}
	}
	zero := sat(0)
	switch {
	case !zero && pos:
		return 1
	case zero && !pos:
		return -1
	}
	return 0
}

// c08RestrictFact interprets a branch as a statement about the result of a
// predicate call: +1 the result is restricting (true / valid / non-empty),
// -1 it is not. classify tells which calls are predicate calls and their kind.
func c08RestrictFact(pth c08Path, br c08Branch, classify func(*ssa.Call) int) (*ssa.Call, int) {
	sign := func(b bool) int {
		if b {
			return 1
		}
		return -1
	}
	asPred := func(v ssa.Value, kind int) *ssa.Call {
		c, ok := pth.norm(v).(*ssa.Call)
		if ok && classify(c) == kind {
			return c
		}
		return nil
	}
	switch c := br.Cond.(type) {
	case *ssa.Call:
		if classify(c) == c08Bool {
			return c, sign(br.Val)
		}
		if (CallSite{c.Parent(), c}).IsStatic(modPrefix+"pkg/blob", "Ref", "Valid") && len(c.Call.Args) == 1 {
			if pc := asPred(c.Call.Args[0], c08Ref); pc != nil {
				return pc, sign(br.Val)
			}
		}
	case *ssa.BinOp:
		for side := 0; side < 2; side++ {
			x, y := c.X, c.Y
			if side == 1 {
				x, y = y, x
			}
			// len(pred()) OP k
			if lc, ok := pth.norm(x).(*ssa.Call); ok {
				if b, isB := lc.Call.Value.(*ssa.Builtin); isB && b.Name() == "len" && len(lc.Call.Args) == 1 {
					if pc := asPred(lc.Call.Args[0], c08Slice); pc != nil {
						if k, ok := ConstInt(pth.norm(y)); ok {
							return pc, c08LenFact(c.Op, k, side == 0, br.Val)
						}
					}
				}
			}
			// pred() == nil
			if pc := asPred(x, c08Slice); pc != nil && IsNilConst(pth.norm(y)) {
				if (c.Op == token.EQL) == br.Val && (c.Op == token.EQL || c.Op == token.NEQ) {
					return pc, -1
				}
				return pc, 0
			}
		}
	}
	return nil, 0
}

// ---------------------------------------------------------------------------
// P-restrict, P-nil-operand

type c08PredAn struct {
	p     *Program
	fn    *ssa.Function
	kind  int
	preds map[*ssa.Function]bool
}

func (a *c08PredAn) recv() ssa.Value { return a.fn.Params[0] }

// isLogical: v == c.Logical for the receiver c.
func (a *c08PredAn) isLogical(pth c08Path, v ssa.Value) bool {
	base, n, f, ok := c08FieldLoad(pth.norm(v))
	return ok && f == "Logical" && c08IsType(n, c08Pkg, "Constraint") && pth.norm(base) == ssa.Value(a.recv())
}

func (a *c08PredAn) isOpLoad(pth c08Path, v ssa.Value) bool {
	base, n, f, ok := c08FieldLoad(pth.norm(v))
	return ok && f == "Op" && c08IsType(n, c08Pkg, "LogicalConstraint") && a.isLogical(pth, base)
}

// operand returns "A"/"B" when v == c.Logical.A / c.Logical.B.
func (a *c08PredAn) operand(pth c08Path, v ssa.Value) string {
	base, n, f, ok := c08FieldLoad(pth.norm(v))
	if ok && (f == "A" || f == "B") && c08IsType(n, c08Pkg, "LogicalConstraint") && a.isLogical(pth, base) {
		return f
	}
	return ""
}

func (a *c08PredAn) isRec(c *ssa.Call) bool {
	return c != nil && c.Call.StaticCallee() == a.fn
}

func (a *c08PredAn) classify(c *ssa.Call) int {
	if a.isRec(c) {
		return a.kind
	}
	return 0
}

type c08PredState struct {
	opIs     string
	opNot    map[string]bool
	opOpaque bool // a branch depends on Op in a way not understood
	rec      map[*ssa.Call]int
	dead     bool
}

func (st *c08PredState) clone() *c08PredState {
	n := &c08PredState{opIs: st.opIs, opOpaque: st.opOpaque, dead: st.dead, opNot: map[string]bool{}, rec: map[*ssa.Call]int{}}
	for k, v := range st.opNot {
		n.opNot[k] = v
	}
	for k, v := range st.rec {
		n.rec[k] = v
	}
	return n
}

func (st *c08PredState) label() string {
	switch {
	case st.opIs != "":
		return st.opIs
	case len(st.opNot) > 0:
		return "other"
	}
	return "unguarded"
}

// apply folds one branch into the state.
func (a *c08PredAn) apply(pth c08Path, st *c08PredState, br c08Branch) {
	if cv, ok := c08ConstBool(br.Cond); ok {
		if cv != br.Val {
			st.dead = true
		}
		return
	}
	if bo, ok := br.Cond.(*ssa.BinOp); ok && (bo.Op == token.EQL || bo.Op == token.NEQ) {
		for side := 0; side < 2; side++ {
			x, y := bo.X, bo.Y
			if side == 1 {
				x, y = y, x
			}
			if !a.isOpLoad(pth, x) {
				continue
			}
			k, isConst := ConstString(pth.norm(y))
			if !isConst {
				st.opOpaque = true
				return
			}
			if (bo.Op == token.EQL) == br.Val {
				if (st.opIs != "" && st.opIs != k) || st.opNot[k] {
					st.dead = true
				}
				st.opIs = k
			} else {
				if st.opIs == k {
					st.dead = true
				}
				st.opNot[k] = true
			}
			return
		}
	}
	if c, s := c08RestrictFact(pth, br, a.classify); c != nil {
		if s != 0 {
			if st.rec[c] == -s {
				st.dead = true
			}
			st.rec[c] = s
		}
		return
	}
	if DependsOn(br.Cond, func(v ssa.Value) bool { return a.isOpLoad(pth, v) }) {
		st.opOpaque = true
	}
}

// operandStatus folds the facts about all recursive calls on one operand.
func (a *c08PredAn) operandStatus(pth c08Path, st *c08PredState, operand string) int {
	res := 0
	for c, s := range st.rec {
		if len(c.Call.Args) > 0 && a.operand(pth, c.Call.Args[0]) == operand && s != 0 {
			res = s
		}
	}
	return res
}

type c08Deriv struct {
	restrict int             // +1 certainly restricting, -1 certainly not, 0 unknown
	from     map[string]bool // operands whose recursive result flows into the value (those not known non-restricting)
	bad      string
}

func (a *c08PredAn) derive(pth c08Path, st *c08PredState, v ssa.Value, depth int) c08Deriv {
	d := c08Deriv{from: map[string]bool{}}
	v = pth.norm(v)
	dependsOnRec := func(x ssa.Value) bool {
		return DependsOn(x, func(y ssa.Value) bool { c, ok := y.(*ssa.Call); return ok && a.isRec(c) })
	}
	switch x := v.(type) {
	case *ssa.Const:
		if bv, ok := c08ConstBool(x); ok {
			d.restrict = -1
			if bv {
				d.restrict = 1
			}
			return d
		}
		if x.Value == nil { // nil slice, zero Ref
			d.restrict = -1
		}
		return d
	case *ssa.Call:
		if a.isRec(x) {
			op := ""
			if len(x.Call.Args) > 0 {
				op = a.operand(pth, x.Call.Args[0])
			}
			if op == "" {
				d.bad = "recursive call on a receiver that is not c.Logical.A or c.Logical.B"
				return d
			}
			d.restrict = st.rec[x]
			if d.restrict == 0 {
				d.restrict = a.operandStatus(pth, st, op)
			}
			if d.restrict != -1 {
				d.from[op] = true
			}
			return d
		}
		if b, ok := x.Call.Value.(*ssa.Builtin); ok && b.Name() == "append" && depth < 8 {
			allNon, anyPos := true, false
			for _, arg := range x.Call.Args {
				ad := a.derive(pth, st, arg, depth+1)
				if ad.bad != "" {
					return ad
				}
				for k := range ad.from {
					d.from[k] = true
				}
				if ad.restrict != -1 {
					allNon = false
				}
				if ad.restrict == 1 {
					anyPos = true
				}
			}
			switch {
			case anyPos:
				d.restrict = 1
			case allNon:
				d.restrict = -1
			}
			return d
		}
	}
	if dependsOnRec(v) {
		d.bad = "the returned value depends on a recursive result through an operation the rule does not model (" + v.String() + ")"
	}
	return d // leaf value: restricting-ness justified by the constraint's own fields
}

type c08Verdict struct {
	label  string
	status Status
	detail string
	site   token.Pos
}

// nilTolerant: every dereference of the receiver is in a block where c != nil is known.
func (a *c08PredAn) nilTolerant() bool {
	recv := a.recv()
	for _, b := range a.fn.Blocks {
		for _, in := range b.Instrs {
			var x ssa.Value
			switch t := in.(type) {
			case *ssa.FieldAddr:
				x = t.X
			case *ssa.UnOp:
				if t.Op == token.MUL {
					x = t.X
				}
			}
			if x == nil || originValue(x) != ssa.Value(recv) {
				continue
			}
			if k, isNil := NilFact(b, recv); !k || isNil {
				return false
			}
		}
	}
	return true
}

func c08RulePredicates(p *Program, r *Reporter, preds []*ssa.Function) {
	predSet := map[*ssa.Function]bool{}
	for _, f := range preds {
		predSet[f] = true
	}
	nInst, nNil := 0, 0
	for _, fn := range preds {
		key := FuncKey(fn)
		site := p.Pos(fn.Pos())
		a := &c08PredAn{p: p, fn: fn, kind: c08ResultKind(fn), preds: predSet}
		if a.kind == 0 {
			r.Undecided("P-restrict", key+"#result-type", site, "planner predicate with a result type the rule has no notion of 'restricting' for: "+fn.Signature.Results().String())
			continue
		}
		// calls to a different planner predicate are not modelled
		for _, c := range CallsIn(fn, true) {
			if f := c.Callee(); f != nil && f != fn && predSet[f] {
				r.Undecided("P-restrict", key+"#cross-predicate", p.Pos(c.Pos()), "calls planner predicate "+FuncKey(f)+"; cross-predicate recursion is not modelled")
			}
		}
		if len(fn.AnonFuncs) > 0 {
			r.Undecided("P-restrict", key+"#closures", site, "planner predicate contains function literals; not modelled")
			continue
		}
		paths, why := c08Paths(fn, 4000)
		if why != "" {
			r.Undecided("P-restrict", key+"#paths", site, "cannot enumerate the paths of the predicate: "+why)
			continue
		}
		r.Analysed("predicate_paths", len(paths))
		tolerant := a.nilTolerant()
		type agg struct {
			ok, bad, und int
			details      []string
			site         token.Pos
		}
		byLabel := map[string]*agg{}
		get := func(l string) *agg {
			if byLabel[l] == nil {
				byLabel[l] = &agg{}
			}
			return byLabel[l]
		}
		leaf := 0
		nilAgg := map[string]*agg{}
		for _, pth := range paths {
			last := pth[len(pth)-1]
			ret, isRet := last.Instrs[len(last.Instrs)-1].(*ssa.Return)
			brs := pth.branches()
			st := &c08PredState{opNot: map[string]bool{}, rec: map[*ssa.Call]int{}}
			bi := 0
			for i, b := range pth {
				// P-nil-operand: recursive calls on B in this block, with the facts established before it
				for _, in := range b.Instrs {
					c, ok := in.(*ssa.Call)
					if !ok || !a.isRec(c) || st.dead || len(c.Call.Args) == 0 {
						continue
					}
					if a.operand(pth, c.Call.Args[0]) != "B" {
						continue
					}
					g := nilAgg["B"]
					if g == nil {
						g = &agg{site: c.Pos()}
						nilAgg["B"] = g
					}
					switch {
					case tolerant:
						g.ok++
					case st.opIs == "and" || st.opIs == "or" || st.opIs == "xor":
						g.ok++
					default:
						g.bad++
						g.details = append(g.details, fmt.Sprintf("path %s: recursive call on c.Logical.B under Op label %q, but B is nil for Op==\"not\" and %s dereferences its receiver without a nil check", pth, st.label(), fn.Name()))
					}
				}
				for bi < len(brs) && brs[bi].At == i {
					a.apply(pth, st, brs[bi])
					bi++
				}
			}
			if st.dead || !isRet || len(ret.Results) != 1 {
				continue
			}
			d := a.derive(pth, st, ret.Results[0], 0)
			if d.bad != "" {
				g := get(st.label())
				g.und++
				g.site = ret.Pos()
				g.details = append(g.details, fmt.Sprintf("path %s: %s", pth, d.bad))
				continue
			}
			if d.restrict == -1 {
				continue
			}
			pos := map[string]bool{}
			for _, o := range []string{"A", "B"} {
				if a.operandStatus(pth, st, o) == 1 {
					pos[o] = true
				}
			}
			just := map[string]bool{}
			for k := range d.from {
				just[k] = true
			}
			if a.kind == c08Bool {
				if cv, isC := c08ConstBool(pth.norm(ret.Results[0])); isC && cv {
					for k := range pos {
						just[k] = true
					}
				}
			}
			if len(just) == 0 {
				leaf++
				continue
			}
			g := get(st.label())
			g.site = ret.Pos()
			var js []string
			for k := range just {
				js = append(js, k)
			}
			sort.Strings(js)
			switch st.opIs {
			case "and":
				g.ok++
			case "or":
				both := pos["A"] && pos["B"]
				if a.kind != c08Bool {
					both = both && d.from["A"] && d.from["B"]
				}
				if both {
					g.ok++
				} else {
					g.bad++
					g.details = append(g.details, fmt.Sprintf("path %s returns a possibly restricting result obtained from operand(s) %s of an \"or\" without restricting results from both operands (known restricting: %v, value built from: %v): a match of the unrestricted operand would be missed", pth, strings.Join(js, ","), c08Keys(pos), c08Keys(d.from)))
				}
			default:
				if st.opOpaque {
					g.und++
					g.details = append(g.details, fmt.Sprintf("path %s returns a possibly restricting result from operand(s) %s and branches on Op in a way the rule cannot interpret", pth, strings.Join(js, ",")))
				} else {
					g.bad++
					g.details = append(g.details, fmt.Sprintf("path %s returns a possibly restricting result obtained from operand(s) %s under Op label %q (neither \"and\" nor a fully restricted \"or\")", pth, strings.Join(js, ","), st.label()))
				}
			}
		}
		var labels []string
		for l := range byLabel {
			labels = append(labels, l)
		}
		sort.Strings(labels)
		for _, l := range labels {
			g := byLabel[l]
			nInst++
			c := key + "#" + l
			s := p.Pos(g.site)
			switch {
			case g.bad > 0:
				r.Violation("P-restrict", c, s, strings.Join(g.details, "; "))
			case g.und > 0:
				r.Undecided("P-restrict", c, s, strings.Join(g.details, "; "))
			default:
				r.OK("P-restrict", c, s, fmt.Sprintf("%d path(s) return a result justified by recursion under Op==%q; all sound", g.ok, l))
			}
		}
		r.OKTable("P-restrict", key+"#leaf", site, fmt.Sprintf("%d path(s) return a possibly restricting result justified by the constraint's own fields only (leaf semantics not decided)", leaf))
		for o, g := range nilAgg {
			nNil++
			c := key + "#operand-" + o
			how := "recursion on B only under Op in {and,or,xor}"
			if tolerant {
				how = "predicate tolerates a nil receiver"
			}
			r.Check(g.bad == 0, "P-nil-operand", c, p.Pos(g.site), fmt.Sprintf("%d path(s): %s", g.ok, how), strings.Join(c08Uniq(g.details), "; "))
		}
	}
	r.Floor("P-restrict", 5+len(preds)) // and×4 + or×1 recursion-justified labels, plus one #leaf row per predicate
	_ = nInst
	r.Floor("P-nil-operand", 4)
	_ = nNil
}

func c08Keys(m map[string]bool) []string {
	var out []string
	for k, v := range m {
		if v {
			out = append(out, k)
		}
	}
	sort.Strings(out)
	return out
}

func c08Uniq(in []string) []string {
	seen := map[string]bool{}
	var out []string
	for _, s := range in {
		if !seen[s] {
			seen[s] = true
			out = append(out, s)
		}
	}
	if len(out) > 4 {
		out = append(out[:4], fmt.Sprintf("... (%d more)", len(out)-4))
	}
	return out
}

// ---------------------------------------------------------------------------
// the planner: P-sorted, P-source-superset

type c08Source struct {
	class  string // permanodes | permanode-types | one | camli | all
	reason string
}

// c08SourceTable classifies every enumerator a candidate source may be built
// from. One symbol + one reason each; an unknown enumerator is undecided.
var c08SourceTable = map[string]c08Source{
	"pkg/index.(*Corpus).EnumeratePermanodesLastModified": {"permanodes", "all permanodes, newest modtime first"},
	"pkg/index.(*Corpus).EnumeratePermanodesCreated":      {"permanodes", "all permanodes by creation time, newest first iff its bool argument is true"},
	"pkg/index.(*Corpus).EnumeratePermanodesByNodeTypes":  {"permanode-types", "permanodes whose camliNodeType is in the given list"},
	"pkg/index.(*Corpus).EnumerateSingleBlob":             {"one", "the single given blob"},
	"pkg/index.(*Corpus).EnumerateCamliBlobs":             {"camli", "schema blobs of the given camli type ('' = all schema blobs)"},
	"pkg/index.(*Corpus).EnumerateBlobMeta":               {"all", "every blob known to the corpus"},
	"iface:pkg/index.Interface.EnumerateBlobMeta":         {"all", "every blob known to the index"},
}

type c08Planner struct {
	p     *Program
	fn    *ssa.Function
	preds map[*ssa.Function]bool
	sorts map[int64]string // SortType constant value -> name
}

// isConstraintOfQ: v == q.Constraint for the receiver q.
func (pl *c08Planner) isConstraintOfQ(pth c08Path, v ssa.Value) bool {
	base, n, f, ok := c08FieldLoad(pth.norm(v))
	return ok && f == "Constraint" && c08IsType(n, c08Pkg, "SearchQuery") && pth.norm(base) == ssa.Value(pl.fn.Params[0])
}

func (pl *c08Planner) classify(c *ssa.Call) int {
	f := c.Call.StaticCallee()
	if f == nil || !pl.preds[f] {
		return 0
	}
	return c08ResultKind(f)
}

type c08PlanFacts struct {
	pred      map[*ssa.Call]int // predicate call -> +1/-1
	sortIs    string
	anyCamli  bool // c.AnyCamliType known true
	typeSet   bool // c.CamliType != "" known
	dead      bool
	constrOK  map[*ssa.Call]bool // predicate call has q.Constraint as receiver
	sortNames []string
}

func (pl *c08Planner) facts(pth c08Path) *c08PlanFacts {
	pf := &c08PlanFacts{pred: map[*ssa.Call]int{}, constrOK: map[*ssa.Call]bool{}}
	for _, br := range pth.branches() {
		if cv, ok := c08ConstBool(br.Cond); ok {
			if cv != br.Val {
				pf.dead = true
			}
			continue
		}
		if c, s := c08RestrictFact(pth, br, pl.classify); c != nil {
			if s != 0 {
				if pf.pred[c] == -s {
					pf.dead = true
				}
				pf.pred[c] = s
				pf.constrOK[c] = len(c.Call.Args) > 0 && pl.isConstraintOfQ(pth, c.Call.Args[0])
			}
			continue
		}
		// c.AnyCamliType
		if base, n, f, ok := c08FieldLoad(br.Cond); ok && f == "AnyCamliType" && c08IsType(n, c08Pkg, "Constraint") && pl.isConstraintOfQ(pth, base) {
			if br.Val {
				pf.anyCamli = true
			}
			continue
		}
		bo, ok := br.Cond.(*ssa.BinOp)
		if !ok || (bo.Op != token.EQL && bo.Op != token.NEQ) {
			continue
		}
		for side := 0; side < 2; side++ {
			x, y := pth.norm(bo.X), pth.norm(bo.Y)
			if side == 1 {
				x, y = y, x
			}
			base, n, f, ok := c08FieldLoad(x)
			if !ok {
				continue
			}
			truth := (bo.Op == token.EQL) == br.Val
			switch {
			case f == "Sort" && c08IsType(n, c08Pkg, "SearchQuery") && pth.norm(base) == ssa.Value(pl.fn.Params[0]):
				if k, ok := ConstInt(y); ok && truth {
					name := pl.sorts[k]
					if pf.sortIs != "" && pf.sortIs != name {
						pf.dead = true
					}
					pf.sortIs = name
				}
			case f == "CamliType" && c08IsType(n, c08Pkg, "Constraint") && pl.isConstraintOfQ(pth, base):
				if s, ok := ConstString(y); ok && s == "" && !truth {
					pf.typeSet = true
				}
			}
		}
	}
	return pf
}

// has reports whether predicate name returned a restricting result for
// q.Constraint on this path, and returns the call.
func (pf *c08PlanFacts) has(name string) *ssa.Call {
	for c, s := range pf.pred {
		if s == 1 && pf.constrOK[c] && c.Call.StaticCallee().Name() == name {
			return c
		}
	}
	return nil
}

type c08Plan struct {
	pth       c08Path
	ret       *ssa.Return
	name      string
	sorted    bool
	sortedSet string // how sorted was determined
	send      *ssa.Function
	enum      CallSite
	bad       string
}

// plan reconstructs the candidateSource returned at the end of the path.
func (pl *c08Planner) plan(pth c08Path) *c08Plan {
	out := &c08Plan{pth: pth}
	last := pth[len(pth)-1]
	ret, ok := last.Instrs[len(last.Instrs)-1].(*ssa.Return)
	if !ok {
		return nil // panic exit
	}
	out.ret = ret
	if len(ret.Results) != 1 {
		out.bad = "unexpected number of results"
		return out
	}
	ld, ok := ret.Results[0].(*ssa.UnOp)
	var cell *ssa.Alloc
	if ok && ld.Op == token.MUL {
		cell, _ = ld.X.(*ssa.Alloc)
	}
	if cell == nil {
		out.bad = "the returned candidateSource is not read from a local variable; cannot propagate its fields"
		return out
	}
	var nameV, sortedV, sendV ssa.Value
	for _, b := range pth {
		for _, in := range b.Instrs {
			st, ok := in.(*ssa.Store)
			if !ok {
				continue
			}
			if st.Addr == ssa.Value(cell) {
				out.bad = "whole-struct assignment to the returned candidateSource; not modelled"
				return out
			}
			fa, ok := st.Addr.(*ssa.FieldAddr)
			if !ok || fa.X != ssa.Value(cell) {
				continue
			}
			_, _, f, ok := c08FieldAddr(fa)
			if !ok {
				continue
			}
			switch f {
			case "name":
				nameV = st.Val
			case "sorted":
				sortedV = st.Val
			case "send":
				sendV = st.Val
			}
		}
	}
	// the variable's address must not escape (field stores are the only writers)
	if refs := cell.Referrers(); refs != nil {
		for _, rf := range *refs {
			switch rf.(type) {
			case *ssa.FieldAddr, *ssa.UnOp, *ssa.DebugRef:
			default:
				out.bad = "the returned candidateSource variable escapes (" + rf.String() + ")"
				return out
			}
		}
	}
	if nameV != nil {
		out.name, _ = ConstString(pth.norm(nameV))
	}
	if out.name == "" {
		out.bad = "src.name is not a constant string on this path"
		return out
	}
	if sortedV == nil {
		out.sorted, out.sortedSet = false, "never assigned (zero value)"
	} else if bv, ok := c08ConstBool(pth.norm(sortedV)); ok {
		out.sorted, out.sortedSet = bv, "constant store"
	} else {
		out.bad = "src.sorted is not a constant on this path"
		return out
	}
	if sendV == nil {
		out.bad = "src.send is not assigned on this path"
		return out
	}
	switch f := pth.norm(sendV).(type) {
	case *ssa.MakeClosure:
		out.send = f.Fn.(*ssa.Function)
	case *ssa.Function:
		out.send = f
	default:
		out.bad = "src.send is not a function literal or declared function"
		return out
	}
	// the enumerator: the call inside send that receives send's callback parameter
	var cbs []*ssa.Parameter
	for _, prm := range out.send.Params {
		if _, ok := prm.Type().Underlying().(*types.Signature); ok {
			cbs = append(cbs, prm)
		}
	}
	var enums []CallSite
	for _, c := range CallsIn(out.send, true) {
		for _, arg := range c.Args() {
			o := originValue(arg)
			for _, cb := range cbs {
				if o == ssa.Value(cb) {
					enums = append(enums, c)
				}
			}
		}
	}
	if len(enums) != 1 {
		out.bad = fmt.Sprintf("send passes its callback to %d calls; expected exactly one enumerator", len(enums))
		return out
	}
	out.enum = enums[0]
	return out
}

func c08RulePlanner(p *Program, r *Reporter, pick *ssa.Function, preds map[*ssa.Function]bool, sorts map[int64]string) {
	key := FuncKey(pick)
	for k := range c08SourceTable {
		if !strings.HasPrefix(k, "iface:") {
			i := strings.LastIndex(k, ".")
			p.Func("pkg/index", "Corpus", k[i+1:])
		}
	}
	paths, why := c08Paths(pick, 4000)
	if why != "" {
		r.Undecided("P-sorted", key+"#paths", p.Pos(pick.Pos()), "cannot enumerate the planner's paths: "+why)
		return
	}
	r.Analysed("planner_paths", len(paths))
	pl := &c08Planner{p: p, fn: pick, preds: preds, sorts: sorts}
	type res struct {
		st     Status
		detail string
		site   token.Pos
		table  bool
	}
	merge := func(m map[string]*res, k string, st Status, site token.Pos, table bool, detail string) {
		cur := m[k]
		rank := map[Status]int{Discharged: 0, Undecided: 1, Violated: 2}
		if cur == nil || rank[st] > rank[cur.st] {
			m[k] = &res{st, detail, site, table}
		} else if cur.st == st && !strings.Contains(cur.detail, detail) && st != Discharged {
			cur.detail += "; " + detail
		} else if cur.st == Discharged && !table {
			cur.table = false
		}
	}
	sortedRes, superRes := map[string]*res{}, map[string]*res{}
	for _, pth := range paths {
		pf := pl.facts(pth)
		if pf.dead {
			continue
		}
		pn := pl.plan(pth)
		if pn == nil {
			continue
		}
		if pn.bad != "" {
			k := key + "#" + pn.name
			if pn.name == "" {
				k = key + "#path-" + pth.String()
			}
			merge(sortedRes, k, Undecided, pn.ret.Pos(), false, "path "+pth.String()+": "+pn.bad)
			continue
		}
		k := key + "#" + pn.name
		site := pn.ret.Pos()
		ek := pn.enum.CalleeKey()
		src, known := c08SourceTable[ek]
		if !known {
			d := "path " + pth.String() + ": source built from unclassified enumerator " + ek + "; classify it (what it enumerates, in which order) in c08SourceTable"
			merge(sortedRes, k, Undecided, site, false, d)
			merge(superRes, k, Undecided, site, false, d)
			continue
		}
		args := pn.enum.Args()
		// ---- P-sorted
		if !pn.sorted {
			merge(sortedRes, k, Discharged, site, true, "sorted=false ("+pn.sortedSet+"): the executor post-sorts")
		} else {
			want := ""
			switch ek {
			case "pkg/index.(*Corpus).EnumeratePermanodesLastModified":
				want = "LastModifiedDesc"
			case "pkg/index.(*Corpus).EnumeratePermanodesCreated":
				if len(args) == 3 {
					if nf, ok := c08ConstBool(originValue(args[2])); ok {
						want = "CreatedAsc"
						if nf {
							want = "CreatedDesc"
						}
					}
				}
			}
			switch {
			case want == "":
				merge(sortedRes, k, Violated, site, false, "path "+pth.String()+": sorted=true with enumerator "+ek+" which yields no query sort order ("+src.reason+")")
			case pf.sortIs != want:
				merge(sortedRes, k, Violated, site, false, fmt.Sprintf("path %s: sorted=true with %s, which yields %s order, but the path establishes q.Sort==%q", pth, ek, want, pf.sortIs))
			default:
				merge(sortedRes, k, Discharged, site, false, "sorted=true with "+ek+" under q.Sort=="+want)
			}
		}
		// ---- P-source-superset
		need := func(pred string) *ssa.Call { return pf.has(pred) }
		bad := func(d string) { merge(superRes, k, Violated, site, false, "path "+pth.String()+": "+d) }
		good := func(d string) { merge(superRes, k, Discharged, site, false, d) }
		switch src.class {
		case "all":
			merge(superRes, k, Discharged, site, true, "unrestricted source ("+src.reason+")")
		case "permanodes":
			if need("onlyMatchesPermanode") == nil {
				bad("permanode-only enumerator " + ek + " entered without onlyMatchesPermanode()==true for q.Constraint")
			} else {
				good("permanode-only enumerator under onlyMatchesPermanode()")
			}
		case "permanode-types":
			c := need("matchesPermanodeTypes")
			switch {
			case need("onlyMatchesPermanode") == nil:
				bad("by-node-type enumerator entered without onlyMatchesPermanode()==true for q.Constraint")
			case c == nil:
				bad("by-node-type enumerator entered without a non-empty matchesPermanodeTypes() result for q.Constraint")
			case len(args) != 3 || originValue(args[2]) != ssa.Value(c):
				bad("the type list passed to the enumerator is not the slice returned by the matchesPermanodeTypes() call that was tested non-empty")
			default:
				good("by-node-type enumerator under onlyMatchesPermanode() with the non-empty matchesPermanodeTypes() result")
			}
		case "one":
			c := need("matchesAtMostOneBlob")
			switch {
			case c == nil:
				bad("single-blob enumerator entered without a valid matchesAtMostOneBlob() result for q.Constraint")
			case len(args) != 3 || originValue(args[2]) != ssa.Value(c):
				bad("the ref passed to the enumerator is not the one returned by the matchesAtMostOneBlob() call that was tested valid")
			default:
				good("single-blob enumerator with the valid matchesAtMostOneBlob() result")
			}
		case "camli":
			if len(args) != 3 {
				merge(superRes, k, Undecided, site, false, "unexpected arity of EnumerateCamliBlobs")
				break
			}
			tv := originValue(args[1])
			if s, ok := ConstString(tv); ok {
				switch {
				case s == "file" && need("matchesFileByWholeRef") != nil:
					good("file-blob enumerator under matchesFileByWholeRef()")
				case s == "file":
					bad("file-blob enumerator entered without matchesFileByWholeRef()==true for q.Constraint")
				case s == "permanode" && need("onlyMatchesPermanode") != nil:
					good("permanode-blob enumerator under onlyMatchesPermanode()")
				default:
					merge(superRes, k, Undecided, site, false, fmt.Sprintf("path %s: camli-blob enumerator restricted to constant type %q: no justifying predicate is recorded for it", pth, s))
				}
				break
			}
			base, n, f, ok := c08FieldLoad(tv)
			if ok && f == "CamliType" && c08IsType(n, c08Pkg, "Constraint") && pl.isConstraintOfQ(pth, base) {
				if pf.anyCamli || pf.typeSet {
					good("camli-blob enumerator of q.Constraint.CamliType under AnyCamliType || CamliType != \"\"")
				} else {
					bad("camli-blob enumerator of q.Constraint.CamliType entered without AnyCamliType || CamliType != \"\": a constraint that also matches non-schema blobs would miss them")
				}
				break
			}
			merge(superRes, k, Undecided, site, false, "path "+pth.String()+": the camli type passed to the enumerator is neither a constant nor q.Constraint.CamliType")
		default:
			merge(superRes, k, Undecided, site, false, "unknown source class "+src.class)
		}
	}
	emit := func(rule string, m map[string]*res) {
		var ks []string
		for k := range m {
			ks = append(ks, k)
		}
		sort.Strings(ks)
		for _, k := range ks {
			x := m[k]
			s := p.Pos(x.site)
			switch x.st {
			case Violated:
				r.Violation(rule, k, s, x.detail)
			case Undecided:
				r.Undecided(rule, k, s, x.detail)
			default:
				if x.table {
					r.OKTable(rule, k, s, x.detail)
				} else {
					r.OK(rule, k, s, x.detail)
				}
			}
		}
	}
	emit("P-sorted", sortedRes)
	emit("P-source-superset", superRes)
	r.Floor("P-sorted", 7)
	r.Floor("P-source-superset", 8) // 7 sources + #same-constraint
}

// ---------------------------------------------------------------------------
// P-nodup

// c08NoDupExceptions: enumerators whose nested loops provably visit disjoint
// collections. One symbol, one reason.
var c08NoDupExceptions = map[string]string{
	"pkg/index.(*Corpus).EnumerateCamliBlobs": "c.camBlobs partitions the schema blobs by their own (single) CamliType: mergeMetaRow files a blob under bm.CamliType only, so the inner maps are disjoint",
}

// c08LoopDepth counts the natural loops containing block b.
func c08LoopDepth(b *ssa.BasicBlock) int {
	n := 0
	for _, h := range b.Parent().Blocks {
		if !h.Dominates(b) {
			continue
		}
		in := false
		for _, p := range h.Preds {
			if !h.Dominates(p) {
				continue
			}
			// back edge p->h: body = blocks reaching p without passing h
			seen := map[*ssa.BasicBlock]bool{h: true}
			var walk func(x *ssa.BasicBlock)
			walk = func(x *ssa.BasicBlock) {
				if seen[x] {
					return
				}
				seen[x] = true
				for _, q := range x.Preds {
					walk(q)
				}
			}
			walk(p)
			if seen[b] {
				in = true
			}
		}
		if in {
			n++
		}
	}
	return n
}

type c08CbSite struct {
	in    ssa.CallInstruction
	fn    *ssa.Function
	depth int
	via   string
}

// c08CallbackSites finds where fn's parameter prm is invoked, following one
// level of static pass-through helpers.
func c08CallbackSites(fn *ssa.Function, prm *ssa.Parameter, outer int, via string, level int) (sites []c08CbSite, bad string) {
	for _, c := range CallsIn(fn, true) {
		cc := c.Common()
		if !cc.IsInvoke() && originValue(cc.Value) == ssa.Value(prm) {
			if c.Fn != fn {
				return nil, "callback invoked from a function literal inside " + FuncKey(fn)
			}
			sites = append(sites, c08CbSite{c.Instr, fn, outer + c08LoopDepth(c.Block()), via})
			continue
		}
		for i, a := range c.Args() {
			if originValue(a) != ssa.Value(prm) {
				continue
			}
			callee := c.Callee()
			if callee == nil || callee.Blocks == nil || c.Fn != fn || level >= 2 || i >= len(callee.Params) {
				return nil, "callback passed on to " + c.CalleeKey() + ", which the rule cannot follow"
			}
			sub, b := c08CallbackSites(callee, callee.Params[i], outer+c08LoopDepth(c.Block()), via+" -> "+FuncKey(callee), level+1)
			if b != "" {
				return nil, b
			}
			sites = append(sites, sub...)
		}
	}
	return sites, ""
}

func c08SeenGuarded(s c08CbSite) bool {
	for _, f := range FactsAt(s.in.Block()) {
		if DependsOn(f.Cond, func(v ssa.Value) bool {
			lk, ok := v.(*ssa.Lookup)
			if !ok {
				return false
			}
			_, isMake := originValue(lk.X).(*ssa.MakeMap)
			return isMake
		}) {
			return true
		}
	}
	return false
}

func c08RuleNoDup(p *Program, r *Reporter) {
	var keys []string
	for k := range c08SourceTable {
		if !strings.HasPrefix(k, "iface:") {
			keys = append(keys, k)
		}
	}
	sort.Strings(keys)
	for _, k := range keys {
		fn := p.Func("pkg/index", "Corpus", k[strings.LastIndex(k, ".")+1:])
		site := p.Pos(fn.Pos())
		var cb *ssa.Parameter
		for _, prm := range fn.Params {
			if _, ok := prm.Type().Underlying().(*types.Signature); ok {
				cb = prm
			}
		}
		if cb == nil {
			r.Undecided("P-nodup", k+"#callback", site, "enumerator has no callback parameter")
			continue
		}
		sites, bad := c08CallbackSites(fn, cb, 0, FuncKey(fn), 0)
		if bad != "" {
			r.Undecided("P-nodup", k+"#callback", site, bad)
			continue
		}
		if len(sites) == 0 {
			r.Undecided("P-nodup", k+"#callback", site, "the enumerator never invokes its callback")
			continue
		}
		for i, s := range sites {
			c := fmt.Sprintf("%s#callback/%d", k, i+1)
			at := p.Pos(s.in.Pos())
			switch {
			case s.depth <= 1:
				r.OK("P-nodup", c, at, fmt.Sprintf("callback invoked at loop depth %d (%s): one pass over one collection", s.depth, s.via))
			case c08SeenGuarded(s):
				r.OK("P-nodup", c, at, fmt.Sprintf("callback invoked at loop depth %d under a look-up in a locally made seen-set", s.depth))
			case c08NoDupExceptions[k] != "":
				r.OKTable("P-nodup", c, at, fmt.Sprintf("loop depth %d, recorded exception: %s", s.depth, c08NoDupExceptions[k]))
			default:
				r.Violation("P-nodup", c, at, fmt.Sprintf("callback invoked at loop depth %d (%s) without a seen-set guard: a blob contained in several of the visited collections, or a key supplied twice by the planner, is handed to the matcher more than once and returned as a duplicate result", s.depth, s.via))
			}
		}
	}
	r.Floor("P-nodup", 7)
}

// ---------------------------------------------------------------------------
// the executor (Query): P-match, P-limit, P-postsort, P-truncate

type c08Exec struct {
	p        *Program
	fn       *ssa.Function
	pickCall *ssa.Call
	cell     *ssa.Alloc // cands
	sendCall CallSite
	callback *ssa.Function
}

// isCandsField: v is a load of field `field` of the cands variable (also from inside literals).
func (e *c08Exec) isCandsField(v ssa.Value, field string) bool {
	base, n, f, ok := c08FieldLoad(v)
	if !ok || f != field || !c08IsType(n, c08Pkg, "candidateSource") {
		return false
	}
	c, ok := varOf(base)
	return ok && c == ssa.Value(e.cell)
}

func c08IsQueryField(v ssa.Value, typ, field string) bool {
	_, n, f, ok := c08FieldLoad(v)
	return ok && f == field && c08IsType(n, c08Pkg, typ)
}

func c08IsLenOfBlobs(v ssa.Value) bool {
	c, ok := v.(*ssa.Call)
	if !ok {
		return false
	}
	b, isB := c.Call.Value.(*ssa.Builtin)
	return isB && b.Name() == "len" && len(c.Call.Args) == 1 && c08IsQueryField(c.Call.Args[0], "SearchResult", "Blobs")
}

func c08IsSortCall(c CallSite) bool {
	for _, n := range []string{"Sort", "Stable", "Slice", "SliceStable"} {
		if c.IsStatic("sort", "", n) {
			return true
		}
	}
	for _, n := range []string{"SortFunc", "SortStableFunc", "Sort"} {
		if c.IsStatic("slices", "", n) {
			return true
		}
	}
	return false
}

// storeToBlobs: in is `X.Blobs = v` for a SearchResult X; returns v.
func c08StoreToBlobs(in ssa.Instruction) ssa.Value {
	st, ok := in.(*ssa.Store)
	if !ok {
		return nil
	}
	fa, ok := st.Addr.(*ssa.FieldAddr)
	if !ok {
		return nil
	}
	_, n, f, ok := c08FieldAddr(fa)
	if !ok || f != "Blobs" || !c08IsType(n, c08Pkg, "SearchResult") {
		return nil
	}
	return st.Val
}

func c08FindExec(p *Program, r *Reporter, pick *ssa.Function) []*c08Exec {
	var out []*c08Exec
	for _, cs := range p.StaticCallers(pick) {
		if IsTestSupportPkg(RelPkg(cs.Fn.Pkg.Pkg)) {
			continue
		}
		key := FuncKey(cs.Fn)
		site := p.Pos(cs.Pos())
		call := cs.Value()
		if call == nil {
			r.Undecided("P-limit", key+"#pick", site, "pickCandidateSource started by go/defer")
			continue
		}
		e := &c08Exec{p: p, fn: cs.Fn, pickCall: call}
		if refs := call.Referrers(); refs != nil {
			for _, rf := range *refs {
				if st, ok := rf.(*ssa.Store); ok && st.Val == ssa.Value(call) {
					if al, ok := st.Addr.(*ssa.Alloc); ok && len(storesTo(al)) == 1 {
						e.cell = al
					}
				}
			}
		}
		if e.cell == nil {
			r.Undecided("P-limit", key+"#cands", site, "the result of pickCandidateSource is not kept in a single-assignment local variable")
			continue
		}
		var sends []CallSite
		for _, c := range CallsIn(cs.Fn, true) {
			if c.Common().IsInvoke() {
				continue
			}
			if e.isCandsField(originValue(c.Common().Value), "send") {
				sends = append(sends, c)
			}
		}
		if len(sends) != 1 || sends[0].Fn != cs.Fn || sends[0].Value() == nil {
			r.Undecided("P-limit", key+"#send", site, fmt.Sprintf("expected exactly one direct call of cands.send in the executor, found %d", len(sends)))
			continue
		}
		e.sendCall = sends[0]
		cbs := FuncArgClosures(e.sendCall)
		if len(cbs) != 1 {
			r.Undecided("P-limit", key+"#callback", site, "the callback passed to cands.send is not a single function literal")
			continue
		}
		e.callback = cbs[0]
		out = append(out, e)
	}
	return out
}

func c08RuleExecutor(p *Program, r *Reporter, e *c08Exec, sorts map[int64]string) {
	key := FuncKey(e.fn)
	cb := e.callback
	matcherFn := p.Func(c08Pkg, "Constraint", "matcher")

	// --- the matcher call inside the callback
	var mcall *ssa.Call
	nm := 0
	for _, c := range CallsIn(cb, false) {
		if c.Common().IsInvoke() || c.Value() == nil {
			continue
		}
		if src, ok := originValue(c.Common().Value).(*ssa.Call); ok && src.Call.StaticCallee() == matcherFn {
			mcall = c.Value()
			nm++
			// same constraint as the planner
			okSame := false
			if len(src.Call.Args) == 1 {
				if base, n, f, ok := c08FieldLoad(originValue(src.Call.Args[0])); ok && f == "Constraint" && c08IsType(n, c08Pkg, "SearchQuery") {
					okSame = originValue(base) == originValue(e.pickCall.Call.Args[0])
				}
			}
			r.Check(okSame, "P-source-superset", key+"#same-constraint", p.Pos(src.Pos()),
				"the matcher is compiled from the Constraint of the very SearchQuery the planner was called on",
				"the matcher applied to the candidates is not compiled from <planner receiver>.Constraint: the planner's restriction is justified by a different constraint than the one matched")
		}
	}
	if nm != 1 {
		r.Undecided("P-match", key+"#matcher", p.Pos(cb.Pos()), fmt.Sprintf("expected exactly one call of the compiled matcher in the enumeration callback, found %d", nm))
		return
	}
	matchVal := ResultValue(mcall, 0)
	errVal := ResultValue(mcall, 1)

	underMatch := func(b *ssa.BasicBlock) bool {
		if matchVal == nil {
			return false
		}
		for _, f := range FactsAt(b) {
			cond, val := f.Cond, f.Val
			for {
				u, ok := cond.(*ssa.UnOp)
				if !ok || u.Op != token.NOT {
					break
				}
				cond, val = u.X, !val
			}
			if val && originValue(cond) == matchVal {
				return true
			}
		}
		return false
	}
	underSorted := func(b *ssa.BasicBlock) bool {
		for _, f := range FactsAt(b) {
			cond, val := f.Cond, f.Val
			for {
				u, ok := cond.(*ssa.UnOp)
				if !ok || u.Op != token.NOT {
					break
				}
				cond, val = u.X, !val
			}
			if val && e.isCandsField(originValue(cond), "sorted") {
				return true
			}
		}
		return false
	}
	errPath := func(b *ssa.BasicBlock) bool {
		if errVal == nil {
			return false
		}
		k, isNil := NilFact(b, errVal)
		return k && !isNil
	}
	errNil := func(b *ssa.BasicBlock) bool {
		if errVal == nil {
			return false
		}
		k, isNil := NilFact(b, errVal)
		return k && isNil
	}

	// --- P-match and P-limit over the callback (nested literals are not expected)
	nAppend, nLose := 0, 0
	for _, b := range cb.Blocks {
		for _, in := range b.Instrs {
			if v := c08StoreToBlobs(in); v != nil {
				switch x := originValue(v).(type) {
				case *ssa.Call:
					if bi, ok := x.Call.Value.(*ssa.Builtin); ok && bi.Name() == "append" {
						nAppend++
						r.Check(underMatch(b) && errNil(b), "P-match", fmt.Sprintf("%s#append/%d", key, nAppend), p.Pos(in.Pos()),
							"result appended only where the matcher returned (true, nil)",
							"a candidate is appended to res.Blobs on a path where the matcher did not return (true, nil): non-matching blobs would be returned")
						continue
					}
					r.Undecided("P-limit", fmt.Sprintf("%s#blobs-store/%s", key, x.Name()), p.Pos(in.Pos()), "res.Blobs assigned from a call the rule does not model")
				case *ssa.Slice:
					nLose++
					r.Check(errPath(b) || underSorted(b), "P-limit", fmt.Sprintf("%s#shrink/%d", key, nLose), p.Pos(in.Pos()),
						"res.Blobs is shrunk during enumeration only under fact cands.sorted",
						"res.Blobs is shrunk during enumeration without the fact cands.sorted: with an unsorted source arbitrary matches are dropped before the post-sort")
				case *ssa.Const:
					nLose++
					r.Check(errPath(b) || underSorted(b), "P-limit", fmt.Sprintf("%s#shrink/%d", key, nLose), p.Pos(in.Pos()),
						"res.Blobs is reset during enumeration only under fact cands.sorted", "res.Blobs is reset during enumeration without the fact cands.sorted")
				default:
					r.Undecided("P-limit", fmt.Sprintf("%s#blobs-store", key), p.Pos(in.Pos()), "res.Blobs assigned a value the rule does not model: "+v.String())
				}
			}
		}
	}
	nStop := 0
	for _, ri := range Returns(cb) {
		if len(ri.Results) != 1 {
			continue
		}
		if cv, ok := c08ConstBool(originValue(ri.Results[0])); ok && cv {
			continue // "continue enumerating" never loses a result
		}
		nStop++
		nLose++
		b := ri.Ret.Block()
		// phi of constants: look at each incoming edge that may be false
		okAll := true
		if ph, ok := ri.Results[0].(*ssa.Phi); ok {
			for i, ed := range ph.Edges {
				if cv, ok := c08ConstBool(originValue(ed)); ok && cv {
					continue
				}
				pb := ph.Block().Preds[i]
				if !(errPath(pb) || underSorted(pb) || errPath(b) || underSorted(b)) {
					okAll = false
				}
			}
		} else {
			okAll = errPath(b) || underSorted(b)
		}
		r.Check(okAll, "P-limit", fmt.Sprintf("%s#stop/%d", key, nStop), p.Pos(ri.Ret.Pos()),
			"enumeration is stopped early only on the matcher-error path or under fact cands.sorted",
			"the callback may return false (stop the enumeration) without the fact cands.sorted and not on the error path: with an unsorted source the remaining candidates, which may sort first, are never seen")
	}
	r.Floor("P-match", 1)
	r.Floor("P-limit", 5)

	// --- P-postsort / P-truncate in the executor
	retRes := map[*ssa.Return][]ssa.Value{}
	for _, ri := range Returns(e.fn) {
		retRes[ri.Ret] = ri.Results
	}
	exitOK := func(exit ssa.Instruction) bool {
		ret, ok := exit.(*ssa.Return)
		if !ok {
			return false
		}
		rs := retRes[ret]
		return len(rs) > 0 && IsNilConst(originValue(rs[0])) // no result returned
	}
	noOrder := map[string]string{
		"UnspecifiedSort": "no order requested",
		"Unsorted":        "no order requested",
		"MapSort":         "a selection (bestByLocation), not an order",
	}
	var ks []int64
	for k := range sorts {
		ks = append(ks, k)
	}
	sort.Slice(ks, func(i, j int) bool { return ks[i] < ks[j] })
	qRecv := originValue(e.pickCall.Call.Args[0])
	for _, k := range ks {
		name := sorts[k]
		opaque := false
		// concrete model for P-truncate: 0 < Limit < len(res.Blobs), with wide gaps so
		// that comparisons against small literals come out the same for any such world
		const modelLimit, modelLen = int64(1) << 20, int64(1) << 21
		model := func(v ssa.Value) (int64, bool) {
			v = originValue(v)
			if n, ok := ConstInt(v); ok && n >= 0 && n < 1<<10 {
				return n, true
			}
			if c08IsQueryField(v, "SearchQuery", "Limit") {
				return modelLimit, true
			}
			if c08IsLenOfBlobs(v) {
				return modelLen, true
			}
			return 0, false
		}
		mkAssume := func(withLimit bool) func(cond ssa.Value) (bool, bool) {
			return func(cond ssa.Value) (bool, bool) {
				neg := false
				cond = originValue(cond)
				for {
					u, ok := cond.(*ssa.UnOp)
					if !ok || u.Op != token.NOT {
						break
					}
					cond, neg = originValue(u.X), !neg
				}
				if e.isCandsField(cond, "sorted") {
					return true, neg // sorted == false
				}
				if bo, ok := cond.(*ssa.BinOp); ok {
					x, y := originValue(bo.X), originValue(bo.Y)
					for side := 0; side < 2; side++ {
						if side == 1 {
							x, y = y, x
						}
						if base, n, f, ok := c08FieldLoad(x); ok && f == "Sort" && c08IsType(n, c08Pkg, "SearchQuery") && originValue(base) == qRecv {
							if c, ok := ConstInt(y); ok {
								l, rr := k, c
								if side == 1 {
									l, rr = c, k
								}
								if res, ok := c08Cmp(bo.Op, l, rr); ok {
									return true, res != neg
								}
							}
							opaque = true
							return false, false
						}
					}
					if withLimit {
						mx, okx := model(bo.X)
						my, oky := model(bo.Y)
						if okx && oky && (mx >= modelLimit || my >= modelLimit) {
							if res, ok := c08Cmp(bo.Op, mx, my); ok {
								return true, res != neg
							}
						}
					}
				}
				if DependsOn(cond, func(v ssa.Value) bool {
					return e.isCandsField(v, "sorted") || c08IsQueryField(v, "SearchQuery", "Sort")
				}) {
					opaque = true
				}
				return false, false
			}
		}
		report := func(rule, construct string, leaks []Leak, okDetail, badDetail string) {
			site := p.Pos(e.sendCall.Pos())
			if len(leaks) == 0 {
				r.OK(rule, construct, site, okDetail)
				return
			}
			var via []string
			for _, l := range leaks {
				via = append(via, "exit at "+p.Pos(l.Exit.Pos())+" via blocks "+blockNames(l.Via))
			}
			if opaque {
				r.Undecided(rule, construct, site, "a branch on cands.sorted / q.Sort could not be interpreted; "+strings.Join(via, "; "))
				return
			}
			r.Violation(rule, construct, p.Pos(leaks[0].Exit.Pos()), badDetail+": "+strings.Join(via, "; "))
		}
		// P-postsort
		c := key + "#unsorted+" + name
		if why, ok := noOrder[name]; ok {
			r.OKTable("P-postsort", c, p.Pos(e.sendCall.Pos()), "no post-sort needed: "+why)
		} else {
			opaque = false
			leaks := LeakingExits(PathQuery{
				Start:        e.sendCall.Instr,
				Stop:         func(in ssa.Instruction) bool { ci, ok := in.(ssa.CallInstruction); return ok && c08IsSortCall(CallSite{e.fn, ci}) },
				Assume:       mkAssume(false),
				ExitOK:       exitOK,
				IgnorePanics: true,
			})
			report("P-postsort", c, leaks,
				"with an unsorted source and q.Sort=="+name+" every path from the enumeration to a non-nil result passes a sort call (or the query is refused)",
				"with an unsorted source and q.Sort=="+name+" a result is returned without passing any sort call")
		}
		// P-truncate
		if name == "MapSort" {
			r.OKTable("P-truncate", c, p.Pos(e.sendCall.Pos()), "MapSort: the limit is applied by bestByLocation (not decided)")
			continue
		}
		opaque = false
		leaks := LeakingExits(PathQuery{
			Start: e.sendCall.Instr,
			Stop: func(in ssa.Instruction) bool {
				v := c08StoreToBlobs(in)
				if v == nil {
					return false
				}
				sl, ok := originValue(v).(*ssa.Slice)
				return ok && sl.High != nil
			},
			Assume:       mkAssume(true),
			ExitOK:       exitOK,
			IgnorePanics: true,
		})
		report("P-truncate", c, leaks,
			"with an unsorted source, q.Sort=="+name+" and 0<Limit<len(res.Blobs) every path to a non-nil result re-slices res.Blobs with an upper bound (or the query is refused)",
			"with an unsorted source, q.Sort=="+name+" and 0<Limit<len(res.Blobs) a result is returned without truncating res.Blobs")
	}
	r.Floor("P-postsort", len(sorts)-1)
	r.Floor("P-truncate", len(sorts)-1)
}

// ---------------------------------------------------------------------------
// P-memo: a skip-memo of the matchers may only remember evaluations that were
// actually carried out.
//
// A *skip guard* is a branch on a map membership test m[k] whose "found" edge
// bypasses a matcher call on that same k which the "not found" edge reaches.
// Every value that can become a key of m (directly, or through variables that
// feed the map update, like lastChecked) is a *mark*. A mark of k is sound
// only if the evaluation it stands for completed: the mark is dominated by a
// successful matcher call on k, or every path from the mark to an exit of the
// callback after which the guard can be consulted again passes such a call.

// c08MatchSig is the signature behind pkg/search.matchFn.
func c08MatchSig(p *Program) *types.Signature {
	n := p.NamedType(c08Pkg, "matchFn")
	sig, ok := n.Underlying().(*types.Signature)
	if !ok {
		brokenf("anchor unresolved: pkg/search.matchFn is not a function type")
	}
	return sig
}

func c08IsBool(t types.Type) bool {
	b, ok := t.Underlying().(*types.Basic)
	return ok && b.Kind() == types.Bool
}

func c08IsBlobRef(t types.Type) bool {
	if _, isPtr := t.(*types.Pointer); isPtr {
		return false
	}
	return IsNamed(t, modPrefix+"pkg/blob", "Ref")
}

// c08VerdictOn: the call asks a matcher for a verdict on blob k — one of its
// blob.Ref arguments is k and its callee has the matchFn signature (compiled
// matchers, blobMatches methods, bound or not), or is a pkg/search function
// working on a *search and returning (bool) or (bool, error), like
// (*RelationConstraint).match, or is a helper / local literal with such results
// that itself asks for a verdict on the parameter k is passed as.
func c08VerdictOn(c CallSite, k ssa.Value, matchSig *types.Signature, depth int) bool {
	if c.Value() == nil || c.Common().IsInvoke() {
		return false
	}
	sig := c.Common().Signature()
	if sig == nil {
		return false
	}
	res := sig.Results()
	switch {
	case res.Len() == 1 && c08IsBool(res.At(0).Type()):
	case res.Len() == 2 && c08IsBool(res.At(0).Type()) && isErrorType(res.At(1).Type()):
	default:
		return false
	}
	ko := originValue(k)
	var at []int
	for i, a := range c.Common().Args {
		if c08IsBlobRef(a.Type()) && originValue(a) == ko {
			at = append(at, i)
		}
	}
	if len(at) == 0 {
		return false
	}
	if types.Identical(sig, matchSig) {
		return true
	}
	if f := c.Common().StaticCallee(); f != nil && f.Pkg != nil && RelPkg(f.Pkg.Pkg) == c08Pkg {
		hasSearch := sig.Recv() != nil && IsNamed(sig.Recv().Type(), modPrefix+c08Pkg, "search")
		for i := 0; i < sig.Params().Len(); i++ {
			if IsNamed(sig.Params().At(i).Type(), modPrefix+c08Pkg, "search") {
				hasSearch = true
			}
		}
		if hasSearch {
			return true
		}
	}
	callee := c.Callee()
	if callee == nil || callee.Blocks == nil || !InModule(callee) || depth >= 2 {
		return false
	}
	for _, i := range at {
		if i >= len(callee.Params) {
			continue
		}
		for _, c2 := range CallsIn(callee, false) {
			if c08VerdictOn(c2, callee.Params[i], matchSig, depth+1) {
				return true
			}
		}
	}
	return false
}

// c08LocalLoad resolves a load that directly follows a store to the same
// address in its block (no call in between): `*err = t; x = *err` gives t.
func c08LocalLoad(v ssa.Value) ssa.Value {
	ld, ok := v.(*ssa.UnOp)
	if !ok || ld.Op != token.MUL || ld.Block() == nil {
		return v
	}
	ins := ld.Block().Instrs
	for i := instrIndex(ld) - 1; i >= 0; i-- {
		switch x := ins[i].(type) {
		case *ssa.Store:
			if x.Addr == ld.X {
				return x.Val
			}
		case ssa.CallInstruction:
			return v
		}
	}
	return v
}

// c08SuccessAt: every path to block b has passed call e and e's error result,
// if it has one, is known nil in b.
func c08SuccessAt(e *ssa.Call, b *ssa.BasicBlock) bool {
	if e.Block() != b && !e.Block().Dominates(b) {
		return false
	}
	ev, hasErr, discarded := ErrValue(e)
	if !hasErr {
		return true
	}
	if discarded || ev == nil {
		return false
	}
	for _, f := range FactsAt(b) {
		cond, val := f.Cond, f.Val
		for {
			u, ok := cond.(*ssa.UnOp)
			if !ok || u.Op != token.NOT {
				break
			}
			cond, val = u.X, !val
		}
		bo, ok := cond.(*ssa.BinOp)
		if !ok || (bo.Op != token.EQL && bo.Op != token.NEQ) {
			continue
		}
		var other ssa.Value
		switch {
		case IsNilConst(bo.Y):
			other = bo.X
		case IsNilConst(bo.X):
			other = bo.Y
		default:
			continue
		}
		if !(sameOrigin(other, ev) || originValue(c08LocalLoad(other)) == ev) {
			continue
		}
		// the fact must have been established after the call
		if f.At != e.Block() && !e.Block().Dominates(f.At) {
			continue
		}
		if (bo.Op == token.EQL) == val {
			return true
		}
	}
	return false
}

// c08Family: fn's outermost enclosing function and all its literals.
func c08Family(fn *ssa.Function) []*ssa.Function {
	var out []*ssa.Function
	var walk func(f *ssa.Function)
	walk = func(f *ssa.Function) {
		out = append(out, f)
		for _, a := range f.AnonFuncs {
			walk(a)
		}
	}
	walk(TopFunc(fn))
	return out
}

// c08MapID identifies the map a Lookup / MapUpdate works on: the variable
// holding it (also when captured), a field path, or the value's origin.
// local = the map lives in a variable declared in the function family (a fresh
// map per invocation of the outermost function).
func c08MapID(m ssa.Value) (id any, name string, local bool) {
	if ld, ok := m.(*ssa.UnOp); ok && ld.Op == token.MUL {
		if cell, ok := varOf(ld.X); ok {
			if al, isAl := cell.(*ssa.Alloc); isAl {
				return cell, al.Comment, true
			}
			return cell, cell.Name(), false
		}
		if ap := AccessPath(m); !strings.HasPrefix(ap, "?") {
			return ap, ap, false
		}
	}
	o := originValue(m)
	if ld, ok := o.(*ssa.UnOp); ok && ld.Op == token.MUL {
		if ap := AccessPath(o); !strings.HasPrefix(ap, "?") {
			return ap, ap, false
		}
	}
	if lk, ok := o.(*ssa.Lookup); ok { // an inner map of a map of maps
		_, n, _ := c08MapID(lk.X)
		return o, n + "[]", false
	}
	if ex, ok := o.(*ssa.Extract); ok {
		if lk, ok := ex.Tuple.(*ssa.Lookup); ok && ex.Index == 0 {
			_, n, _ := c08MapID(lk.X)
			return o, n + "[]", false
		}
	}
	if mk, ok := o.(*ssa.MakeMap); ok {
		return o, "map made in " + mk.Parent().Name(), true
	}
	return o, o.Name(), false
}

// c08MentionsBlobRef: t is blob.Ref or a struct with a blob.Ref field.
func c08MentionsBlobRef(t types.Type, depth int) bool {
	if c08IsBlobRef(t) {
		return true
	}
	if st, ok := t.Underlying().(*types.Struct); ok && depth < 2 {
		for i := 0; i < st.NumFields(); i++ {
			if c08MentionsBlobRef(st.Field(i).Type(), depth+1) {
				return true
			}
		}
	}
	return false
}

// c08CallDesc names the callee of a verdict call, also when it is a function value.
func c08CallDesc(c CallSite) string {
	if c.Common().StaticCallee() != nil {
		return c.CalleeKey()
	}
	if ap := AccessPath(c.Common().Value); !strings.HasPrefix(ap, "?") {
		return ap + "(...) [" + c.Common().Value.Type().String() + "]"
	}
	return "a " + c.Common().Value.Type().String() + " value"
}

type c08Guard struct {
	fn         *ssa.Function
	ifi        *ssa.If
	lookup     *ssa.Lookup
	found      *ssa.BasicBlock // successor when the key is in the map
	miss       *ssa.BasicBlock
	id         any
	name       string
	local      bool
	setLike    bool
	bypassed   []CallSite // verdict calls on the key reached only when the key is not in the map
	foundLeave bool       // the found edge reaches no call at all before leaving
}

// c08Guards lists the branches of fn on a map membership test.
func c08Guards(fn *ssa.Function, matchSig *types.Signature) (guards []*c08Guard, otherMapBranches int) {
	for _, b := range fn.Blocks {
		if len(b.Instrs) == 0 || len(b.Succs) != 2 || b.Succs[0] == b.Succs[1] {
			continue
		}
		ifi, ok := b.Instrs[len(b.Instrs)-1].(*ssa.If)
		if !ok {
			continue
		}
		cond, val := ifi.Cond, true
		for {
			u, ok := cond.(*ssa.UnOp)
			if !ok || u.Op != token.NOT {
				break
			}
			cond, val = u.X, !val
		}
		var lk *ssa.Lookup
		switch x := cond.(type) {
		case *ssa.Lookup:
			if !x.CommaOk {
				lk = x
			}
		case *ssa.Extract:
			if l, ok := x.Tuple.(*ssa.Lookup); ok && l.CommaOk && x.Index == 1 {
				lk = l
			}
		}
		var mt *types.Map
		if lk != nil {
			mt, _ = lk.X.Type().Underlying().(*types.Map)
		}
		if lk == nil || mt == nil {
			if DependsOn(ifi.Cond, func(v ssa.Value) bool {
				l, ok := v.(*ssa.Lookup)
				if !ok {
					return false
				}
				_, isMap := l.X.Type().Underlying().(*types.Map)
				return isMap
			}) {
				otherMapBranches++
			}
			continue
		}
		g := &c08Guard{fn: fn, ifi: ifi, lookup: lk}
		g.found, g.miss = b.Succs[0], b.Succs[1]
		if !val {
			g.found, g.miss = g.miss, g.found
		}
		g.id, g.name, g.local = c08MapID(lk.X)
		if c08IsBool(mt.Elem()) {
			g.setLike = true
		} else if st, ok := mt.Elem().Underlying().(*types.Struct); ok && st.NumFields() == 0 {
			g.setLike = true
		}
		// within one iteration: do not walk through the guard again (loop back edges)
		fromFound, fromMiss := c08BlocksFromNotThrough(g.found, b), c08BlocksFromNotThrough(g.miss, b)
		g.foundLeave = true
		for fb := range fromFound {
			for _, in := range fb.Instrs {
				if _, ok := in.(ssa.CallInstruction); ok {
					g.foundLeave = false
				}
			}
		}
		for _, c := range CallsIn(fn, false) {
			if !c08VerdictOn(c, lk.Index, matchSig, 0) {
				continue
			}
			if fromMiss[c.Block()] && !fromFound[c.Block()] {
				g.bypassed = append(g.bypassed, c)
			}
		}
		guards = append(guards, g)
	}
	return
}

// c08BlocksFromNotThrough: blocks reachable from s without entering block stop.
func c08BlocksFromNotThrough(s, stop *ssa.BasicBlock) map[*ssa.BasicBlock]bool {
	seen := map[*ssa.BasicBlock]bool{}
	var walk func(b *ssa.BasicBlock)
	walk = func(b *ssa.BasicBlock) {
		if b == stop || seen[b] {
			return
		}
		seen[b] = true
		for _, x := range b.Succs {
			walk(x)
		}
	}
	walk(s)
	return seen
}

type c08Mark struct {
	site ssa.Instruction // the Store to a feeder variable, or the MapUpdate itself
	key  ssa.Value
	via  string
}

func c08IsZeroConst(v ssa.Value) bool {
	c, ok := v.(*ssa.Const)
	return ok && c.Value == nil
}

// c08Marks finds every value that can become a key of the guard's map.
func c08Marks(g *c08Guard) (marks []c08Mark, bad string) {
	seenCell := map[ssa.Value]bool{}
	var follow func(v ssa.Value, site ssa.Instruction, via string, depth int)
	follow = func(v ssa.Value, site ssa.Instruction, via string, depth int) {
		o := originValue(v)
		if ld, ok := o.(*ssa.UnOp); ok && ld.Op == token.MUL {
			if cell, ok := varOf(ld.X); ok {
				al, isAl := cell.(*ssa.Alloc)
				if !isAl || depth > 4 {
					bad = "a key of the memo is read from " + cell.Name() + ", whose writers the rule cannot enumerate"
					return
				}
				if seenCell[cell] {
					return
				}
				seenCell[cell] = true
				if !plainVariable(al) {
					bad = "the address of variable " + al.Comment + ", which feeds the memo, escapes"
					return
				}
				for _, st := range storesTo(al) {
					if c08IsZeroConst(st.Val) {
						continue // reset to the zero value: not a key the guard is asked about
					}
					follow(st.Val, st, al.Comment, depth+1)
				}
				return
			}
		}
		if c08IsZeroConst(o) {
			return
		}
		marks = append(marks, c08Mark{site, o, via})
	}
	for _, f := range c08Family(g.fn) {
		for _, b := range f.Blocks {
			for _, in := range b.Instrs {
				mu, ok := in.(*ssa.MapUpdate)
				if !ok {
					continue
				}
				if id, _, _ := c08MapID(mu.Map); id != g.id {
					continue
				}
				follow(mu.Key, mu, "", 0)
			}
		}
	}
	return
}

// c08MapEscapes: the memo's map value is used for something other than
// membership tests, updates, nil checks and len — other code could add keys.
func c08MapEscapes(g *c08Guard) string {
	cell, ok := g.id.(ssa.Value)
	if !ok {
		return "the map is not held in a local variable"
	}
	check := func(m ssa.Value) string {
		refs := m.Referrers()
		if refs == nil {
			return ""
		}
		for _, rf := range *refs {
			switch x := rf.(type) {
			case *ssa.Lookup, *ssa.MapUpdate, *ssa.DebugRef, *ssa.BinOp, *ssa.Range:
			case *ssa.Call:
				if b, isB := x.Call.Value.(*ssa.Builtin); isB && (b.Name() == "len" || b.Name() == "delete") {
					continue
				}
				return "the map is passed to " + (CallSite{x.Parent(), x}).CalleeKey()
			case *ssa.Store:
				if c, ok := varOf(x.Addr); ok && c == cell {
					continue
				}
				return "the map is stored elsewhere"
			default:
				return "the map flows into " + rf.String()
			}
		}
		return ""
	}
	if _, isAl := cell.(*ssa.Alloc); !isAl {
		return check(cell)
	}
	for _, f := range c08Family(g.fn) {
		for _, b := range f.Blocks {
			for _, in := range b.Instrs {
				switch x := in.(type) {
				case *ssa.UnOp:
					if x.Op == token.MUL {
						if c, ok := varOf(x.X); ok && c == cell {
							if why := check(x); why != "" {
								return why
							}
						}
					}
				case *ssa.Store:
					if c, ok := varOf(x.Addr); ok && c == cell {
						switch originValue(x.Val).(type) {
						case *ssa.MakeMap, *ssa.Const:
						default:
							if ld, isLd := x.Val.(*ssa.UnOp); isLd && ld.Op == token.MUL {
								if c2, ok := varOf(ld.X); ok && c2 == cell {
									continue
								}
							}
							return "the memo variable is assigned a map made elsewhere"
						}
					}
				}
			}
		}
	}
	return ""
}

// c08StopsOnFalse: cb is a func(...) bool literal handed to exactly one
// enumeration call of its parent (outside any loop), and every function that
// call may enter stops calling its callback once it returned false. Then a
// `return false` of cb retires every memo local to the parent.
func c08StopsOnFalse(cb *ssa.Function) (bool, string) {
	parent := cb.Parent()
	res := cb.Signature.Results()
	if parent == nil || res.Len() != 1 || !c08IsBool(res.At(0).Type()) {
		return false, "not a func(...) bool literal"
	}
	var site *ssa.Call
	argIdx := -1
	for _, b := range parent.Blocks {
		for _, in := range b.Instrs {
			if mc, ok := in.(*ssa.MakeClosure); ok && mc.Fn == cb {
				continue
			}
			if _, ok := in.(*ssa.DebugRef); ok {
				continue
			}
			for _, op := range in.Operands(nil) {
				if *op == nil {
					continue
				}
				isCb := *op == ssa.Value(cb)
				if mc, ok := (*op).(*ssa.MakeClosure); ok && mc.Fn == cb {
					isCb = true
				}
				if !isCb {
					continue
				}
				call, ok := in.(*ssa.Call)
				if !ok || site != nil {
					return false, "the callback is used by more than one instruction or not by a plain call"
				}
				for i, a := range call.Call.Args {
					if a == *op {
						argIdx = i
					}
				}
				if argIdx < 0 || call.Call.IsInvoke() {
					return false, "the callback is not passed as an argument of a non-interface call"
				}
				site = call
			}
		}
	}
	if site == nil {
		return false, "no call receives the callback"
	}
	if c08LoopDepth(site.Block()) > 0 {
		return false, "the enumeration is started inside a loop"
	}
	// the functions the call may enter
	var callees []*ssa.Function
	var expand func(v ssa.Value, depth int) bool
	expand = func(v ssa.Value, depth int) bool {
		switch x := originValue(v).(type) {
		case *ssa.Function:
			callees = append(callees, x)
			return true
		case *ssa.MakeClosure:
			callees = append(callees, x.Fn.(*ssa.Function))
			return true
		case *ssa.Phi:
			if depth > 4 {
				return false
			}
			for _, e := range x.Edges {
				if !expand(e, depth+1) {
					return false
				}
			}
			return len(x.Edges) > 0
		}
		return false
	}
	if !expand(site.Call.Value, 0) {
		return false, "the enumerator called with the callback cannot be resolved to functions"
	}
	for _, f := range callees {
		idx := argIdx
		for hop := 0; f.Synthetic != "" && hop < 3; hop++ { // bound-method / wrapper thunks
			if idx >= len(f.Params) {
				return false, "cannot follow wrapper " + f.Name()
			}
			var next *ssa.Function
			nidx := -1
			for _, c := range CallsIn(f, false) {
				for i, a := range c.Common().Args {
					if a == ssa.Value(f.Params[idx]) && c.Common().StaticCallee() != nil {
						next, nidx = c.Common().StaticCallee(), i
					}
				}
			}
			if next == nil {
				return false, "cannot follow wrapper " + f.Name()
			}
			f, idx = next, nidx
		}
		if f.Blocks == nil || idx >= len(f.Params) {
			return false, "enumerator " + FuncKey(f) + " has no body to inspect"
		}
		prm := f.Params[idx]
		var calls []*ssa.Call
		if refs := prm.Referrers(); refs != nil {
			for _, rf := range *refs {
				switch x := rf.(type) {
				case *ssa.DebugRef:
				case *ssa.Call:
					if x.Call.Value != ssa.Value(prm) {
						return false, FuncKey(f) + " passes its callback on"
					}
					calls = append(calls, x)
				default:
					return false, FuncKey(f) + " does more with its callback than call it"
				}
			}
		}
		if len(calls) == 0 {
			return false, FuncKey(f) + " never calls its callback directly"
		}
		hasCall := func(b *ssa.BasicBlock) bool {
			for _, c := range calls {
				if c.Block() == b {
					return true
				}
			}
			return false
		}
		for _, c := range calls {
			refs := c.Referrers()
			n := 0
			if refs != nil {
				for _, rf := range *refs {
					if _, ok := rf.(*ssa.DebugRef); ok {
						continue
					}
					n++
					cond, neg := ssa.Value(c), false
					var ifi *ssa.If
					switch x := rf.(type) {
					case *ssa.If:
						ifi = x
					case *ssa.UnOp:
						if x.Op == token.NOT {
							cond, neg = x, true
							if rr := x.Referrers(); rr != nil {
								for _, r2 := range nonDebug(*rr) {
									if i2, ok := r2.(*ssa.If); ok && len(nonDebug(*rr)) == 1 {
										ifi = i2
									}
								}
							}
						}
					}
					if ifi == nil || ifi.Cond != cond || len(ifi.Block().Succs) != 2 {
						return false, FuncKey(f) + " does not branch directly on its callback's result"
					}
					onFalse := ifi.Block().Succs[1]
					if neg {
						onFalse = ifi.Block().Succs[0]
					}
					for b := range BlocksFrom(onFalse) {
						if hasCall(b) {
							return false, FuncKey(f) + " may call its callback again after it returned false"
						}
					}
				}
			}
			if n == 0 {
				return false, FuncKey(f) + " ignores its callback's result"
			}
		}
	}
	return true, ""
}

func c08RuleMemo(p *Program, r *Reporter) {
	matchSig := c08MatchSig(p)
	// anchors: the matcher entry points the memo rule is about
	p.Func(c08Pkg, "Constraint", "matcher")
	p.Func(c08Pkg, "RelationConstraint", "match")
	fns := p.FuncsIn(c08Pkg)
	r.Analysed("memo_functions", len(fns))
	nOther, nValue := 0, 0
	for _, fn := range fns {
		if fn.Blocks == nil {
			continue
		}
		guards, other := c08Guards(fn, matchSig)
		nOther += other
		perMap := map[string]int{}
		for _, g := range guards {
			site := p.Pos(g.lookup.Pos())
			perMap[g.name]++
			base := fmt.Sprintf("%s#memo(%s)", FuncKey(fn), g.name)
			if n := perMap[g.name]; n > 1 {
				base = fmt.Sprintf("%s/%d", base, n)
			}
			if len(g.bypassed) == 0 {
				if !g.setLike || !c08MentionsBlobRef(g.lookup.Index.Type(), 0) {
					nValue++
					continue
				}
				// a set, but no matcher verdict is skipped on its key: classify, do not judge
				marked := false
				for b := range c08BlocksFromNotThrough(g.miss, g.ifi.Block()) {
					for _, in := range b.Instrs {
						if mu, ok := in.(*ssa.MapUpdate); ok {
							if id, _, _ := c08MapID(mu.Map); id == g.id && originValue(mu.Key) == originValue(g.lookup.Index) {
								marked = true
							}
						}
					}
				}
				kind := "membership filter (the set is only read here; no work on the key is skipped because it was done before)"
				if marked && g.foundLeave {
					kind = "started/visited set (key absent: it is marked and the work on it is started right after; key present: leave) — marking before the work is what terminates the traversal"
				}
				r.OKTable("P-memo", base+"#class", site, "set membership test that bypasses no matcher call on its key: "+kind+"; not a memo of a completed evaluation, P-memo does not apply")
				continue
			}
			var ev []string
			for _, c := range g.bypassed {
				ev = append(ev, c08CallDesc(c))
			}
			if !g.local {
				r.Undecided("P-memo", base+"#guard", site, "a membership test on a map shared beyond one invocation ("+g.name+") bypasses the matcher call "+strings.Join(ev, ", ")+" on its key: this may be a visited-set that terminates a recursive traversal (mark before visiting is correct) or a memo of completed evaluations (mark only after); the rule cannot tell them apart for a shared map")
				continue
			}
			if why := c08MapEscapes(g); why != "" {
				r.Undecided("P-memo", base+"#guard", site, "skip guard on memo "+g.name+": "+why+"; the keys it may hold cannot be enumerated")
				continue
			}
			marks, bad := c08Marks(g)
			if bad != "" {
				r.Undecided("P-memo", base+"#guard", site, "skip guard on memo "+g.name+": "+bad)
				continue
			}
			r.OK("P-memo", base+"#guard", site, fmt.Sprintf("skip guard: a key found in local memo %s bypasses the matcher call %s on that key; %d assignment(s) can put a key into the memo, each checked as #mark", g.name, strings.Join(ev, ", "), len(marks)))
			stops, whyNot := c08StopsOnFalse(fn)
			// no other function of the family may consult the memo after a stop
			if stops {
				for _, f := range c08Family(fn) {
					if f == fn {
						continue
					}
					for _, b := range f.Blocks {
						for _, in := range b.Instrs {
							if lk, ok := in.(*ssa.Lookup); ok {
								if id, _, _ := c08MapID(lk.X); id == g.id {
									stops, whyNot = false, "the memo is also consulted in "+FuncKey(f)
								}
							}
						}
					}
				}
			}
			nVia := map[string]int{}
			for _, m := range marks {
				via := m.via
				if via == "" {
					via = "direct"
				}
				nVia[via]++
				c := fmt.Sprintf("%s#mark(%s)/%d", base, via, nVia[via])
				msite := p.Pos(m.site.Pos())
				if m.site.Parent() != fn {
					r.Undecided("P-memo", c, msite, "a key is put into memo "+g.name+" from "+FuncKey(m.site.Parent())+", outside the function that evaluates and consults it; the rule cannot relate it to an evaluation")
					continue
				}
				var evals []*ssa.Call
				for _, cs := range CallsIn(fn, false) {
					if c08VerdictOn(cs, m.key, matchSig, 0) {
						evals = append(evals, cs.Value())
					}
				}
				if len(evals) == 0 {
					r.Undecided("P-memo", c, msite, "the value remembered in memo "+g.name+" ("+m.key.String()+") is not the blob any matcher call of this function evaluates: the guard would skip a key on the strength of work done for another value")
					continue
				}
				dominated := false
				for _, e := range evals {
					if Precedes(e, m.site) && c08SuccessAt(e, m.site.Block()) {
						dominated = true
					}
				}
				if dominated {
					r.OK("P-memo", c, msite, "the key is remembered only where the matcher call on that same key has returned without error (the assignment is dominated by the call's success edge)")
					continue
				}
				done := func(in ssa.Instruction) bool {
					for _, e := range evals {
						if Precedes(e, in) && c08SuccessAt(e, in.Block()) {
							return true
						}
					}
					return false
				}
				leaks := LeakingExits(PathQuery{
					Start: m.site,
					Stop:  done,
					ExitOK: func(exit ssa.Instruction) bool {
						ret, ok := exit.(*ssa.Return)
						if !ok || !stops || len(ret.Results) != 1 {
							return false
						}
						cv, isC := c08ConstBool(originValue(ret.Results[0]))
						return isC && !cv
					},
					IgnorePanics: true,
				})
				// a guard inside a loop is consulted again through the back edge, not only after an exit
				again := c08LoopDepth(g.ifi.Block()) > 0 && ReachableFrom(m.site, done)[g.lookup]
				if again {
					r.Violation("P-memo", c, msite, "a key is remembered in skip-memo "+g.name+" at a point from which the loop can come round to the membership test again without the matcher having (successfully) run on that key: a later occurrence of the same key is skipped although it was never evaluated")
					continue
				}
				if len(leaks) == 0 {
					r.OK("P-memo", c, msite, "the key is remembered before its evaluation completed, but every path from there either completes the matcher call on that key without error or returns false, which ends the enumeration (verified in the enumerators) and with it the life of the memo")
					continue
				}
				var via2 []string
				for _, l := range leaks {
					via2 = append(via2, "exit at "+p.Pos(l.Exit.Pos())+" via blocks "+blockNames(l.Via))
				}
				extra := ""
				if !stops {
					extra = " (returning false is not counted as ending the enumeration: " + whyNot + ")"
				}
				r.Violation("P-memo", c, msite, "a key is remembered in skip-memo "+g.name+" on a path where the matcher was not (successfully) run on it, and the callback then carries on: a later occurrence of the same key is skipped although it was never evaluated — with Any a matching relative is missed, with All a non-matching one is not seen"+extra+": "+strings.Join(via2, "; "))
			}
		}
	}
	r.Note("P-memo: %d other branches depend on a map look-up without being a membership test, %d membership tests (on value maps, or on sets not keyed by a blob ref) bypass no matcher call (value caches / look-ups / connection sets; not skip-memos)", nOther, nValue)
	r.Floor("P-memo", 3)
}

// ---------------------------------------------------------------------------

func runC08(p *Program, r *Reporter) {
	pick := p.Func(c08Pkg, "SearchQuery", "pickCandidateSource")
	// anchors by name (exit 2 when renamed): the four predicates the source table refers to
	named := []*ssa.Function{
		p.Func(c08Pkg, "Constraint", "matchesPermanodeTypes"),
		p.Func(c08Pkg, "Constraint", "matchesAtMostOneBlob"),
		p.Func(c08Pkg, "Constraint", "onlyMatchesPermanode"),
		p.Func(c08Pkg, "Constraint", "matchesFileByWholeRef"),
	}
	// by role: every *Constraint method the planner calls is a planner predicate
	predSet := map[*ssa.Function]bool{}
	var preds []*ssa.Function
	for _, c := range CallsIn(pick, true) {
		f := c.Common().StaticCallee()
		if f == nil || f.Signature.Recv() == nil || !InModule(f) {
			continue
		}
		if c08IsType(NamedOf(f.Signature.Recv().Type()), c08Pkg, "Constraint") && !predSet[f] {
			predSet[f] = true
			preds = append(preds, f)
		}
	}
	for _, f := range named {
		if !predSet[f] {
			r.Note("planner predicate %s is no longer called from pickCandidateSource; still checked", FuncKey(f))
			predSet[f] = true
			preds = append(preds, f)
		}
	}
	sort.Slice(preds, func(i, j int) bool { return FuncKey(preds[i]) < FuncKey(preds[j]) })
	r.Analysed("functions", len(preds)+2)

	// SortType constants (exported ones; maxSortType is the validity bound)
	sorts := map[int64]string{}
	sc := p.Pkg(c08Pkg).Types.Scope()
	st := p.NamedType(c08Pkg, "SortType")
	for _, n := range sc.Names() {
		c, ok := sc.Lookup(n).(*types.Const)
		if !ok || !c.Exported() || !types.Identical(c.Type(), st) {
			continue
		}
		if v, ok := constant.Int64Val(c.Val()); ok {
			sorts[v] = n
		}
	}
	if len(sorts) < 8 {
		brokenf("anchor unresolved: expected >= 8 exported SortType constants in pkg/search, found %d", len(sorts))
	}

	c08RulePredicates(p, r, preds)
	c08RulePlanner(p, r, pick, predSet, sorts)
	c08RuleNoDup(p, r)
	c08RuleMemo(p, r)
	execs := c08FindExec(p, r, pick)
	if len(execs) == 0 {
		r.Undecided("P-limit", FuncKey(pick)+"#executor", p.Pos(pick.Pos()), "no analysable caller of pickCandidateSource found")
	}
	for _, e := range execs {
		c08RuleExecutor(p, r, e, sorts)
	}
	c08RuleFresh(p, r)
}

// c08RuleFresh is C06's K-inval reported under C08 as P-fresh (like E-close/G-enum):
// the sources pickCandidateSource flags as sorted enumerate the corpus'
// generation-stamped sorted-permanode caches, so "the results are in the requested
// order, and with a limit the first N" needs those caches to be invalidated by every
// live write of what their order is computed from, and served only when fresh.
func c08RuleFresh(p *Program, r *Reporter) {
	sub := NewReporter("C06", p)
	cx := c06Setup(p, sub)
	c06RuleInval(cx)
	n := 0
	for _, o := range sub.Obls {
		if o.Rule != "K-inval" {
			continue
		}
		n++
		r.add("P-fresh", o.Construct, o.Site, o.Status, o.Nontrivial, o.Detail)
	}
	r.Floor("P-fresh", sub.floors["K-inval"])
}
