package main

import (
	"fmt"
	"go/constant"
	"go/token"
	"go/types"
	"os"
	"sort"
	"strings"
	"time"

	"golang.org/x/tools/go/ssa"
)

// C08 — a search returns exactly the matches, whatever candidate source the
// planner picks (pkg/search/query.go).
//
// All rules work on enumerated acyclic CFG paths of small functions (the planner
// predicates and pickCandidateSource) with phi resolution per path, or on
// dominating facts / assumption-pruned reachability in the executor (Query).
// "Function" always means its EFFECTIVE BODY: the function plus the unexported
// same-package helpers and the literals it calls statically (c08XPath for the
// path-based rules, c08Frame / c08Walk for the fact- and reachability-based
// ones), so that extracting a helper, splitting a function, turning a closure
// into a method or re-shaping control flow leaves the verdicts unchanged.

func init() {
	register(&PropSpec{
		ID:    "C08",
		Title: "A search returns exactly the matching blobs, however it is planned",
		Explanation: "Decided (structural necessary conditions, pkg/search/query.go). Every rule reads the EFFECTIVE BODY of the function it is about: the function plus, transitively (depth 5), the unexported same-package functions/methods and the function literals it calls statically; a parameter of such a helper stands for the caller's argument, a result of a followed call for what the helper returns (on the path taken), a field of a state struct that is stored exactly once in the module for the stored value (closure turned into a method). The planner and its predicates are read off composite acyclic paths (one path through the function and one through every helper entered on it; a helper entered a second time on one path, one with a loop, or another planner predicate stays an opaque call); the executor by dominating facts that include the facts at the calls leading to a helper, and by a path exploration that enters helpers at their calls and comes back through their returns, remembering which return was taken (so `err != nil` after a helper is decided when it returned nil or a never-nil error expression). Planner predicates are found by role (the recursive *Constraint methods the planner's effective body calls, plus the four named in the property), the executor by role (the caller of the planner), the planner's result type and its fields by role (the one string = name, the one bool = sorted flag, the one function = send). " +
			"P-restrict — for every planner predicate (the *Constraint methods called from pickCandidateSource), on every acyclic CFG path to a return: a result that may restrict the candidates (true / possibly-valid ref / possibly non-empty slice) and that is obtained from a recursive call on an operand of c.Logical (by data flow, or for booleans by a positive branch on the recursive result) is returned only where the path establishes Op==\"and\", or Op==\"or\" together with restricting results from BOTH operands (and, for set/ref-valued predicates, a value built from both); under any other or no Op fact it is a violation; recursion on anything but c.Logical.A/B is undecided. " +
			"P-leaf — for every restricting leaf path of a planner predicate (a path whose possibly restricting result is justified by the constraint's own fields, not by recursion): the fields the result relies on are reconstructed per constraint struct instance reached from the receiver (c, c.Permanode, c.File, c.Permanode.ValueMatches, ...): a field counts as tested when a branch on the path reads it AND taking the other edge leads to a different return statement or value (control dependence), or when the returned value is computed from it; small helpers that receive a constraint struct (e.g. a method on *StringConstraint) are followed path by path; what the path knows about each tested field (unset / set / == constant / bool method result) is kept. For each such struct the matcher is located from the code ((*Constraint).matcher() returns field matcherFn, whose only assignment is genMatcher's result; a sub-struct's matcher is the one method bound to / called on that field's value inside the parent's matcher family) and every OTHER field F of the struct that the matcher family reads (the matcher, the functions it hands the same struct to, its literals; blocks dead under the path's facts pruned) must be NARROWING: every branch whose outcome depends on F being set (a comparison of F with its zero value, a bool field, IsZero()/Valid() of it, a pure boolean helper such as hasValueConstraint whose result reacts monotonically to F — decided by exhaustive evaluation —, also through `x := a || b; if x` forwarding blocks and through a table of plain field getters resolved from the stores into the table's struct type) has a set side that, compared with the unset side, can only leave through panic / `return false` / a non-nil error (matcher builders: only performs ADDER calls — a call of a literal, of a declared function or method that may receive the accumulator's address, or of a bound method value, whose callee returns nothing and on every path stores each function-typed argument or hands it to another such callee, followed 4 levels deep — or grows the slice of conditions in place: the set side's slice is append(<the unset side's slice>, ...) or the result of a function all of whose returns are its slice parameter with something appended) and otherwise rejoins the unset side's code at one block with the same state (no phi at the join selects a different value for the two sides unless all its uses are again guarded by F's set-test or are dead because the fields whose tests the unset side passed are unset; no assignment to locals read later), or the unset side unconditionally reports a match; every other use of F's value lies inside a region dominated by the set-edge of such a test. A field whose set side returns a verdict of its own, changes a value the shared code uses afterwards (CaseInsensitive selecting the comparison table in stringMatches), or whose unset side performs a rejecting test the set side skips is MODAL: ignoring it in the predicate is a violation. A field used as a parameter outside its own guard, a constraint pointer that escapes, or a shape not covered is undecided. One recorded exception, re-checked structurally: matchesPermanodeTypes ignores PermanodeConstraint.At (only handed on as the time.Time argument of look-ups) because Corpus.permanodesSetByNodeType is add-only (no delete, fresh maps only, entries only set to true). A bound method value of the constraint itself (`c.f` handed on as a condition) makes f a member of the matcher family like a call of f would. The builder's combination of added conditions is checked as far as: the slice-of-matchers method whose bound value the builder's effective body (the builder, its literals, 3 levels of same-package callees, e.g. a result() method of the accumulator) returns for several conditions — today allMustMatch.blobMatches — leaves its loop early only with false/an error. " +
			"P-nil-operand — a recursive call on operand B happens only under an Op fact for which checkValid guarantees B (and/or/xor), unless the predicate tolerates a nil receiver (every receiver dereference is under c!=nil). " +
			"P-sorted — on every composite path of pickCandidateSource the returned source (reconstructed field by field from the field stores, whole-struct assignments, composite literals and constructor-helper results on the path) has a constant 'sorted'; sorted==true only with the enumerator that yields the requested order (EnumeratePermanodesLastModified under q.Sort==LastModifiedDesc, EnumeratePermanodesCreated(fn,true) under q.Sort==CreatedDesc; the bool may be a guard the path branched on). The enumerator is the call, in the send function's effective body, that receives send's callback. " +
			"P-source-superset — every source is built from a classified enumerator and a restricted enumerator is entered only on paths where the predicate that justifies it returned a restricting result for q.Constraint (permanode enumerations under onlyMatchesPermanode; by-node-type with the very slice returned by matchesPermanodeTypes known non-empty; single blob with the very ref returned by matchesAtMostOneBlob known valid; camli blobs of type file under matchesFileByWholeRef; camli blobs of c.CamliType under AnyCamliType||CamliType!=\"\"); the executor compiles the matcher from the same constraint the planner looked at. " +
			"P-match — in the enumeration callback (a literal, a declared function or a bound method handed to <planner result>.send; its effective body) a result is appended only where the one call of the compiled matcher returned (true, nil). " +
			"P-limit — in the callback every action that can lose results (stopping the enumeration, shrinking res.Blobs) is on the matcher-error path or under the fact cands.sorted. " +
			"P-postsort — with an unsorted source, for every SortType constant that requests an order, every path from the enumeration (wherever in the executor's effective body the send call sits) to a return of a non-nil result passes a sort call, in the executor or in a helper it calls (or the query is refused with an error; an executor without a *SearchResult result must return a never-nil error). " +
			"P-truncate — with an unsorted source, 0 < Limit < len(res.Blobs) and any sort but MapSort, every such path truncates res.Blobs by a bounded slice. " +
			"P-nodup — every corpus enumerator a source is built from hands each blob to the callback at most once as far as its loop structure shows: the callback is invoked (directly or through one same-package helper) inside at most one loop, i.e. one pass over one collection; an invocation nested in two or more loops (several collections, or caller-supplied keys) must be guarded by a look-up in a map made in the enumerator's effective body (a 'seen' set; the guard may sit in the helper that invokes the callback, with the set handed in, or at a call leading to it), or be a recorded exception (one symbol, one reason). " +
			"P-memo — every branch in pkg/search on a map membership test m[k] whose 'found' edge bypasses a matcher call (a call returning bool or (bool, error) that takes k as a blob.Ref and has the matchFn signature, or is a pkg/search function working on a *search such as RelationConstraint.match, or is a helper / local literal that itself makes such a call on the parameter k arrives in) on that same k is a skip guard; today: permanodesChecked in the claim callback of (*RelationConstraint).match. For a memo map local to one invocation, every value that can become a key (the key of each map update, followed through all stores of the variables that feed it, e.g. lastChecked; zero-value resets excluded) must be remembered only where its evaluation completed: the assignment is dominated by the success edge (error result known nil) of a matcher call on that same value, or every path from the assignment to an exit of the callback passes such an edge, except exits that return false from a callback whose enumerators (resolved through phi / bound-method thunks, here Corpus.ForeachClaim and ForeachClaimBack) provably never call it again after false (also when they hand the callback on, outside any loop, to one static helper that has this property), with the memo consulted nowhere else. A remembered value that no matcher call evaluates, a memo whose map or feeder variables escape, and a guard on a map shared beyond one invocation (could be a traversal visited-set, where marking first is correct) are undecided. Set membership tests keyed by blob refs that bypass no matcher call (dr.started: started-set of the describe traversal; resFromRule: membership filter) are listed as classified, not judged. " +
			"NOT decided: the meaning of each leaf constraint and the base case of each leaf (e.g. that a PermanodeConstraint{Attr:camliNodeType, Value:T} with every other field unset only matches permanodes in the by-type set of T; that a predicate which does test a modal field draws the right conclusion from it); that a caller combines a sub-matcher's verdicts monotonically (the nmatch count in permanodeMatchesAttrVals) and that the builder's adder retains every added condition beyond storing it on every path (e.g. that the first condition is moved into the slice when the second arrives) and that the final switch picks neverMatch / the single condition / the conjunction correctly; matcher semantics per constraint kind, that the enumerators really enumerate a superset in the claimed order, that a single collection holds each blob once, that a memoised verdict is still valid for the later occurrence of the key (the memo key captures everything the verdict depends on), memos kept in anything but a map local to one invocation (slices, sorted lists; a map held in a struct field or received as a parameter — e.g. the relation matcher's claim callback turned into a method — is reported undecided), a planner send function that is a bound method of a struct holding what a literal would capture (`src.send = typesSender{corpus, typs}.send`: the enumerator behind the bound-method wrapper is reported as unclassified — a false alarm on a legal closure-to-method refactoring of pickCandidateSource that is still open), the sort comparators and which slice is sorted, the Around window arithmetic, MapSort selection, any concrete world or query.",
		RuleDocs: map[string]string{
			"P-restrict":        "per planner predicate × Op label: contradiction rule over all acyclic paths — a may-restrict result derived from a recursive call needs Op==and, or Op==or with both operands restricting",
			"P-leaf":            "per planner predicate × constraint struct its restricting leaf paths rely on × field of that struct the predicate does not test and the struct's matcher reads: the field is narrowing in the matcher (set side only rejects or rejoins with unchanged state; other uses guarded by its own set-test); modal ⇒ violation, unclassifiable ⇒ undecided; plus one row per struct (tested / unread fields), the all-must-match loop, and the add-only re-check of the At exception",
			"P-nil-operand":     "per planner predicate: recursion on Logical.B only under Op in {and,or,xor} unless the predicate is nil-receiver tolerant",
			"P-sorted":          "per candidate source (by src.name) of pickCandidateSource: sorted is constant per path; true only with the enumerator/sort pair that yields that order",
			"P-source-superset": "per candidate source: restricted enumerator entered only under the restricting result of its justifying predicate on q.Constraint; matcher compiled from the same constraint",
			"P-match":           "per append to res.Blobs in the enumeration callback's effective body: dominated (facts of the helper and of the calls leading to it) by matcher()==(true,nil)",
			"P-limit":           "per result-losing action in the enumeration callback's effective body (a return that may be false, also through a helper's result; shrinking res.Blobs): on the matcher-error path or under fact <planner result>.sorted",
			"P-postsort":        "per SortType constant: unsorted source ⇒ sort call (or error) on every interprocedural path from the enumeration to a non-nil result",
			"P-nodup":           "per corpus enumerator in the source table × callback invocation: loop depth <= 1, or guarded by a local seen-set look-up, or recorded exception",
			"P-memo":            "per skip guard (map membership test that bypasses a matcher call on its key) in pkg/search × per assignment that can put a key into that memo: the assignment is dominated by the success edge of a matcher call on the same value, or every continuing path from it passes one (exits that provably end the enumeration excepted); other blob-ref sets are classified only",
			"P-fresh":           "C06's K-inval reported for C08: the generation-stamped sorted-permanode caches behind the sources flagged sorted are invalidated by every live write of a location their order is computed from (generation increment on every such path through Corpus.addBlob), served only on the stamp==generation edge, and the generation only grows",
			"P-truncate":        "per SortType constant except MapSort: unsorted source and 0<Limit<len ⇒ bounded re-slice of res.Blobs (in the executor or a helper it calls) on every interprocedural path to a non-nil result",
		},
		Run:       runC08,
		DesignRef: "DESIGN.md §4 C08",
		Technique: "static analysis over effective bodies (caller plus statically called same-package helpers and literals, parameters/results/single-store state fields resolved across the call): exhaustive composite acyclic-path enumeration over go/ssa with per-path phi resolution and branch facts (contradiction rule on the planner predicates, constant propagation and table agreement on the planner), for the leaf cases a relational (two-run) region argument on the matchers' CFGs: control dependence of the restricting return on field tests, set/unset divergence regions with harmless-exit, single-rejoin and state-equality checks, adder summaries (every-path store of the function argument across literals / methods / bound method values) and grows-from relation on the builder's slice of conditions, dominance-guarded uses, exhaustive evaluation of pure boolean helpers, field-based resolution of getter tables, cross-call dominance facts and assumption-pruned interprocedural path exploration (helpers entered at their calls, left through their returns) in the executor; for skip-memos: key provenance through variable stores, success-edge dominance / must-pass-through of the matcher call, callback stop-protocol checked in the resolved enumerators",
		LevelText: "Decides structural necessary conditions only: the planner predicates combine recursive results soundly for and/or/not/xor; a leaf case of a predicate ignores a field of the constraint only if that field can merely narrow what the matcher accepts (so the leaf is as sound for every constraint as it is for the one with all ignored fields unset); a source is flagged sorted only when its enumerator yields the requested order; every restricted source is guarded by the predicate that justifies it, on the same constraint the matcher is compiled from; results are appended only on a match; results are dropped early only for sorted sources; unsorted sources are post-sorted and truncated; the relation matcher's 'already checked' memo remembers a relative only after the matcher really ran on it; the cached orders the sorted sources enumerate are invalidated by every live write of their inputs. Does not decide matcher semantics, the base case of each leaf (all ignored fields unset), enumerator contents/order, comparators, or any concrete query.",
	})
}

const c08Pkg = "pkg/search"

// ---------------------------------------------------------------------------
// generic path machinery (prefixed helpers; candidates for helpers.go)

type c08Path []*ssa.BasicBlock

// c08Paths enumerates the acyclic entry-to-exit paths of fn. why != "" when fn
// has a cycle reachable from entry or more than max paths.
func c08Paths(fn *ssa.Function, max int) (paths []c08Path, why string) {
	if len(fn.Blocks) == 0 {
		return nil, "no body"
	}
	on := map[*ssa.BasicBlock]bool{}
	var cur c08Path
	var walk func(b *ssa.BasicBlock)
	walk = func(b *ssa.BasicBlock) {
		if why != "" {
			return
		}
		if on[b] {
			why = "the function contains a loop (block " + fmt.Sprint(b.Index) + ")"
			return
		}
		on[b] = true
		cur = append(cur, b)
		if len(b.Succs) == 0 {
			paths = append(paths, append(c08Path(nil), cur...))
			if len(paths) > max {
				why = fmt.Sprintf("more than %d paths", max)
			}
		}
		for _, s := range b.Succs {
			walk(s)
		}
		cur = cur[:len(cur)-1]
		on[b] = false
	}
	walk(fn.Blocks[0])
	return
}

func (pth c08Path) index(b *ssa.BasicBlock) int {
	for i, x := range pth {
		if x == b {
			return i
		}
	}
	return -1
}

// norm resolves v to its origin on this path: originValue plus selection of
// the phi edge the path comes in through.
func (pth c08Path) norm(v ssa.Value) ssa.Value {
	for i := 0; i < 24 && v != nil; i++ {
		o := originValue(v)
		ph, ok := o.(*ssa.Phi)
		if !ok {
			return o
		}
		idx := pth.index(ph.Block())
		if idx <= 0 {
			return o
		}
		pred := pth[idx-1]
		var e ssa.Value
		for j, p := range ph.Block().Preds {
			if p == pred {
				e = ph.Edges[j]
				break
			}
		}
		if e == nil {
			return o
		}
		v = e
	}
	return v
}

type c08Branch struct {
	Cond ssa.Value // normalised, leading NOTs folded into Val
	Val  bool
	At   int // index in the path of the block whose If this is
}

func (pth c08Path) branches() []c08Branch {
	var out []c08Branch
	for i := 0; i+1 < len(pth); i++ {
		b := pth[i]
		if len(b.Instrs) == 0 || len(b.Succs) != 2 || b.Succs[0] == b.Succs[1] {
			continue
		}
		ifi, ok := b.Instrs[len(b.Instrs)-1].(*ssa.If)
		if !ok {
			continue
		}
		val := b.Succs[0] == pth[i+1]
		cond := pth.norm(ifi.Cond)
		for {
			u, ok := cond.(*ssa.UnOp)
			if !ok || u.Op != token.NOT {
				break
			}
			cond, val = pth.norm(u.X), !val
		}
		out = append(out, c08Branch{cond, val, i})
	}
	return out
}

func (pth c08Path) String() string {
	var s []string
	for _, b := range pth {
		s = append(s, fmt.Sprint(b.Index))
	}
	return strings.Join(s, ">")
}

// c08FieldLoad decomposes a load of a struct field through a pointer:
// v == *(&X.field). It returns X, the named struct type and the field name.
func c08FieldLoad(v ssa.Value) (base ssa.Value, named *types.Named, field string, ok bool) {
	u, isU := v.(*ssa.UnOp)
	if !isU || u.Op != token.MUL {
		return
	}
	fa, isFA := u.X.(*ssa.FieldAddr)
	if !isFA {
		return
	}
	return c08FieldAddr(fa)
}

func c08FieldAddr(fa *ssa.FieldAddr) (base ssa.Value, named *types.Named, field string, ok bool) {
	pt, isP := fa.X.Type().Underlying().(*types.Pointer)
	if !isP {
		return
	}
	st, isS := pt.Elem().Underlying().(*types.Struct)
	if !isS || fa.Field >= st.NumFields() {
		return
	}
	named, _ = pt.Elem().(*types.Named)
	if named == nil {
		return
	}
	return fa.X, named, st.Field(fa.Field).Name(), true
}

func c08IsType(n *types.Named, rel, name string) bool {
	return n != nil && n.Obj().Name() == name && n.Obj().Pkg() != nil && n.Obj().Pkg().Path() == modPrefix+rel
}

func c08ConstBool(v ssa.Value) (val, ok bool) {
	c, isC := v.(*ssa.Const)
	if !isC || c.Value == nil || c.Value.Kind() != constant.Bool {
		return false, false
	}
	return constant.BoolVal(c.Value), true
}

func c08Cmp(op token.Token, l, r int64) (res, ok bool) {
	switch op {
	case token.EQL:
		return l == r, true
	case token.NEQ:
		return l != r, true
	case token.LSS:
		return l < r, true
	case token.LEQ:
		return l <= r, true
	case token.GTR:
		return l > r, true
	case token.GEQ:
		return l >= r, true
	}
	return false, false
}

// ---------------------------------------------------------------------------
// composite paths: the acyclic paths of a function's EFFECTIVE BODY
//
// A c08XPath is one acyclic path through a root function together with, for
// every call on it that enters a helper of the effective body (see
// c08HelperOf), one acyclic path through that helper, recursively. Each helper
// function occurs at most once per composite path (a helper that is called a
// second time is left opaque, as any call was before), so every value belongs
// to exactly one node and can be resolved: a phi by the edge its node's path
// takes, a parameter of a helper by the argument of the entering call, the
// result of a followed call by what the helper returns on its path. The rules
// on the planner and its predicates read branches, calls and stores off these
// paths, so moving a block into a helper, splitting a function or re-shaping
// its control flow gives them the same facts.

type c08XNode struct {
	fn   *ssa.Function
	main c08Path
	idx  int // index of main among c08Paths(fn)
	sub  map[*ssa.Call]*c08XNode
	uses map[*ssa.Function]bool // fn and every function followed below
}

type c08XPath struct {
	root  *c08XNode
	byFn  map[*ssa.Function]*c08XNode
	entry map[*ssa.Function]*ssa.Call
}

type c08Normer interface {
	norm(v ssa.Value) ssa.Value
}

func c08PlainXPath(fn *ssa.Function, pth c08Path, idx int) *c08XPath {
	n := &c08XNode{fn: fn, main: pth, idx: idx, uses: map[*ssa.Function]bool{fn: true}}
	return &c08XPath{root: n, byFn: map[*ssa.Function]*c08XNode{fn: n}, entry: map[*ssa.Function]*ssa.Call{}}
}

type c08Expander struct {
	follow func(c CallSite) *ssa.Function
	max    int
	plain  map[*ssa.Function][]c08Path
	why    map[*ssa.Function]string
}

func (ex *c08Expander) paths(fn *ssa.Function) ([]c08Path, string) {
	if ps, ok := ex.plain[fn]; ok {
		return ps, ex.why[fn]
	}
	ps, why := c08Paths(fn, ex.max)
	ex.plain[fn], ex.why[fn] = ps, why
	return ps, why
}

func (ex *c08Expander) expand(fn *ssa.Function, active map[*ssa.Function]bool, depth int) ([]*c08XNode, string) {
	paths, why := ex.paths(fn)
	if why != "" {
		return nil, why
	}
	var out []*c08XNode
	for idx, pth := range paths {
		cur := []*c08XNode{{fn: fn, main: pth, idx: idx, uses: map[*ssa.Function]bool{fn: true}}}
		for _, b := range pth {
			for _, in := range b.Instrs {
				call, ok := in.(*ssa.Call)
				if !ok || depth >= c08MaxDepth {
					continue
				}
				callee := ex.follow(CallSite{fn, call})
				if callee == nil || callee == fn || active[callee] {
					continue
				}
				active[fn] = true
				subs, swhy := ex.expand(callee, active, depth+1)
				delete(active, fn)
				if swhy != "" || len(subs) == 0 {
					continue // not enumerable (loop, too many paths): the call stays opaque
				}
				var next []*c08XNode
				for _, c := range cur {
					clash := false
					for f := range subs[0].uses {
						if c.uses[f] {
							clash = true
						}
					}
					if clash {
						next = append(next, c) // second occurrence of a helper on this path: opaque
						continue
					}
					for _, s := range subs {
						sclash := false
						for f := range s.uses {
							if c.uses[f] {
								sclash = true
							}
						}
						if sclash {
							continue
						}
						n := &c08XNode{fn: c.fn, main: c.main, idx: c.idx, sub: map[*ssa.Call]*c08XNode{}, uses: map[*ssa.Function]bool{}}
						for k, v := range c.sub {
							n.sub[k] = v
						}
						for f := range c.uses {
							n.uses[f] = true
						}
						n.sub[call] = s
						for f := range s.uses {
							n.uses[f] = true
						}
						next = append(next, n)
					}
				}
				cur = next
				if len(cur)+len(out) > ex.max {
					return nil, fmt.Sprintf("more than %d composite paths", ex.max)
				}
			}
		}
		out = append(out, cur...)
	}
	return out, ""
}

// c08XPaths enumerates the composite paths of fn. follow decides which calls
// enter the effective body.
func c08XPaths(fn *ssa.Function, follow func(c CallSite) *ssa.Function, max int) ([]*c08XPath, []c08Path, string) {
	ex := &c08Expander{follow: follow, max: max, plain: map[*ssa.Function][]c08Path{}, why: map[*ssa.Function]string{}}
	nodes, why := ex.expand(fn, map[*ssa.Function]bool{}, 0)
	if why != "" {
		return nil, nil, why
	}
	var out []*c08XPath
	for _, n := range nodes {
		x := &c08XPath{root: n, byFn: map[*ssa.Function]*c08XNode{}, entry: map[*ssa.Function]*ssa.Call{}}
		var reg func(n *c08XNode)
		reg = func(n *c08XNode) {
			x.byFn[n.fn] = n
			for c, s := range n.sub {
				x.entry[s.fn] = c
				reg(s)
			}
		}
		reg(n)
		out = append(out, x)
	}
	plain, _ := ex.paths(fn)
	return out, plain, ""
}

func c08RetOf(pth c08Path) *ssa.Return {
	last := pth[len(pth)-1]
	ret, _ := last.Instrs[len(last.Instrs)-1].(*ssa.Return)
	return ret
}

// ret: the return instruction the root path ends in (nil: panic exit).
func (x *c08XPath) ret() *ssa.Return { return c08RetOf(x.root.main) }

// norm resolves v to its origin on this composite path.
func (x *c08XPath) norm(v ssa.Value) ssa.Value {
	for i := 0; i < 64 && v != nil; i++ {
		o := originValue(v)
		switch t := o.(type) {
		case *ssa.Phi:
			n := x.byFn[t.Parent()]
			if n == nil {
				return o
			}
			idx := n.main.index(t.Block())
			if idx <= 0 {
				return o
			}
			e := c08PredEdge(t, n.main[idx-1])
			if e == nil {
				return o
			}
			v = e
			continue
		case *ssa.Parameter:
			call := x.entry[t.Parent()]
			if call == nil {
				return o
			}
			k := -1
			for j, prm := range t.Parent().Params {
				if prm == t {
					k = j
				}
			}
			if k < 0 || k >= len(call.Call.Args) {
				return o
			}
			v = call.Call.Args[k]
			continue
		case *ssa.Call:
			if rv := x.result(t, 0); rv != nil && t.Call.Signature().Results().Len() == 1 {
				v = rv
				continue
			}
		case *ssa.Extract:
			if c, ok := t.Tuple.(*ssa.Call); ok {
				if rv := x.result(c, t.Index); rv != nil {
					v = rv
					continue
				}
			}
		}
		return o
	}
	return v
}

// followed: the node of the helper path a call enters on this composite path.
func (x *c08XPath) followed(c *ssa.Call) *c08XNode {
	if c == nil || c.Parent() == nil {
		return nil
	}
	n := x.byFn[c.Parent()]
	if n == nil {
		return nil
	}
	return n.sub[c]
}

func (x *c08XPath) result(c *ssa.Call, idx int) ssa.Value {
	s := x.followed(c)
	if s == nil {
		return nil
	}
	ret := c08RetOf(s.main)
	if ret == nil || idx >= len(ret.Results) {
		return nil
	}
	return resolveReturnValue(ret.Results[idx], ret)
}

// c08Event: one step of a composite path in execution order: an instruction
// that is not a followed call, or a branch taken.
type c08Event struct {
	in ssa.Instruction
	br *c08Branch
}

func (x *c08XPath) events() []c08Event {
	var out []c08Event
	var walk func(n *c08XNode)
	walk = func(n *c08XNode) {
		for i, b := range n.main {
			for _, in := range b.Instrs {
				if c, ok := in.(*ssa.Call); ok && n.sub[c] != nil {
					walk(n.sub[c])
					continue
				}
				out = append(out, c08Event{in: in})
			}
			if i+1 >= len(n.main) || len(b.Instrs) == 0 || len(b.Succs) != 2 || b.Succs[0] == b.Succs[1] {
				continue
			}
			ifi, ok := b.Instrs[len(b.Instrs)-1].(*ssa.If)
			if !ok {
				continue
			}
			val := b.Succs[0] == n.main[i+1]
			cond := x.norm(ifi.Cond)
			for {
				u, ok := cond.(*ssa.UnOp)
				if !ok || u.Op != token.NOT {
					break
				}
				cond, val = x.norm(u.X), !val
			}
			out = append(out, c08Event{br: &c08Branch{c08FoldCond(x, cond), val, i}})
		}
	}
	walk(x.root)
	return out
}

// c08FoldCond: a comparison of two constants (a helper returned "" on its path
// and the caller tests the result against "") becomes the boolean constant, so
// that infeasible combinations of caller and helper paths are recognised.
func c08FoldCond(n c08Normer, cond ssa.Value) ssa.Value {
	bo, ok := cond.(*ssa.BinOp)
	if !ok || (bo.Op != token.EQL && bo.Op != token.NEQ) {
		return cond
	}
	a, ok1 := n.norm(bo.X).(*ssa.Const)
	b, ok2 := n.norm(bo.Y).(*ssa.Const)
	if !ok1 || !ok2 {
		return cond
	}
	eq, ok := c08ConstEq(a, b)
	if !ok {
		return cond
	}
	return ssa.NewConst(constant.MakeBool(eq == (bo.Op == token.EQL)), types.Typ[types.Bool])
}

func (x *c08XPath) branches() []c08Branch {
	var out []c08Branch
	for _, ev := range x.events() {
		if ev.br != nil {
			out = append(out, *ev.br)
		}
	}
	return out
}

func (x *c08XPath) String() string {
	var render func(n *c08XNode) string
	render = func(n *c08XNode) string {
		s := n.main.String()
		var subs []string
		for _, b := range n.main {
			for _, in := range b.Instrs {
				if c, ok := in.(*ssa.Call); ok && n.sub[c] != nil {
					subs = append(subs, n.sub[c].fn.Name()+"("+render(n.sub[c])+")")
				}
			}
		}
		if len(subs) > 0 {
			s += " [" + strings.Join(subs, " ") + "]"
		}
		return s
	}
	return render(x.root)
}

// ---------------------------------------------------------------------------
// restricting results of planner predicates

const (
	c08Bool = iota + 1
	c08Slice
	c08Ref
)

func c08ResultKind(fn *ssa.Function) int {
	res := fn.Signature.Results()
	if res.Len() != 1 {
		return 0
	}
	t := res.At(0).Type()
	if b, ok := t.Underlying().(*types.Basic); ok && b.Kind() == types.Bool {
		return c08Bool
	}
	if _, ok := t.Underlying().(*types.Slice); ok {
		return c08Slice
	}
	if IsNamed(t, modPrefix+"pkg/blob", "Ref") {
		if _, isPtr := t.(*types.Pointer); !isPtr {
			return c08Ref
		}
	}
	return 0
}

// c08LenFact: what does (len OP k)==val (or (k OP len)==val) say about len==0?
// +1: len is certainly non-zero, -1: certainly zero, 0: nothing.
func c08LenFact(op token.Token, k int64, lenOnLeft, val bool) int {
	sat := func(n int64) bool {
		l, r := n, k
		if !lenOnLeft {
			l, r = k, n
		}
		res, ok := c08Cmp(op, l, r)
		return ok && res == val
	}
	if _, ok := c08Cmp(op, 0, 0); !ok {
		return 0
	}
	hi := k
	if hi < 0 {
		hi = 0
	}
	pos := false
	for n := int64(1); n <= hi+2; n++ {
		if sat(n) {
			pos = true
		}
	}
	zero := sat(0)
	switch {
	case !zero && pos:
		return 1
	case zero && !pos:
		return -1
	}
	return 0
}

// c08RestrictFact interprets a branch as a statement about the result of a
// predicate call: +1 the result is restricting (true / valid / non-empty),
// -1 it is not. classify tells which calls are predicate calls and their kind.
func c08RestrictFact(pth c08Normer, br c08Branch, classify func(*ssa.Call) int) (*ssa.Call, int) {
	sign := func(b bool) int {
		if b {
			return 1
		}
		return -1
	}
	asPred := func(v ssa.Value, kind int) *ssa.Call {
		c, ok := pth.norm(v).(*ssa.Call)
		if ok && classify(c) == kind {
			return c
		}
		return nil
	}
	switch c := br.Cond.(type) {
	case *ssa.Call:
		if classify(c) == c08Bool {
			return c, sign(br.Val)
		}
		if (CallSite{c.Parent(), c}).IsStatic(modPrefix+"pkg/blob", "Ref", "Valid") && len(c.Call.Args) == 1 {
			if pc := asPred(c.Call.Args[0], c08Ref); pc != nil {
				return pc, sign(br.Val)
			}
		}
	case *ssa.BinOp:
		for side := 0; side < 2; side++ {
			x, y := c.X, c.Y
			if side == 1 {
				x, y = y, x
			}
			// len(pred()) OP k
			if lc, ok := pth.norm(x).(*ssa.Call); ok {
				if b, isB := lc.Call.Value.(*ssa.Builtin); isB && b.Name() == "len" && len(lc.Call.Args) == 1 {
					if pc := asPred(lc.Call.Args[0], c08Slice); pc != nil {
						if k, ok := ConstInt(pth.norm(y)); ok {
							return pc, c08LenFact(c.Op, k, side == 0, br.Val)
						}
					}
				}
			}
			// pred() == nil
			if pc := asPred(x, c08Slice); pc != nil && IsNilConst(pth.norm(y)) {
				if (c.Op == token.EQL) == br.Val && (c.Op == token.EQL || c.Op == token.NEQ) {
					return pc, -1
				}
				return pc, 0
			}
		}
	}
	return nil, 0
}

// ---------------------------------------------------------------------------
// P-restrict, P-nil-operand

type c08PredAn struct {
	p     *Program
	w     *c08World
	fn    *ssa.Function
	kind  int
	preds map[*ssa.Function]bool
}

// follow: the calls of a predicate that enter its effective body (helpers,
// never another planner predicate or the predicate itself).
func (a *c08PredAn) follow(c CallSite) *ssa.Function {
	h := c08HelperOf(c)
	if h == nil || a.preds[h] || h == a.fn {
		return nil
	}
	return h
}

func (a *c08PredAn) recv() ssa.Value { return a.fn.Params[0] }

// isLogical: v == c.Logical for the receiver c.
func (a *c08PredAn) isLogical(pth *c08XPath, v ssa.Value) bool {
	base, n, f, ok := c08FieldLoad(pth.norm(v))
	return ok && f == "Logical" && c08IsType(n, c08Pkg, "Constraint") && pth.norm(base) == ssa.Value(a.recv())
}

func (a *c08PredAn) isOpLoad(pth *c08XPath, v ssa.Value) bool {
	base, n, f, ok := c08FieldLoad(pth.norm(v))
	return ok && f == "Op" && c08IsType(n, c08Pkg, "LogicalConstraint") && a.isLogical(pth, base)
}

// operand returns "A"/"B" when v == c.Logical.A / c.Logical.B.
func (a *c08PredAn) operand(pth *c08XPath, v ssa.Value) string {
	base, n, f, ok := c08FieldLoad(pth.norm(v))
	if ok && (f == "A" || f == "B") && c08IsType(n, c08Pkg, "LogicalConstraint") && a.isLogical(pth, base) {
		return f
	}
	return ""
}

func (a *c08PredAn) isRec(c *ssa.Call) bool {
	return c != nil && c.Call.StaticCallee() == a.fn
}

func (a *c08PredAn) classify(c *ssa.Call) int {
	if a.isRec(c) {
		return a.kind
	}
	return 0
}

type c08PredState struct {
	opIs     string
	opNot    map[string]bool
	opOpaque bool // a branch depends on Op in a way not understood
	rec      map[*ssa.Call]int
	dead     bool
}

func (st *c08PredState) clone() *c08PredState {
	n := &c08PredState{opIs: st.opIs, opOpaque: st.opOpaque, dead: st.dead, opNot: map[string]bool{}, rec: map[*ssa.Call]int{}}
	for k, v := range st.opNot {
		n.opNot[k] = v
	}
	for k, v := range st.rec {
		n.rec[k] = v
	}
	return n
}

func (st *c08PredState) label() string {
	switch {
	case st.opIs != "":
		return st.opIs
	case len(st.opNot) > 0:
		return "other"
	}
	return "unguarded"
}

// apply folds one branch into the state.
func (a *c08PredAn) apply(pth *c08XPath, st *c08PredState, br c08Branch) {
	if cv, ok := c08ConstBool(br.Cond); ok {
		if cv != br.Val {
			st.dead = true
		}
		return
	}
	if bo, ok := br.Cond.(*ssa.BinOp); ok && (bo.Op == token.EQL || bo.Op == token.NEQ) {
		for side := 0; side < 2; side++ {
			x, y := bo.X, bo.Y
			if side == 1 {
				x, y = y, x
			}
			if !a.isOpLoad(pth, x) {
				continue
			}
			k, isConst := ConstString(pth.norm(y))
			if !isConst {
				st.opOpaque = true
				return
			}
			if (bo.Op == token.EQL) == br.Val {
				if (st.opIs != "" && st.opIs != k) || st.opNot[k] {
					st.dead = true
				}
				st.opIs = k
			} else {
				if st.opIs == k {
					st.dead = true
				}
				st.opNot[k] = true
			}
			return
		}
	}
	if c, s := c08RestrictFact(pth, br, a.classify); c != nil {
		if s != 0 {
			if st.rec[c] == -s {
				st.dead = true
			}
			st.rec[c] = s
		}
		return
	}
	if DependsOn(br.Cond, func(v ssa.Value) bool { return a.isOpLoad(pth, v) }) {
		st.opOpaque = true
	}
}

// operandStatus folds the facts about all recursive calls on one operand.
func (a *c08PredAn) operandStatus(pth *c08XPath, st *c08PredState, operand string) int {
	res := 0
	for c, s := range st.rec {
		if len(c.Call.Args) > 0 && a.operand(pth, c.Call.Args[0]) == operand && s != 0 {
			res = s
		}
	}
	return res
}

type c08Deriv struct {
	restrict int             // +1 certainly restricting, -1 certainly not, 0 unknown
	from     map[string]bool // operands whose recursive result flows into the value (those not known non-restricting)
	bad      string
}

func (a *c08PredAn) derive(pth *c08XPath, st *c08PredState, v ssa.Value, depth int) c08Deriv {
	d := c08Deriv{from: map[string]bool{}}
	v = pth.norm(v)
	dependsOnRec := func(x ssa.Value) bool {
		return DependsOn(x, func(y ssa.Value) bool { c, ok := y.(*ssa.Call); return ok && a.isRec(c) })
	}
	switch x := v.(type) {
	case *ssa.Const:
		if bv, ok := c08ConstBool(x); ok {
			d.restrict = -1
			if bv {
				d.restrict = 1
			}
			return d
		}
		if x.Value == nil { // nil slice, zero Ref
			d.restrict = -1
		}
		return d
	case *ssa.Call:
		if a.isRec(x) {
			op := ""
			if len(x.Call.Args) > 0 {
				op = a.operand(pth, x.Call.Args[0])
			}
			if op == "" {
				d.bad = "recursive call on a receiver that is not c.Logical.A or c.Logical.B"
				return d
			}
			d.restrict = st.rec[x]
			if d.restrict == 0 {
				d.restrict = a.operandStatus(pth, st, op)
			}
			if d.restrict != -1 {
				d.from[op] = true
			}
			return d
		}
		if b, ok := x.Call.Value.(*ssa.Builtin); ok && b.Name() == "append" && depth < 8 {
			allNon, anyPos := true, false
			for _, arg := range x.Call.Args {
				ad := a.derive(pth, st, arg, depth+1)
				if ad.bad != "" {
					return ad
				}
				for k := range ad.from {
					d.from[k] = true
				}
				if ad.restrict != -1 {
					allNon = false
				}
				if ad.restrict == 1 {
					anyPos = true
				}
			}
			switch {
			case anyPos:
				d.restrict = 1
			case allNon:
				d.restrict = -1
			}
			return d
		}
	}
	if dependsOnRec(v) {
		d.bad = "the returned value depends on a recursive result through an operation the rule does not model (" + v.String() + ")"
	}
	return d // leaf value: restricting-ness justified by the constraint's own fields
}

type c08Verdict struct {
	label  string
	status Status
	detail string
	site   token.Pos
}

// nilTolerant: every dereference of the receiver is in a block where c != nil is known.
// (Dereferences in the helpers of the effective body count, under the facts of
// the helper and of the calls that lead to it.)
func (a *c08PredAn) nilTolerant() bool {
	recv := ssa.Value(a.recv())
	isRecv := func(ps *c08Pos, f *c08Frame, v ssa.Value) bool {
		o, _ := ps.resolve(f, v)
		return o == recv
	}
	for _, fr := range a.w.root(a.fn).tree() {
		ps := c08Static(fr)
		for _, b := range fr.fn.Blocks {
			for _, in := range b.Instrs {
				var x ssa.Value
				switch t := in.(type) {
				case *ssa.FieldAddr:
					x = t.X
				case *ssa.UnOp:
					if t.Op == token.MUL {
						x = t.X
					}
				}
				if x == nil || !isRecv(ps, fr, x) {
					continue
				}
				if k, isNil := c08NilFactX(fr, b, isRecv); !k || isNil {
					return false
				}
			}
		}
	}
	return true
}

func c08RulePredicates(p *Program, r *Reporter, w *c08World, preds []*ssa.Function) (leaves []c08LeafPath) {
	predSet := map[*ssa.Function]bool{}
	for _, f := range preds {
		predSet[f] = true
	}
	nInst, nNil := 0, 0
	for _, fn := range preds {
		key := FuncKey(fn)
		site := p.Pos(fn.Pos())
		a := &c08PredAn{p: p, w: w, fn: fn, kind: c08ResultKind(fn), preds: predSet}
		if a.kind == 0 {
			r.Undecided("P-restrict", key+"#result-type", site, "planner predicate with a result type the rule has no notion of 'restricting' for: "+fn.Signature.Results().String())
			continue
		}
		// calls to a different planner predicate are not modelled
		for _, c := range CallsIn(fn, true) {
			if f := c.Callee(); f != nil && f != fn && predSet[f] {
				r.Undecided("P-restrict", key+"#cross-predicate", p.Pos(c.Pos()), "calls planner predicate "+FuncKey(f)+"; cross-predicate recursion is not modelled")
			}
		}
		if len(fn.AnonFuncs) > 0 {
			r.Undecided("P-restrict", key+"#closures", site, "planner predicate contains function literals; not modelled")
			continue
		}
		xpaths, paths, why := c08XPaths(fn, a.follow, 4000)
		if why != "" {
			r.Undecided("P-restrict", key+"#paths", site, "cannot enumerate the paths of the predicate: "+why)
			continue
		}
		r.Analysed("predicate_paths", len(xpaths))
		tolerant := a.nilTolerant()
		type agg struct {
			ok, bad, und int
			details      []string
			site         token.Pos
		}
		byLabel := map[string]*agg{}
		get := func(l string) *agg {
			if byLabel[l] == nil {
				byLabel[l] = &agg{}
			}
			return byLabel[l]
		}
		leaf := 0
		nilAgg := map[string]*agg{}
		for _, pth := range xpaths {
			ret := pth.ret()
			isRet := ret != nil
			st := &c08PredState{opNot: map[string]bool{}, rec: map[*ssa.Call]int{}}
			for _, ev := range pth.events() {
				if ev.br != nil {
					a.apply(pth, st, *ev.br)
					continue
				}
				// P-nil-operand: a recursive call on B, with the facts established before it
				c, ok := ev.in.(*ssa.Call)
				if !ok || !a.isRec(c) || st.dead || len(c.Call.Args) == 0 {
					continue
				}
				if a.operand(pth, c.Call.Args[0]) != "B" {
					continue
				}
				g := nilAgg["B"]
				if g == nil {
					g = &agg{site: c.Pos()}
					nilAgg["B"] = g
				}
				switch {
				case tolerant:
					g.ok++
				case st.opIs == "and" || st.opIs == "or" || st.opIs == "xor":
					g.ok++
				default:
					g.bad++
					g.details = append(g.details, fmt.Sprintf("path %s: recursive call on c.Logical.B under Op label %q, but B is nil for Op==\"not\" and %s dereferences its receiver without a nil check", pth, st.label(), fn.Name()))
				}
			}
			if st.dead || !isRet || len(ret.Results) != 1 {
				continue
			}
			d := a.derive(pth, st, ret.Results[0], 0)
			if d.bad != "" {
				g := get(st.label())
				g.und++
				g.site = ret.Pos()
				g.details = append(g.details, fmt.Sprintf("path %s: %s", pth, d.bad))
				continue
			}
			if d.restrict == -1 {
				continue
			}
			pos := map[string]bool{}
			for _, o := range []string{"A", "B"} {
				if a.operandStatus(pth, st, o) == 1 {
					pos[o] = true
				}
			}
			just := map[string]bool{}
			for k := range d.from {
				just[k] = true
			}
			if a.kind == c08Bool {
				if cv, isC := c08ConstBool(pth.norm(ret.Results[0])); isC && cv {
					for k := range pos {
						just[k] = true
					}
				}
			}
			if len(just) == 0 {
				leaf++
				leaves = append(leaves, c08LeafPath{fn: fn, kind: a.kind, paths: paths, idx: pth.root.idx, ret: ret, xp: pth})
				continue
			}
			g := get(st.label())
			g.site = ret.Pos()
			var js []string
			for k := range just {
				js = append(js, k)
			}
			sort.Strings(js)
			switch st.opIs {
			case "and":
				g.ok++
			case "or":
				both := pos["A"] && pos["B"]
				if a.kind != c08Bool {
					both = both && d.from["A"] && d.from["B"]
				}
				if both {
					g.ok++
				} else {
					g.bad++
					g.details = append(g.details, fmt.Sprintf("path %s returns a possibly restricting result obtained from operand(s) %s of an \"or\" without restricting results from both operands (known restricting: %v, value built from: %v): a match of the unrestricted operand would be missed", pth, strings.Join(js, ","), c08Keys(pos), c08Keys(d.from)))
				}
			default:
				if st.opOpaque {
					g.und++
					g.details = append(g.details, fmt.Sprintf("path %s returns a possibly restricting result from operand(s) %s and branches on Op in a way the rule cannot interpret", pth, strings.Join(js, ",")))
				} else {
					g.bad++
					g.details = append(g.details, fmt.Sprintf("path %s returns a possibly restricting result obtained from operand(s) %s under Op label %q (neither \"and\" nor a fully restricted \"or\")", pth, strings.Join(js, ","), st.label()))
				}
			}
		}
		var labels []string
		for l := range byLabel {
			labels = append(labels, l)
		}
		sort.Strings(labels)
		for _, l := range labels {
			g := byLabel[l]
			nInst++
			c := key + "#" + l
			s := p.Pos(g.site)
			switch {
			case g.bad > 0:
				r.Violation("P-restrict", c, s, strings.Join(g.details, "; "))
			case g.und > 0:
				r.Undecided("P-restrict", c, s, strings.Join(g.details, "; "))
			default:
				r.OK("P-restrict", c, s, fmt.Sprintf("%d path(s) return a result justified by recursion under Op==%q; all sound", g.ok, l))
			}
		}
		r.OKTable("P-restrict", key+"#leaf", site, fmt.Sprintf("%d path(s) return a possibly restricting result justified by the constraint's own fields only (judged by P-leaf as to the fields they ignore; their base case is not decided)", leaf))
		for o, g := range nilAgg {
			nNil++
			c := key + "#operand-" + o
			how := "recursion on B only under Op in {and,or,xor}"
			if tolerant {
				how = "predicate tolerates a nil receiver"
			}
			r.Check(g.bad == 0, "P-nil-operand", c, p.Pos(g.site), fmt.Sprintf("%d path(s): %s", g.ok, how), strings.Join(c08Uniq(g.details), "; "))
		}
	}
	r.Floor("P-restrict", 5+len(preds)) // and×4 + or×1 recursion-justified labels, plus one #leaf row per predicate
	_ = nInst
	r.Floor("P-nil-operand", 4)
	_ = nNil
	return leaves
}

func c08Keys(m map[string]bool) []string {
	var out []string
	for k, v := range m {
		if v {
			out = append(out, k)
		}
	}
	sort.Strings(out)
	return out
}

func c08Uniq(in []string) []string {
	seen := map[string]bool{}
	var out []string
	for _, s := range in {
		if !seen[s] {
			seen[s] = true
			out = append(out, s)
		}
	}
	if len(out) > 4 {
		out = append(out[:4], fmt.Sprintf("... (%d more)", len(out)-4))
	}
	return out
}

// ---------------------------------------------------------------------------
// the planner: P-sorted, P-source-superset

type c08Source struct {
	class  string // permanodes | permanode-types | one | camli | all
	reason string
}

// c08SourceTable classifies every enumerator a candidate source may be built
// from. One symbol + one reason each; an unknown enumerator is undecided.
var c08SourceTable = map[string]c08Source{
	"pkg/index.(*Corpus).EnumeratePermanodesLastModified": {"permanodes", "all permanodes, newest modtime first"},
	"pkg/index.(*Corpus).EnumeratePermanodesCreated":      {"permanodes", "all permanodes by creation time, newest first iff its bool argument is true"},
	"pkg/index.(*Corpus).EnumeratePermanodesByNodeTypes":  {"permanode-types", "permanodes whose camliNodeType is in the given list"},
	"pkg/index.(*Corpus).EnumerateSingleBlob":             {"one", "the single given blob"},
	"pkg/index.(*Corpus).EnumerateCamliBlobs":             {"camli", "schema blobs of the given camli type ('' = all schema blobs)"},
	"pkg/index.(*Corpus).EnumerateBlobMeta":               {"all", "every blob known to the corpus"},
	"iface:pkg/index.Interface.EnumerateBlobMeta":         {"all", "every blob known to the index"},
}

type c08Planner struct {
	p     *Program
	w     *c08World
	roles map[*ssa.Function]string // planner predicate -> the canonical name of its role
	fn    *ssa.Function
	preds map[*ssa.Function]bool
	sorts map[int64]string // SortType constant value -> name
}

// isConstraintOfQ: v == q.Constraint for the receiver q.
func (pl *c08Planner) isConstraintOfQ(pth *c08XPath, v ssa.Value) bool {
	base, n, f, ok := c08FieldLoad(pth.norm(v))
	return ok && f == "Constraint" && c08IsType(n, c08Pkg, "SearchQuery") && pth.norm(base) == ssa.Value(pl.fn.Params[0])
}

func (pl *c08Planner) classify(c *ssa.Call) int {
	f := c.Call.StaticCallee()
	if f == nil || !pl.preds[f] {
		return 0
	}
	return c08ResultKind(f)
}

type c08PlanFacts struct {
	pred      map[*ssa.Call]int // predicate call -> +1/-1
	sortIs    string
	anyCamli  bool // c.AnyCamliType known true
	typeSet   bool // c.CamliType != "" known
	dead      bool
	roles     map[*ssa.Function]string
	constrOK  map[*ssa.Call]bool // predicate call has q.Constraint as receiver
	sortNames []string
}

func (pl *c08Planner) facts(pth *c08XPath) *c08PlanFacts {
	pf := &c08PlanFacts{pred: map[*ssa.Call]int{}, constrOK: map[*ssa.Call]bool{}, roles: pl.roles}
	for _, br := range pth.branches() {
		if cv, ok := c08ConstBool(br.Cond); ok {
			if cv != br.Val {
				pf.dead = true
			}
			continue
		}
		if c, s := c08RestrictFact(pth, br, pl.classify); c != nil {
			if s != 0 {
				if pf.pred[c] == -s {
					pf.dead = true
				}
				pf.pred[c] = s
				pf.constrOK[c] = len(c.Call.Args) > 0 && pl.isConstraintOfQ(pth, c.Call.Args[0])
			}
			continue
		}
		// c.AnyCamliType
		if base, n, f, ok := c08FieldLoad(br.Cond); ok && f == "AnyCamliType" && c08IsType(n, c08Pkg, "Constraint") && pl.isConstraintOfQ(pth, base) {
			if br.Val {
				pf.anyCamli = true
			}
			continue
		}
		bo, ok := br.Cond.(*ssa.BinOp)
		if !ok || (bo.Op != token.EQL && bo.Op != token.NEQ) {
			continue
		}
		for side := 0; side < 2; side++ {
			x, y := pth.norm(bo.X), pth.norm(bo.Y)
			if side == 1 {
				x, y = y, x
			}
			base, n, f, ok := c08FieldLoad(x)
			if !ok {
				continue
			}
			truth := (bo.Op == token.EQL) == br.Val
			switch {
			case f == "Sort" && c08IsType(n, c08Pkg, "SearchQuery") && pth.norm(base) == ssa.Value(pl.fn.Params[0]):
				if k, ok := ConstInt(y); ok && truth {
					name := pl.sorts[k]
					if pf.sortIs != "" && pf.sortIs != name {
						pf.dead = true
					}
					pf.sortIs = name
				}
			case f == "CamliType" && c08IsType(n, c08Pkg, "Constraint") && pl.isConstraintOfQ(pth, base):
				if s, ok := ConstString(y); ok && s == "" && !truth {
					pf.typeSet = true
				}
			}
		}
	}
	return pf
}

// has reports whether predicate name returned a restricting result for
// q.Constraint on this path, and returns the call.
func (pf *c08PlanFacts) has(name string) *ssa.Call {
	for c, s := range pf.pred {
		if s == 1 && pf.constrOK[c] && pf.roles[c.Call.StaticCallee()] == name {
			return c
		}
	}
	return nil
}

type c08Plan struct {
	pth       *c08XPath
	ret       *ssa.Return
	name      string
	sorted    bool
	sortedSet string // how sorted was determined
	send      *ssa.Function
	enum      CallSite
	enumFr    *c08Frame
	bad       string
}

// structFields reconstructs, field by field, the struct value v holds at the
// end of the composite path: the value of a local variable (field stores and
// whole-struct assignments on the path, last one wins, also through a pointer
// handed to a followed helper), a composite literal, or the result of a
// followed helper (resolved by norm).
func (pl *c08Planner) structFields(pth *c08XPath, evs []c08Event, v ssa.Value, depth int) (fields map[string]ssa.Value, bad string) {
	fields = map[string]ssa.Value{}
	v = pth.norm(v)
	if c, ok := v.(*ssa.Const); ok && c.Value == nil {
		return fields, "" // zero value
	}
	ld, ok := v.(*ssa.UnOp)
	var cell *ssa.Alloc
	if ok && ld.Op == token.MUL {
		cell, _ = pth.norm(ld.X).(*ssa.Alloc)
	}
	if cell == nil || depth > 4 {
		return nil, "the returned candidateSource is not read from a local variable or composite literal; cannot propagate its fields"
	}
	isCell := func(a ssa.Value) bool { return pth.norm(a) == ssa.Value(cell) }
	for _, ev := range evs {
		st, ok := ev.in.(*ssa.Store)
		if !ok {
			continue
		}
		if isCell(st.Addr) {
			if sl, ok := pth.norm(st.Val).(*ssa.UnOp); ok && sl.Op == token.MUL && isCell(sl.X) {
				continue // `return src, ok` with a named result: the variable assigned to itself
			}
			sub, sbad := pl.structFields(pth, evs, st.Val, depth+1)
			if sbad != "" {
				return nil, "whole-struct assignment to the returned candidateSource from a value that cannot be followed"
			}
			fields = sub
			continue
		}
		fa, ok := st.Addr.(*ssa.FieldAddr)
		if !ok || !isCell(fa.X) {
			continue
		}
		if _, _, f, ok := c08FieldAddr(fa); ok {
			fields[f] = st.Val
		}
	}
	// the variable's address must not escape (field stores are the only writers)
	if refs := cell.Referrers(); refs != nil {
		for _, rf := range *refs {
			switch x := rf.(type) {
			case *ssa.FieldAddr, *ssa.UnOp, *ssa.DebugRef:
			case *ssa.Store:
				if x.Addr != ssa.Value(cell) {
					return nil, "the address of the returned candidateSource variable is stored"
				}
			case *ssa.Call:
				if pth.followed(x) == nil {
					return nil, "the returned candidateSource variable escapes (" + rf.String() + ")"
				}
			default:
				return nil, "the returned candidateSource variable escapes (" + rf.String() + ")"
			}
		}
	}
	return fields, ""
}

// enumerator finds, in the effective body of a send function, the one call
// that receives send's callback parameter: frames follow the helpers (and
// bound methods) the callback is passed through.
func (pl *c08Planner) enumerator(send *ssa.Function, recv ssa.Value) (enum CallSite, fr *c08Frame, bad string) {
	root := pl.w.root(send)
	var enums []CallSite
	var frs []*c08Frame
	var scan func(f *c08Frame, depth int)
	scan = func(f *c08Frame, depth int) {
		var cbs []*ssa.Parameter
		for _, prm := range f.fn.Params {
			if _, ok := prm.Type().Underlying().(*types.Signature); ok {
				cbs = append(cbs, prm)
			}
		}
		for _, c := range CallsIn(f.fn, true) {
			hit := false
			for _, arg := range c.Args() {
				o := originValue(arg)
				for _, cb := range cbs {
					if o == ssa.Value(cb) {
						hit = true
					}
				}
			}
			if !hit {
				continue
			}
			if h := c08HelperOf(c); h != nil && c.Fn == f.fn && c.Value() != nil && depth < c08MaxDepth {
				if k := f.enter(c.Instr, h); k != nil {
					scan(k, depth+1)
					continue
				}
			}
			enums = append(enums, c)
			frs = append(frs, f)
		}
	}
	scan(root, 0)
	if len(enums) != 1 {
		return CallSite{}, nil, fmt.Sprintf("send passes its callback to %d calls; expected exactly one enumerator", len(enums))
	}
	return enums[0], frs[0], ""
}

// plan reconstructs the candidateSource returned at the end of the path.
func (pl *c08Planner) plan(pth *c08XPath) *c08Plan {
	out := &c08Plan{pth: pth}
	ret := pth.ret()
	if ret == nil {
		return nil // panic exit
	}
	out.ret = ret
	if len(ret.Results) != 1 {
		out.bad = "unexpected number of results"
		return out
	}
	fields, bad := pl.structFields(pth, pth.events(), resolveReturnValue(ret.Results[0], ret), 0)
	if bad != "" {
		out.bad = bad
		return out
	}
	nameV, sortedV, sendV := fields[c08Src.name], fields[c08Src.sorted], fields[c08Src.send]
	if nameV != nil {
		out.name, _ = ConstString(pth.norm(nameV))
	}
	if out.name == "" {
		out.bad = "src.name is not a constant string on this path"
		return out
	}
	if sortedV == nil {
		out.sorted, out.sortedSet = false, "never assigned (zero value)"
	} else if bv, ok := c08ConstBool(pth.norm(sortedV)); ok {
		out.sorted, out.sortedSet = bv, "constant store"
	} else {
		out.bad = "src.sorted is not a constant on this path"
		return out
	}
	if sendV == nil {
		out.bad = "src.send is not assigned on this path"
		return out
	}
	switch f := pth.norm(sendV).(type) {
	case *ssa.MakeClosure:
		out.send = f.Fn.(*ssa.Function)
	case *ssa.Function:
		out.send = f
	default:
		out.bad = "src.send is not a function literal or declared function"
		return out
	}
	if len(out.send.Blocks) == 0 {
		out.bad = "src.send has no body"
		return out
	}
	// the enumerator: the call in send's effective body that receives send's callback parameter
	out.enum, out.enumFr, out.bad = pl.enumerator(out.send, nil)
	return out
}

// boolArg: the value of a boolean argument of the enumerator call on this
// path: a constant, or a condition the path has branched on (a guard hoisted
// into a local and handed on: newestFirst := q.Sort == CreatedDesc).
func (pn *c08Plan) boolArg(v ssa.Value) (val, ok bool) {
	o := pn.arg(v)
	neg := false
	for {
		u, isU := o.(*ssa.UnOp)
		if !isU || u.Op != token.NOT {
			break
		}
		o, neg = pn.pth.norm(u.X), !neg
	}
	if bv, isC := c08ConstBool(o); isC {
		return bv != neg, true
	}
	for _, br := range pn.pth.branches() {
		if br.Cond == o {
			return br.Val != neg, true
		}
	}
	return false, false
}

// arg resolves an argument of the enumerator call to the planner's value it
// stands for on this path.
func (pn *c08Plan) arg(v ssa.Value) ssa.Value {
	o, _ := c08Static(pn.enumFr).resolve(pn.enumFr, v)
	return pn.pth.norm(o)
}

func c08RulePlanner(p *Program, r *Reporter, w *c08World, pick *ssa.Function, preds map[*ssa.Function]bool, roles map[*ssa.Function]string, sorts map[int64]string) {
	key := FuncKey(pick)
	for k := range c08SourceTable {
		if !strings.HasPrefix(k, "iface:") {
			i := strings.LastIndex(k, ".")
			p.Func("pkg/index", "Corpus", k[i+1:])
		}
	}
	paths, _, why := c08XPaths(pick, func(c CallSite) *ssa.Function {
		h := c08HelperOf(c)
		if h == nil || preds[h] || h == pick {
			return nil
		}
		return h
	}, 4000)
	if why != "" {
		r.Undecided("P-sorted", key+"#paths", p.Pos(pick.Pos()), "cannot enumerate the planner's paths: "+why)
		return
	}
	r.Analysed("planner_paths", len(paths))
	pl := &c08Planner{p: p, w: w, roles: roles, fn: pick, preds: preds, sorts: sorts}
	type res struct {
		st     Status
		detail string
		site   token.Pos
		table  bool
	}
	merge := func(m map[string]*res, k string, st Status, site token.Pos, table bool, detail string) {
		cur := m[k]
		rank := map[Status]int{Discharged: 0, Undecided: 1, Violated: 2}
		if cur == nil || rank[st] > rank[cur.st] {
			m[k] = &res{st, detail, site, table}
		} else if cur.st == st && !strings.Contains(cur.detail, detail) && st != Discharged {
			cur.detail += "; " + detail
		} else if cur.st == Discharged && !table {
			cur.table = false
		}
	}
	sortedRes, superRes := map[string]*res{}, map[string]*res{}
	for _, pth := range paths {
		pf := pl.facts(pth)
		if pf.dead {
			continue
		}
		pn := pl.plan(pth)
		if pn == nil {
			continue
		}
		if pn.bad != "" {
			k := key + "#" + pn.name
			if pn.name == "" {
				k = key + "#path-" + pth.String()
			}
			merge(sortedRes, k, Undecided, pn.ret.Pos(), false, "path "+pth.String()+": "+pn.bad)
			continue
		}
		k := key + "#" + pn.name
		site := pn.ret.Pos()
		ek := pn.enum.CalleeKey()
		src, known := c08SourceTable[ek]
		if !known {
			d := "path " + pth.String() + ": source built from unclassified enumerator " + ek + "; classify it (what it enumerates, in which order) in c08SourceTable"
			merge(sortedRes, k, Undecided, site, false, d)
			merge(superRes, k, Undecided, site, false, d)
			continue
		}
		args := pn.enum.Args()
		// ---- P-sorted
		if !pn.sorted {
			merge(sortedRes, k, Discharged, site, true, "sorted=false ("+pn.sortedSet+"): the executor post-sorts")
		} else {
			want := ""
			switch ek {
			case "pkg/index.(*Corpus).EnumeratePermanodesLastModified":
				want = "LastModifiedDesc"
			case "pkg/index.(*Corpus).EnumeratePermanodesCreated":
				if len(args) == 3 {
					if nf, ok := pn.boolArg(args[2]); ok {
						want = "CreatedAsc"
						if nf {
							want = "CreatedDesc"
						}
					}
				}
			}
			switch {
			case want == "":
				merge(sortedRes, k, Violated, site, false, "path "+pth.String()+": sorted=true with enumerator "+ek+" which yields no query sort order ("+src.reason+")")
			case pf.sortIs != want:
				merge(sortedRes, k, Violated, site, false, fmt.Sprintf("path %s: sorted=true with %s, which yields %s order, but the path establishes q.Sort==%q", pth, ek, want, pf.sortIs))
			default:
				merge(sortedRes, k, Discharged, site, false, "sorted=true with "+ek+" under q.Sort=="+want)
			}
		}
		// ---- P-source-superset
		need := func(pred string) *ssa.Call { return pf.has(pred) }
		bad := func(d string) { merge(superRes, k, Violated, site, false, "path "+pth.String()+": "+d) }
		good := func(d string) { merge(superRes, k, Discharged, site, false, d) }
		switch src.class {
		case "all":
			merge(superRes, k, Discharged, site, true, "unrestricted source ("+src.reason+")")
		case "permanodes":
			if need("onlyMatchesPermanode") == nil {
				bad("permanode-only enumerator " + ek + " entered without onlyMatchesPermanode()==true for q.Constraint")
			} else {
				good("permanode-only enumerator under onlyMatchesPermanode()")
			}
		case "permanode-types":
			c := need("matchesPermanodeTypes")
			switch {
			case need("onlyMatchesPermanode") == nil:
				bad("by-node-type enumerator entered without onlyMatchesPermanode()==true for q.Constraint")
			case c == nil:
				bad("by-node-type enumerator entered without a non-empty matchesPermanodeTypes() result for q.Constraint")
			case len(args) != 3 || pn.arg(args[2]) != ssa.Value(c):
				bad("the type list passed to the enumerator is not the slice returned by the matchesPermanodeTypes() call that was tested non-empty")
			default:
				good("by-node-type enumerator under onlyMatchesPermanode() with the non-empty matchesPermanodeTypes() result")
			}
		case "one":
			c := need("matchesAtMostOneBlob")
			switch {
			case c == nil:
				bad("single-blob enumerator entered without a valid matchesAtMostOneBlob() result for q.Constraint")
			case len(args) != 3 || pn.arg(args[2]) != ssa.Value(c):
				bad("the ref passed to the enumerator is not the one returned by the matchesAtMostOneBlob() call that was tested valid")
			default:
				good("single-blob enumerator with the valid matchesAtMostOneBlob() result")
			}
		case "camli":
			if len(args) != 3 {
				merge(superRes, k, Undecided, site, false, "unexpected arity of EnumerateCamliBlobs")
				break
			}
			tv := pn.arg(args[1])
			if s, ok := ConstString(tv); ok {
				switch {
				case s == "file" && need("matchesFileByWholeRef") != nil:
					good("file-blob enumerator under matchesFileByWholeRef()")
				case s == "file":
					bad("file-blob enumerator entered without matchesFileByWholeRef()==true for q.Constraint")
				case s == "permanode" && need("onlyMatchesPermanode") != nil:
					good("permanode-blob enumerator under onlyMatchesPermanode()")
				default:
					merge(superRes, k, Undecided, site, false, fmt.Sprintf("path %s: camli-blob enumerator restricted to constant type %q: no justifying predicate is recorded for it", pth, s))
				}
				break
			}
			base, n, f, ok := c08FieldLoad(tv)
			if ok && f == "CamliType" && c08IsType(n, c08Pkg, "Constraint") && pl.isConstraintOfQ(pth, base) {
				if pf.anyCamli || pf.typeSet {
					good("camli-blob enumerator of q.Constraint.CamliType under AnyCamliType || CamliType != \"\"")
				} else {
					bad("camli-blob enumerator of q.Constraint.CamliType entered without AnyCamliType || CamliType != \"\": a constraint that also matches non-schema blobs would miss them")
				}
				break
			}
			merge(superRes, k, Undecided, site, false, "path "+pth.String()+": the camli type passed to the enumerator is neither a constant nor q.Constraint.CamliType")
		default:
			merge(superRes, k, Undecided, site, false, "unknown source class "+src.class)
		}
	}
	emit := func(rule string, m map[string]*res) {
		var ks []string
		for k := range m {
			ks = append(ks, k)
		}
		sort.Strings(ks)
		for _, k := range ks {
			x := m[k]
			s := p.Pos(x.site)
			switch x.st {
			case Violated:
				r.Violation(rule, k, s, x.detail)
			case Undecided:
				r.Undecided(rule, k, s, x.detail)
			default:
				if x.table {
					r.OKTable(rule, k, s, x.detail)
				} else {
					r.OK(rule, k, s, x.detail)
				}
			}
		}
	}
	emit("P-sorted", sortedRes)
	emit("P-source-superset", superRes)
	r.Floor("P-sorted", 7)
	r.Floor("P-source-superset", 8) // 7 sources + #same-constraint
}

// ---------------------------------------------------------------------------
// P-nodup

// c08NoDupExceptions: enumerators whose nested loops provably visit disjoint
// collections. One symbol, one reason.
var c08NoDupExceptions = map[string]string{
	"pkg/index.(*Corpus).EnumerateCamliBlobs": "c.camBlobs partitions the schema blobs by their own (single) CamliType: mergeMetaRow files a blob under bm.CamliType only, so the inner maps are disjoint",
}

// c08LoopDepth counts the natural loops containing block b.
func c08LoopDepth(b *ssa.BasicBlock) int {
	n := 0
	for _, h := range b.Parent().Blocks {
		if !h.Dominates(b) {
			continue
		}
		in := false
		for _, p := range h.Preds {
			if !h.Dominates(p) {
				continue
			}
			// back edge p->h: body = blocks reaching p without passing h
			seen := map[*ssa.BasicBlock]bool{h: true}
			var walk func(x *ssa.BasicBlock)
			walk = func(x *ssa.BasicBlock) {
				if seen[x] {
					return
				}
				seen[x] = true
				for _, q := range x.Preds {
					walk(q)
				}
			}
			walk(p)
			if seen[b] {
				in = true
			}
		}
		if in {
			n++
		}
	}
	return n
}

type c08CbSite struct {
	in    ssa.CallInstruction
	fr    *c08Frame
	depth int
	via   string
}

// c08CallbackSites finds where the callback parameter prm of fr.fn is invoked,
// following the static helpers it is passed on to (frames, so that what a
// helper receives can be resolved to what the enumerator made).
func c08CallbackSites(fr *c08Frame, prm *ssa.Parameter, outer int, via string) (sites []c08CbSite, bad string) {
	fn := fr.fn
	for _, c := range CallsIn(fn, true) {
		cc := c.Common()
		if !cc.IsInvoke() && originValue(cc.Value) == ssa.Value(prm) {
			if c.Fn != fn {
				return nil, "callback invoked from a function literal inside " + FuncKey(fn)
			}
			sites = append(sites, c08CbSite{c.Instr, fr, outer + c08LoopDepth(c.Block()), via})
			continue
		}
		for i, a := range c.Args() {
			if originValue(a) != ssa.Value(prm) {
				continue
			}
			callee := c.Callee()
			if callee == nil || callee.Blocks == nil || c.Fn != fn || i >= len(callee.Params) || c.Value() == nil {
				return nil, "callback passed on to " + c.CalleeKey() + ", which the rule cannot follow"
			}
			kid := fr.enter(c.Instr, callee)
			if kid == nil {
				return nil, "callback passed on to " + c.CalleeKey() + " beyond the depth the rule follows"
			}
			sub, b := c08CallbackSites(kid, callee.Params[i], outer+c08LoopDepth(c.Block()), via+" -> "+FuncKey(callee))
			if b != "" {
				return nil, b
			}
			sites = append(sites, sub...)
		}
	}
	return sites, ""
}

// c08SeenGuarded: the invocation is under a branch on a look-up in a map made
// in the enumerator's effective body (the branch may sit in the helper that
// invokes the callback or at a call that leads to it; the map may have come in
// as a parameter).
func c08SeenGuarded(s c08CbSite) bool {
	for _, x := range c08FactsX(s.fr, s.in.Block()) {
		ps := c08Static(x.fr)
		xf := x.fr
		if DependsOn(x.cond, func(v ssa.Value) bool {
			lk, ok := v.(*ssa.Lookup)
			if !ok {
				return false
			}
			o, _ := ps.resolve(xf, lk.X)
			_, isMake := o.(*ssa.MakeMap)
			return isMake
		}) {
			return true
		}
	}
	return false
}

func c08RuleNoDup(p *Program, r *Reporter, w *c08World) {
	var keys []string
	for k := range c08SourceTable {
		if !strings.HasPrefix(k, "iface:") {
			keys = append(keys, k)
		}
	}
	sort.Strings(keys)
	for _, k := range keys {
		fn := p.Func("pkg/index", "Corpus", k[strings.LastIndex(k, ".")+1:])
		site := p.Pos(fn.Pos())
		var cb *ssa.Parameter
		for _, prm := range fn.Params {
			if _, ok := prm.Type().Underlying().(*types.Signature); ok {
				cb = prm
			}
		}
		if cb == nil {
			r.Undecided("P-nodup", k+"#callback", site, "enumerator has no callback parameter")
			continue
		}
		sites, bad := c08CallbackSites(w.root(fn), cb, 0, FuncKey(fn))
		if bad != "" {
			r.Undecided("P-nodup", k+"#callback", site, bad)
			continue
		}
		if len(sites) == 0 {
			r.Undecided("P-nodup", k+"#callback", site, "the enumerator never invokes its callback")
			continue
		}
		for i, s := range sites {
			c := fmt.Sprintf("%s#callback/%d", k, i+1)
			at := p.Pos(s.in.Pos())
			switch {
			case s.depth <= 1:
				r.OK("P-nodup", c, at, fmt.Sprintf("callback invoked at loop depth %d (%s): one pass over one collection", s.depth, s.via))
			case c08SeenGuarded(s):
				r.OK("P-nodup", c, at, fmt.Sprintf("callback invoked at loop depth %d under a look-up in a locally made seen-set", s.depth))
			case c08NoDupExceptions[k] != "":
				r.OKTable("P-nodup", c, at, fmt.Sprintf("loop depth %d, recorded exception: %s", s.depth, c08NoDupExceptions[k]))
			default:
				r.Violation("P-nodup", c, at, fmt.Sprintf("callback invoked at loop depth %d (%s) without a seen-set guard: a blob contained in several of the visited collections, or a key supplied twice by the planner, is handed to the matcher more than once and returned as a duplicate result", s.depth, s.via))
			}
		}
	}
	r.Floor("P-nodup", 7)
}

// ---------------------------------------------------------------------------
// effective bodies: frames, cross-frame value resolution, path exploration
//
// A rule that looks for a site "in function F" looks in F's EFFECTIVE BODY: F
// plus, transitively (c08MaxDepth), the unexported same-package functions and
// methods and the function literals that F calls statically. A c08Frame is one
// activation of such a function: it knows the call that entered it and maps
// parameters to the caller's arguments, so a value of a helper can be
// resolved to the value of the caller it stands for (and a result of a helper
// call to the value the helper returns). Extracting a block into a helper,
// splitting a function or turning a closure into a method therefore does not
// change what the rules see.

const c08MaxDepth = 5

type c08FieldKey struct {
	named *types.Named
	idx   int
}

type c08FieldInfo struct {
	stores  []*ssa.Store
	loads   []*ssa.UnOp
	addrs   []*ssa.FieldAddr
	escapes bool // the field's address is used for more than loads and stores
}

type c08World struct {
	p      *Program
	fields map[c08FieldKey]*c08FieldInfo
	bound  map[*ssa.Function][]*ssa.MakeClosure // method -> the closures that bind a receiver to it
	state  map[*types.Named]*c08StateInfo
}

func c08FieldKeyOf(fa *ssa.FieldAddr) (c08FieldKey, bool) {
	pt, ok := fa.X.Type().Underlying().(*types.Pointer)
	if !ok {
		return c08FieldKey{}, false
	}
	n, _ := pt.Elem().(*types.Named)
	if n == nil || n.Obj().Pkg() == nil || !strings.HasPrefix(n.Obj().Pkg().Path(), modPrefix) {
		return c08FieldKey{}, false
	}
	return c08FieldKey{n.Origin(), fa.Field}, true
}

// fieldInfo: every store to the struct field fa addresses, anywhere in the
// module (field-based: all instances of the struct type together).
func (w *c08World) fieldInfo(fa *ssa.FieldAddr) *c08FieldInfo {
	if w.fields == nil {
		w.fields = map[c08FieldKey]*c08FieldInfo{}
		seen := map[*ssa.Function]bool{}
		var scan func(fn *ssa.Function)
		scan = func(fn *ssa.Function) {
			if fn == nil || seen[fn] {
				return
			}
			seen[fn] = true
			for _, b := range fn.Blocks {
				for _, in := range b.Instrs {
					x, ok := in.(*ssa.FieldAddr)
					if !ok {
						continue
					}
					k, ok := c08FieldKeyOf(x)
					if !ok {
						continue
					}
					fi := w.fields[k]
					if fi == nil {
						fi = &c08FieldInfo{}
						w.fields[k] = fi
					}
					fi.addrs = append(fi.addrs, x)
					if refs := x.Referrers(); refs != nil {
						for _, rf := range *refs {
							switch r := rf.(type) {
							case *ssa.Store:
								if r.Addr == ssa.Value(x) {
									fi.stores = append(fi.stores, r)
								} else {
									fi.escapes = true
								}
							case *ssa.UnOp:
								if r.Op != token.MUL {
									fi.escapes = true
								} else {
									fi.loads = append(fi.loads, r)
								}
							case *ssa.DebugRef:
							default:
								fi.escapes = true
							}
						}
					}
				}
			}
			for _, a := range fn.AnonFuncs {
				scan(a)
			}
		}
		for _, fn := range w.p.AllFuncs {
			scan(fn)
		}
	}
	k, ok := c08FieldKeyOf(fa)
	if !ok {
		return nil
	}
	return w.fields[k]
}

// singleFieldStore: the one value ever stored into the field a load reads
// (a struct that carries the state of a former closure: `st := &enumState{res:
// res, ...}`), or nil.
func (w *c08World) singleFieldStore(ld *ssa.UnOp) ssa.Value {
	fa, ok := ld.X.(*ssa.FieldAddr)
	if !ok || ld.Op != token.MUL {
		return nil
	}
	fi := w.fieldInfo(fa)
	if fi == nil || fi.escapes || len(fi.stores) != 1 {
		return nil
	}
	return fi.stores[0].Val
}

// c08StateInfo: named struct type T (of the module) is the STATE of one
// invocation of function creator — what a closure turned into a method keeps
// in its receiver: every access to a field of T goes through the receiver of a
// method of T or through the one local allocation in creator; the methods are
// only ever used as bound-method values made in creator on that allocation;
// the allocation goes nowhere else. A map or variable held in such a field is
// as local to one invocation of creator as a captured local variable was.
type c08StateInfo struct {
	ok      bool
	why     string
	creator *ssa.Function
	alloc   *ssa.Alloc
	methods map[*ssa.Function]bool
}

func (w *c08World) boundClosures() map[*ssa.Function][]*ssa.MakeClosure {
	if w.bound != nil {
		return w.bound
	}
	w.bound = map[*ssa.Function][]*ssa.MakeClosure{}
	seen := map[*ssa.Function]bool{}
	var scan func(fn *ssa.Function)
	scan = func(fn *ssa.Function) {
		if fn == nil || seen[fn] {
			return
		}
		seen[fn] = true
		for _, b := range fn.Blocks {
			for _, in := range b.Instrs {
				if mc, ok := in.(*ssa.MakeClosure); ok {
					if t := c08BoundTarget(mc.Fn.(*ssa.Function)); t != nil {
						w.bound[t] = append(w.bound[t], mc)
					}
				}
			}
		}
		for _, a := range fn.AnonFuncs {
			scan(a)
		}
	}
	for _, fn := range w.p.AllFuncs {
		scan(fn)
	}
	return w.bound
}

// stateOf decides whether the struct type of the field fa addresses is the
// state of one invocation (see c08StateInfo).
func (w *c08World) stateOf(fa *ssa.FieldAddr) *c08StateInfo {
	k, ok := c08FieldKeyOf(fa)
	if !ok {
		return &c08StateInfo{why: "not a field of a module struct"}
	}
	if w.state == nil {
		w.state = map[*types.Named]*c08StateInfo{}
	}
	if si := w.state[k.named]; si != nil {
		return si
	}
	si := &c08StateInfo{methods: map[*ssa.Function]bool{}}
	w.state[k.named] = si
	w.fieldInfo(fa) // builds the index
	st := c08Struct(k.named)
	if st == nil {
		si.why = "not a struct"
		return si
	}
	fail := func(why string) *c08StateInfo {
		si.why = why
		return si
	}
	for i := 0; i < st.NumFields(); i++ {
		fi := w.fields[c08FieldKey{k.named, i}]
		if fi == nil {
			continue
		}
		if fi.escapes {
			return fail("the address of field " + st.Field(i).Name() + " is taken")
		}
		for _, a := range fi.addrs {
			switch b := originValue(a.X).(type) {
			case *ssa.Parameter:
				fn := b.Parent()
				if fn.Signature.Recv() == nil || len(fn.Params) == 0 || fn.Params[0] != b {
					return fail("field accessed through a parameter that is not a method receiver, in " + FuncKey(fn))
				}
				si.methods[fn] = true
			case *ssa.Alloc:
				if si.alloc != nil && si.alloc != b {
					return fail("the struct is allocated in more than one place")
				}
				si.alloc = b
			default:
				return fail("field accessed through a value the rule cannot trace, in " + FuncKey(a.Parent()))
			}
		}
	}
	if si.alloc == nil {
		return fail("no local allocation of the struct found")
	}
	si.creator = si.alloc.Parent()
	// the allocation: only field accesses, bound-method closures, and a local variable holding it
	var checkRefs func(v ssa.Value, depth int) string
	checkRefs = func(v ssa.Value, depth int) string {
		refs := v.Referrers()
		if refs == nil {
			return ""
		}
		for _, rf := range *refs {
			switch x := rf.(type) {
			case *ssa.FieldAddr, *ssa.DebugRef:
			case *ssa.MakeClosure:
				if t := c08BoundTarget(x.Fn.(*ssa.Function)); t == nil || !si.methods[t] && NamedOf(t.Signature.Recv().Type()) != k.named {
					return "the state struct is captured by " + x.Fn.Name()
				}
			case *ssa.Store:
				cell, isAl := x.Addr.(*ssa.Alloc)
				if x.Val != v || !isAl || depth > 2 {
					return "the state struct is stored somewhere"
				}
				// a local variable holding the pointer: its loads are checked like the pointer
				if crefs := cell.Referrers(); crefs != nil {
					for _, cr := range *crefs {
						switch y := cr.(type) {
						case *ssa.Store, *ssa.DebugRef:
						case *ssa.UnOp:
							if why := checkRefs(y, depth+1); why != "" {
								return why
							}
						default:
							return "the variable holding the state struct escapes"
						}
					}
				}
			default:
				return "the state struct escapes (" + rf.String() + ")"
			}
		}
		return ""
	}
	if why := checkRefs(si.alloc, 0); why != "" {
		return fail(why)
	}
	// the methods: never called directly, only bound in creator on the allocation
	bc := w.boundClosures()
	for m := range si.methods {
		if len(w.p.StaticCallers(m)) > 0 {
			return fail(FuncKey(m) + " is also called directly")
		}
		for _, mc := range bc[m] {
			if mc.Parent() != si.creator || len(mc.Bindings) != 1 || originValue(mc.Bindings[0]) != ssa.Value(si.alloc) {
				return fail(FuncKey(m) + " is bound to another receiver than the local state struct")
			}
		}
		for _, u := range w.p.FuncValueUses(m) {
			if _, isMC := u.(*ssa.MakeClosure); !isMC {
				return fail(FuncKey(m) + " is used as a value")
			}
		}
	}
	si.ok = true
	return si
}

type c08Frame struct {
	w      *c08World
	fn     *ssa.Function
	parent *c08Frame
	call   ssa.CallInstruction          // the instruction of parent.fn that enters fn; nil for a root or a callback
	bind   map[*ssa.Parameter]ssa.Value // parameter -> value in the parent frame
	kids   map[ssa.Instruction]*c08Frame
	cbs    map[*ssa.Function]*c08Frame
	depth  int
}

func (w *c08World) root(fn *ssa.Function) *c08Frame {
	return &c08Frame{w: w, fn: fn, kids: map[ssa.Instruction]*c08Frame{}, cbs: map[*ssa.Function]*c08Frame{}}
}

// c08HelperOf: the function a call enters if that function belongs to the
// caller's effective body: a function literal, or an unexported function or
// method of the same package, called statically.
func c08HelperOf(c CallSite) *ssa.Function {
	if c.Instr == nil || c.Common().IsInvoke() {
		return nil
	}
	callee := c.Callee()
	if callee == nil || len(callee.Blocks) == 0 || !InModule(callee) {
		return nil
	}
	if callee.Parent() != nil {
		return callee
	}
	top := TopFunc(c.Fn)
	if callee.Pkg == nil || top == nil || top.Pkg != callee.Pkg || callee.Synthetic != "" {
		return nil
	}
	if token.IsExported(callee.Name()) {
		return nil
	}
	return callee
}

// enter: the frame of callee entered by call instruction in of fr.fn; nil when
// the depth bound is reached or callee is already active (recursion).
func (fr *c08Frame) enter(in ssa.CallInstruction, callee *ssa.Function) *c08Frame {
	if k := fr.kids[in]; k != nil {
		return k
	}
	if fr.depth >= c08MaxDepth {
		return nil
	}
	for a := fr; a != nil; a = a.parent {
		if a.fn == callee {
			return nil
		}
	}
	k := &c08Frame{w: fr.w, fn: callee, parent: fr, call: in, bind: map[*ssa.Parameter]ssa.Value{},
		kids: map[ssa.Instruction]*c08Frame{}, cbs: map[*ssa.Function]*c08Frame{}, depth: fr.depth + 1}
	args := in.Common().Args
	for i, prm := range callee.Params {
		if i < len(args) {
			k.bind[prm] = args[i]
		}
	}
	fr.kids[in] = k
	return k
}

// callback: the frame of a function value created in fr and called back by
// someone else: a literal (free variables resolve by themselves), a declared
// function, or a method whose receiver recv was bound in fr (`st.visit`).
func (fr *c08Frame) callback(fn *ssa.Function, recv ssa.Value) *c08Frame {
	if k := fr.cbs[fn]; k != nil {
		return k
	}
	k := &c08Frame{w: fr.w, fn: fn, parent: fr, bind: map[*ssa.Parameter]ssa.Value{},
		kids: map[ssa.Instruction]*c08Frame{}, cbs: map[*ssa.Function]*c08Frame{}, depth: fr.depth + 1}
	if recv != nil && len(fn.Params) > 0 {
		k.bind[fn.Params[0]] = recv
	}
	fr.cbs[fn] = k
	return k
}

// of: the frame (fr or an ancestor) whose function value v belongs to; fr for
// constants, globals and functions; nil when v belongs to no active function.
func (fr *c08Frame) of(v ssa.Value) *c08Frame {
	var pf *ssa.Function
	switch x := v.(type) {
	case *ssa.Parameter:
		pf = x.Parent()
	case *ssa.FreeVar:
		pf = x.Parent()
	default:
		in, ok := v.(ssa.Instruction)
		if !ok {
			return fr
		}
		pf = in.Parent()
	}
	for a := fr; a != nil; a = a.parent {
		if a.fn == pf {
			return a
		}
	}
	return nil
}

func (fr *c08Frame) String() string {
	if fr.parent == nil {
		return fr.fn.Name()
	}
	return fr.parent.String() + ">" + fr.fn.Name()
}

// tree: fr and every frame its effective body enters.
func (fr *c08Frame) tree() []*c08Frame {
	out := []*c08Frame{fr}
	for _, c := range CallsIn(fr.fn, false) {
		if c.Value() == nil {
			continue
		}
		if h := c08HelperOf(c); h != nil {
			if k := fr.enter(c.Instr, h); k != nil && len(out) < 400 {
				out = append(out, k.tree()...)
			}
		}
	}
	return out
}

// A c08Pos is a position on an explored path: the stack of active frames with
// the block each is in (and through which predecessor it got there, for phi
// resolution) and the followed calls that have returned, with the return they
// took. c08Static(fr) is a position without path knowledge.
type c08Ctx struct {
	fr        *c08Frame
	cur, prev *ssa.BasicBlock
}

type c08Ret struct {
	call   *ssa.Call
	caller *c08Frame
	kid    *c08Frame
	ret    *ssa.Return
	prev   *ssa.BasicBlock
	next   *c08Ret
}

type c08Pos struct {
	stack []c08Ctx
	rets  *c08Ret
}

func c08Static(fr *c08Frame) *c08Pos { return &c08Pos{stack: []c08Ctx{{fr: fr}}} }

func (ps *c08Pos) top() c08Ctx { return ps.stack[len(ps.stack)-1] }

func (ps *c08Pos) retOf(call *ssa.Call, caller *c08Frame) *c08Ret {
	for r := ps.rets; r != nil; r = r.next {
		if r.call == call && r.caller == caller {
			return r
		}
	}
	return nil
}

func (ps *c08Pos) retsSig() string {
	var sb strings.Builder
	for r := ps.rets; r != nil; r = r.next {
		fmt.Fprintf(&sb, "%p:%p:%d;", r.kid, r.ret, c08BlockIndex(r.prev))
	}
	return sb.String()
}

func c08BlockIndex(b *ssa.BasicBlock) int {
	if b == nil {
		return -1
	}
	return b.Index
}

// chain resolves value v of frame fr step by step towards its origin:
// originValue inside a function, a parameter to the caller's argument, a phi
// by the edge the path came in through, a result of a followed call to the
// value returned (on this path; without path knowledge when every return of
// the helper returns the same value), a load of a struct field that is stored
// exactly once in the module to the stored value. visit sees every stage and
// ends the resolution by returning true. The last stage is returned.
func (ps *c08Pos) chain(fr *c08Frame, v ssa.Value, visit func(o ssa.Value, f *c08Frame) bool) (ssa.Value, *c08Frame) {
	var extra []c08Ctx
	ctxOf := func(f *c08Frame) (c08Ctx, bool) {
		for i := len(extra) - 1; i >= 0; i-- {
			if extra[i].fr == f {
				return extra[i], true
			}
		}
		for i := len(ps.stack) - 1; i >= 0; i-- {
			if ps.stack[i].fr == f {
				return ps.stack[i], true
			}
		}
		return c08Ctx{}, false
	}
	for i := 0; i < 48 && v != nil; i++ {
		o := originValue(v)
		f := fr.of(o)
		if f == nil {
			if visit != nil {
				visit(o, fr)
			}
			return o, fr
		}
		if visit != nil && visit(o, f) {
			return o, f
		}
		switch x := o.(type) {
		case *ssa.Parameter:
			if b, ok := f.bind[x]; ok && f.parent != nil {
				v, fr = b, f.parent
				continue
			}
		case *ssa.Phi:
			if cx, ok := ctxOf(f); ok && cx.cur == x.Block() && cx.prev != nil {
				if e := c08PredEdge(x, cx.prev); e != nil {
					v, fr = e, f
					continue
				}
			}
		case *ssa.Call:
			if x.Call.Signature().Results().Len() != 1 {
				break
			}
			if nv, nf, cx, ok := ps.result(x, f, 0); ok {
				if cx.fr != nil {
					extra = append(extra, cx)
				}
				v, fr = nv, nf
				continue
			}
		case *ssa.Extract:
			if c, isCall := x.Tuple.(*ssa.Call); isCall {
				if nv, nf, cx, ok := ps.result(c, f, x.Index); ok {
					if cx.fr != nil {
						extra = append(extra, cx)
					}
					v, fr = nv, nf
					continue
				}
			}
		case *ssa.UnOp:
			if val := f.w.singleFieldStore(x); val != nil {
				g := f.of(val)
				if g == nil {
					g = ps.top().fr.of(val)
				}
				if g != nil {
					v, fr = val, g
					continue
				}
			}
		}
		return o, f
	}
	return v, fr
}

// result: the value a followed call returns as its result idx.
func (ps *c08Pos) result(call *ssa.Call, f *c08Frame, idx int) (ssa.Value, *c08Frame, c08Ctx, bool) {
	if call.Call.Signature().Results().Len() <= idx {
		return nil, nil, c08Ctx{}, false
	}
	if r := ps.retOf(call, f); r != nil {
		if idx < len(r.ret.Results) {
			return resolveReturnValue(r.ret.Results[idx], r.ret), r.kid, c08Ctx{r.kid, r.ret.Block(), r.prev}, true
		}
		return nil, nil, c08Ctx{}, false
	}
	h := c08HelperOf(CallSite{f.fn, call})
	if h == nil {
		return nil, nil, c08Ctx{}, false
	}
	kid := f.enter(call, h)
	if kid == nil {
		return nil, nil, c08Ctx{}, false
	}
	var val ssa.Value
	var vf *c08Frame
	for _, ri := range Returns(h) {
		if idx >= len(ri.Results) {
			return nil, nil, c08Ctx{}, false
		}
		o, of := c08Static(kid).chain(kid, ri.Results[idx], nil)
		if val != nil && (o != val || of != vf) {
			return nil, nil, c08Ctx{}, false
		}
		val, vf = o, of
	}
	if val == nil {
		return nil, nil, c08Ctx{}, false
	}
	return val, vf, c08Ctx{}, true
}

func (ps *c08Pos) resolve(fr *c08Frame, v ssa.Value) (ssa.Value, *c08Frame) {
	return ps.chain(fr, v, nil)
}

// find: some stage of the resolution of v satisfies pred.
func (ps *c08Pos) find(fr *c08Frame, v ssa.Value, pred func(o ssa.Value, f *c08Frame) bool) bool {
	hit := false
	ps.chain(fr, v, func(o ssa.Value, f *c08Frame) bool {
		if pred(o, f) {
			hit = true
		}
		return hit
	})
	return hit
}

// cond strips the negations of a condition; the result is not resolved any
// further, so that every stage of it can still be inspected.
func (ps *c08Pos) cond(fr *c08Frame, v ssa.Value) (ssa.Value, *c08Frame, bool) {
	neg := false
	for i := 0; i < 8; i++ {
		var not *ssa.UnOp
		var nf *c08Frame
		ps.chain(fr, v, func(o ssa.Value, f *c08Frame) bool {
			if u, ok := o.(*ssa.UnOp); ok && u.Op == token.NOT {
				not, nf = u, f
				return true
			}
			return false
		})
		if not == nil {
			break
		}
		v, fr, neg = not.X, nf, !neg
	}
	return v, fr, neg
}

// c08XFact: a branch condition (of frame fr) known on every path to a block.
type c08XFact struct {
	fr   *c08Frame
	cond ssa.Value
	val  bool
}

// c08FactsX: the dominating facts at block b of frame fr, and at the calls
// through which fr was entered.
func c08FactsX(fr *c08Frame, b *ssa.BasicBlock) []c08XFact {
	var out []c08XFact
	for f, blk := fr, b; f != nil && blk != nil; {
		for _, x := range FactsAt(blk) {
			out = append(out, c08XFact{f, x.Cond, x.Val})
		}
		if f.call == nil {
			break
		}
		blk = f.call.Block()
		f = f.parent
	}
	return out
}

// c08NilFactX: what the facts at (fr, b) say about `is(v) == nil`.
func c08NilFactX(fr *c08Frame, b *ssa.BasicBlock, is func(ps *c08Pos, f *c08Frame, v ssa.Value) bool) (known, isNil bool) {
	for _, x := range c08FactsX(fr, b) {
		ps := c08Static(x.fr)
		cv, cf, neg := ps.cond(x.fr, x.cond)
		o, of := ps.resolve(cf, cv)
		bo, ok := o.(*ssa.BinOp)
		if !ok || (bo.Op != token.EQL && bo.Op != token.NEQ) {
			continue
		}
		var other ssa.Value
		switch {
		case IsNilConst(bo.Y):
			other = bo.X
		case IsNilConst(bo.X):
			other = bo.Y
		default:
			continue
		}
		if !is(ps, of, other) {
			continue
		}
		return true, ((bo.Op == token.EQL) == x.val) != neg
	}
	return false, false
}

// c08NilCond decides a comparison with nil whose other operand resolves, on
// this path, to the nil constant or to an expression that is never nil (what a
// followed helper returned as its error).
func c08NilCond(ps *c08Pos, fr *c08Frame, cond ssa.Value) (known, val bool) {
	cv, cf, neg := ps.cond(fr, cond)
	o, of := ps.resolve(cf, cv)
	bo, ok := o.(*ssa.BinOp)
	if !ok || (bo.Op != token.EQL && bo.Op != token.NEQ) {
		return false, false
	}
	var other ssa.Value
	switch {
	case IsNilConst(bo.Y):
		other = bo.X
	case IsNilConst(bo.X):
		other = bo.Y
	default:
		return false, false
	}
	isNil := false
	hit := ps.find(of, other, func(x ssa.Value, _ *c08Frame) bool {
		switch {
		case IsNilConst(x):
			isNil = true
			return true
		case isNonNilErrorExpr(x):
			return true
		}
		return false
	})
	if !hit {
		return false, false
	}
	return true, ((bo.Op == token.EQL) == isNil) != neg
}

// c08Walk explores the paths from an instruction to the exits of the root
// frame's function, entering the helpers of the effective body at their calls
// and coming back through their returns.
type c08Leak struct {
	exit ssa.Instruction
	via  []*ssa.BasicBlock
}

type c08Walk struct {
	stop     func(ps *c08Pos, fr *c08Frame, in ssa.Instruction) bool
	assume   func(ps *c08Pos, fr *c08Frame, cond ssa.Value) (known, val bool)
	exitOK   func(ps *c08Pos, fr *c08Frame, ret *ssa.Return) bool
	leaks    []c08Leak
	seen     map[string]bool
	steps    int
	overflow bool
}

func (w *c08Walk) run(fr *c08Frame, start ssa.Instruction) {
	var stack []c08Ctx
	stack = append(stack, c08Ctx{fr: fr, cur: start.Block()})
	for f := fr; f.parent != nil && f.call != nil; f = f.parent {
		stack = append([]c08Ctx{{fr: f.parent, cur: f.call.Block()}}, stack...)
	}
	w.seen = map[string]bool{}
	w.walk(&c08Pos{stack: stack}, start.Block(), instrIndex(start)+1, nil)
}

func (w *c08Walk) enterBlock(ps *c08Pos, from, to *ssa.BasicBlock, via []*ssa.BasicBlock) {
	top := ps.top()
	pi := -1
	if len(to.Instrs) > 0 {
		if _, hasPhi := to.Instrs[0].(*ssa.Phi); hasPhi {
			pi = c08BlockIndex(from)
		}
	}
	key := fmt.Sprintf("%p/%d/%d/%s", top.fr, to.Index, pi, ps.retsSig())
	if w.seen[key] {
		return
	}
	w.seen[key] = true
	st := append([]c08Ctx(nil), ps.stack...)
	st[len(st)-1] = c08Ctx{fr: top.fr, cur: to, prev: from}
	w.walk(&c08Pos{stack: st, rets: ps.rets}, to, 0, via)
}

func (w *c08Walk) walk(ps *c08Pos, b *ssa.BasicBlock, from int, via []*ssa.BasicBlock) {
	w.steps++
	if w.steps > 200000 {
		w.overflow = true
		return
	}
	via = append(via[:len(via):len(via)], b)
	top := ps.top()
	for i := from; i < len(b.Instrs); i++ {
		in := b.Instrs[i]
		if w.stop(ps, top.fr, in) {
			return
		}
		switch t := in.(type) {
		case *ssa.Call:
			h := c08HelperOf(CallSite{top.fr.fn, t})
			if h == nil {
				continue
			}
			kid := top.fr.enter(t, h)
			if kid == nil {
				continue
			}
			st := append(append([]c08Ctx(nil), ps.stack...), c08Ctx{fr: kid, cur: h.Blocks[0]})
			w.walk(&c08Pos{stack: st, rets: ps.rets}, h.Blocks[0], 0, via)
			return
		case *ssa.Return:
			if len(ps.stack) > 1 && top.fr.call != nil {
				call, _ := top.fr.call.(*ssa.Call)
				np := &c08Pos{stack: append([]c08Ctx(nil), ps.stack[:len(ps.stack)-1]...), rets: ps.rets}
				if call != nil {
					np.rets = &c08Ret{call: call, caller: top.fr.parent, kid: top.fr, ret: t, prev: top.prev, next: ps.rets}
				}
				key := fmt.Sprintf("cont/%p/%s", top.fr, np.retsSig())
				if w.seen[key] {
					return
				}
				w.seen[key] = true
				w.walk(np, top.fr.call.Block(), instrIndex(top.fr.call)+1, via)
				return
			}
			if w.exitOK == nil || !w.exitOK(ps, top.fr, t) {
				w.leaks = append(w.leaks, c08Leak{t, append([]*ssa.BasicBlock(nil), via...)})
			}
			return
		case *ssa.Panic:
			return
		case *ssa.If:
			if w.assume != nil && len(b.Succs) == 2 {
				known, val := c08NilCond(ps, top.fr, t.Cond)
				if !known {
					known, val = w.assume(ps, top.fr, t.Cond)
				}
				if known {
					s := b.Succs[1]
					if val {
						s = b.Succs[0]
					}
					w.enterBlock(ps, b, s, via)
					return
				}
			}
		}
	}
	for _, s := range b.Succs {
		w.enterBlock(ps, b, s, via)
	}
}

// ---------------------------------------------------------------------------
// the executor (Query): P-match, P-limit, P-postsort, P-truncate
//
// The executor is found by role: the function that calls the planner. Its
// effective body is searched for the one call of <planner result>.send; the
// callback handed to it may be a literal, a declared function or a bound
// method (then the state the literal captured lives in the receiver's fields,
// which are resolved through their single stores).

type c08Exec struct {
	p        *Program
	w        *c08World
	root     *c08Frame
	fn       *ssa.Function
	pickCall *ssa.Call
	qRecv    ssa.Value
	sendFr   *c08Frame
	sendCall CallSite
	cbFr     *c08Frame
	callback *ssa.Function
}

// isCands: v is the candidateSource the planner returned.
func (e *c08Exec) isCands(ps *c08Pos, fr *c08Frame, v ssa.Value) bool {
	return e.isCandsD(ps, fr, v, 0)
}

func (e *c08Exec) isCandsD(ps *c08Pos, fr *c08Frame, v ssa.Value, depth int) bool {
	return ps.find(fr, v, func(o ssa.Value, f *c08Frame) bool {
		if o == ssa.Value(e.pickCall) {
			return true
		}
		// a load of a variable that holds the planner's result
		if ld, ok := o.(*ssa.UnOp); ok && ld.Op == token.MUL && depth < c08MaxDepth {
			if _, isFA := ld.X.(*ssa.FieldAddr); !isFA {
				return e.holdsCandsD(ps, f, ld.X, depth+1)
			}
		}
		return false
	})
}

// holdsCands: addr is the address of a variable whose only assignment is the
// planner's result (cands itself, a copy of it, a by-value or pointer parameter).
func (e *c08Exec) holdsCands(ps *c08Pos, fr *c08Frame, addr ssa.Value) bool {
	return e.holdsCandsD(ps, fr, addr, 0)
}

func (e *c08Exec) holdsCandsD(ps *c08Pos, fr *c08Frame, addr ssa.Value, depth int) bool {
	a, af := ps.resolve(fr, addr)
	cell, ok := varOf(a)
	if !ok {
		return false
	}
	al, ok := cell.(*ssa.Alloc)
	if !ok {
		return false
	}
	sts := storesTo(al)
	if len(sts) != 1 {
		return false
	}
	g := af.of(al)
	if g == nil {
		return false
	}
	return e.isCandsD(ps, g, sts[0].Val, depth)
}

// isCandsField: v is field `field` of the planner's result.
func (e *c08Exec) isCandsField(ps *c08Pos, fr *c08Frame, v ssa.Value, field string) bool {
	return ps.find(fr, v, func(o ssa.Value, f *c08Frame) bool {
		switch x := o.(type) {
		case *ssa.UnOp:
			base, n, fl, ok := c08FieldLoad(x)
			if !ok || fl != field || !c08Src.is(n) {
				return false
			}
			return e.holdsCands(ps, f, base)
		case *ssa.Field:
			n, _ := x.X.Type().(*types.Named)
			if !c08Src.is(n) || fieldName(x.X.Type(), x.Field) != field {
				return false
			}
			return e.isCands(ps, f, x.X)
		}
		return false
	})
}

// isQField: v is field `field` of the SearchQuery the planner was called on.
func (e *c08Exec) isQField(ps *c08Pos, fr *c08Frame, v ssa.Value, field string) bool {
	return ps.find(fr, v, func(o ssa.Value, f *c08Frame) bool {
		base, n, fl, ok := c08FieldLoad(o)
		if !ok || fl != field || !c08IsType(n, c08Pkg, "SearchQuery") {
			return false
		}
		b, _ := ps.resolve(f, base)
		return b == e.qRecv
	})
}

func c08IsQueryField(v ssa.Value, typ, field string) bool {
	_, n, f, ok := c08FieldLoad(v)
	return ok && f == field && c08IsType(n, c08Pkg, typ)
}

func c08FindField(ps *c08Pos, fr *c08Frame, v ssa.Value, typ, field string) bool {
	return ps.find(fr, v, func(o ssa.Value, f *c08Frame) bool { return c08IsQueryField(o, typ, field) })
}

func c08IsLenOfBlobs(ps *c08Pos, fr *c08Frame, v ssa.Value) bool {
	return ps.find(fr, v, func(o ssa.Value, f *c08Frame) bool {
		c, ok := o.(*ssa.Call)
		if !ok {
			return false
		}
		b, isB := c.Call.Value.(*ssa.Builtin)
		return isB && b.Name() == "len" && len(c.Call.Args) == 1 && c08FindField(ps, f, c.Call.Args[0], "SearchResult", "Blobs")
	})
}

func c08IsSortCall(c CallSite) bool {
	for _, n := range []string{"Sort", "Stable", "Slice", "SliceStable"} {
		if c.IsStatic("sort", "", n) {
			return true
		}
	}
	for _, n := range []string{"SortFunc", "SortStableFunc", "Sort"} {
		if c.IsStatic("slices", "", n) {
			return true
		}
	}
	return false
}

// storeToBlobs: in is `X.Blobs = v` for a SearchResult X; returns v.
func c08StoreToBlobs(in ssa.Instruction) ssa.Value {
	st, ok := in.(*ssa.Store)
	if !ok {
		return nil
	}
	fa, ok := st.Addr.(*ssa.FieldAddr)
	if !ok {
		return nil
	}
	_, n, f, ok := c08FieldAddr(fa)
	if !ok || f != "Blobs" || !c08IsType(n, c08Pkg, "SearchResult") {
		return nil
	}
	return st.Val
}

func c08FindExec(p *Program, r *Reporter, w *c08World, pick *ssa.Function) []*c08Exec {
	var out []*c08Exec
	for _, cs := range p.StaticCallers(pick) {
		if IsTestSupportPkg(RelPkg(cs.Fn.Pkg.Pkg)) {
			continue
		}
		key := FuncKey(cs.Fn)
		site := p.Pos(cs.Pos())
		call := cs.Value()
		if call == nil || len(call.Call.Args) == 0 {
			r.Undecided("P-limit", key+"#pick", site, "pickCandidateSource started by go/defer")
			continue
		}
		root := w.root(cs.Fn)
		e := &c08Exec{p: p, w: w, root: root, fn: cs.Fn, pickCall: call}
		e.qRecv, _ = c08Static(root).resolve(root, call.Call.Args[0])
		n := 0
		for _, fr := range root.tree() {
			ps := c08Static(fr)
			for _, c := range CallsIn(fr.fn, false) {
				if c.Common().IsInvoke() || c.Common().StaticCallee() != nil {
					continue
				}
				if e.isCandsField(ps, fr, c.Common().Value, c08Src.send) {
					n++
					e.sendFr, e.sendCall = fr, c
				}
			}
		}
		if n != 1 || e.sendCall.Value() == nil {
			r.Undecided("P-limit", key+"#send", site, fmt.Sprintf("expected exactly one direct call of <planner result>.send in the executor's effective body, found %d", n))
			continue
		}
		// the callback
		nf := 0
		ps := c08Static(e.sendFr)
		for _, a := range e.sendCall.Common().Args {
			if _, isSig := a.Type().Underlying().(*types.Signature); !isSig {
				continue
			}
			nf++
			o, f := ps.resolve(e.sendFr, a)
			switch x := o.(type) {
			case *ssa.MakeClosure:
				fn := x.Fn.(*ssa.Function)
				if t := c08BoundTarget(fn); t != nil && len(x.Bindings) == 1 && len(t.Blocks) > 0 {
					e.callback, e.cbFr = t, f.callback(t, x.Bindings[0])
				} else if len(fn.Blocks) > 0 && fn.Synthetic == "" {
					e.callback, e.cbFr = fn, f.callback(fn, nil)
				}
			case *ssa.Function:
				if len(x.Blocks) > 0 && x.Synthetic == "" {
					e.callback, e.cbFr = x, f.callback(x, nil)
				}
			}
		}
		if nf != 1 || e.callback == nil {
			r.Undecided("P-limit", key+"#callback", site, "the callback passed to <planner result>.send is not a single function literal, declared function or bound method")
			continue
		}
		out = append(out, e)
	}
	return out
}

func c08RuleExecutor(p *Program, r *Reporter, e *c08Exec, sorts map[int64]string) {
	key := FuncKey(e.fn)
	cb := e.callback
	matcherFn := p.Func(c08Pkg, "Constraint", "matcher")
	cbFrames := e.cbFr.tree()
	r.Analysed("executor_frames", len(cbFrames)+len(e.root.tree()))

	// --- the matcher call inside the callback's effective body
	var mcall *ssa.Call
	nm := 0
	for _, fr := range cbFrames {
		ps := c08Static(fr)
		for _, c := range CallsIn(fr.fn, false) {
			if c.Common().IsInvoke() || c.Value() == nil || c.Common().StaticCallee() != nil {
				continue
			}
			var src *ssa.Call
			var sf *c08Frame
			ps.find(fr, c.Common().Value, func(o ssa.Value, f *c08Frame) bool {
				if x, ok := o.(*ssa.Call); ok && x.Call.StaticCallee() == matcherFn {
					src, sf = x, f
					return true
				}
				return false
			})
			if src == nil {
				continue
			}
			mcall = c.Value()
			nm++
			// same constraint as the planner
			okSame := len(src.Call.Args) == 1 && ps.find(sf, src.Call.Args[0], func(o ssa.Value, f *c08Frame) bool {
				base, n, fl, ok := c08FieldLoad(o)
				if !ok || fl != "Constraint" || !c08IsType(n, c08Pkg, "SearchQuery") {
					return false
				}
				b, _ := ps.resolve(f, base)
				return b == e.qRecv
			})
			r.Check(okSame, "P-source-superset", key+"#same-constraint", p.Pos(src.Pos()),
				"the matcher is compiled from the Constraint of the very SearchQuery the planner was called on",
				"the matcher applied to the candidates is not compiled from <planner receiver>.Constraint: the planner's restriction is justified by a different constraint than the one matched")
		}
	}
	if nm != 1 {
		r.Undecided("P-match", key+"#matcher", p.Pos(cb.Pos()), fmt.Sprintf("expected exactly one call of the compiled matcher in the enumeration callback's effective body, found %d", nm))
		return
	}
	matchVal := ResultValue(mcall, 0)
	errVal := ResultValue(mcall, 1)

	isVal := func(want ssa.Value) func(ps *c08Pos, f *c08Frame, v ssa.Value) bool {
		return func(ps *c08Pos, f *c08Frame, v ssa.Value) bool {
			return want != nil && ps.find(f, v, func(o ssa.Value, _ *c08Frame) bool { return o == want })
		}
	}
	underMatch := func(fr *c08Frame, b *ssa.BasicBlock) bool {
		for _, x := range c08FactsX(fr, b) {
			ps := c08Static(x.fr)
			cv, cf, neg := ps.cond(x.fr, x.cond)
			if x.val != neg && isVal(matchVal)(ps, cf, cv) {
				return true
			}
		}
		return false
	}
	underSorted := func(fr *c08Frame, b *ssa.BasicBlock) bool {
		for _, x := range c08FactsX(fr, b) {
			ps := c08Static(x.fr)
			cv, cf, neg := ps.cond(x.fr, x.cond)
			if x.val != neg && e.isCandsField(ps, cf, cv, c08Src.sorted) {
				return true
			}
		}
		return false
	}
	errPath := func(fr *c08Frame, b *ssa.BasicBlock) bool {
		k, isNil := c08NilFactX(fr, b, isVal(errVal))
		return k && !isNil
	}
	errNil := func(fr *c08Frame, b *ssa.BasicBlock) bool {
		k, isNil := c08NilFactX(fr, b, isVal(errVal))
		return k && isNil
	}
	mayLose := func(fr *c08Frame, b *ssa.BasicBlock) bool { return errPath(fr, b) || underSorted(fr, b) }

	// --- P-match and P-limit over the callback's effective body
	nAppend, nLose := 0, 0
	for _, fr := range cbFrames {
		ps := c08Static(fr)
		for _, b := range fr.fn.Blocks {
			for _, in := range b.Instrs {
				v := c08StoreToBlobs(in)
				if v == nil {
					continue
				}
				o, _ := ps.resolve(fr, v)
				switch x := o.(type) {
				case *ssa.Call:
					if bi, ok := x.Call.Value.(*ssa.Builtin); ok && bi.Name() == "append" {
						nAppend++
						r.Check(underMatch(fr, b) && errNil(fr, b), "P-match", fmt.Sprintf("%s#append/%d", key, nAppend), p.Pos(in.Pos()),
							"result appended only where the matcher returned (true, nil)",
							"a candidate is appended to res.Blobs on a path where the matcher did not return (true, nil): non-matching blobs would be returned")
						continue
					}
					r.Undecided("P-limit", fmt.Sprintf("%s#blobs-store/%s", key, x.Name()), p.Pos(in.Pos()), "res.Blobs assigned from a call the rule does not model")
				case *ssa.Slice:
					nLose++
					r.Check(mayLose(fr, b), "P-limit", fmt.Sprintf("%s#shrink/%d", key, nLose), p.Pos(in.Pos()),
						"res.Blobs is shrunk during enumeration only under fact cands.sorted",
						"res.Blobs is shrunk during enumeration without the fact cands.sorted: with an unsorted source arbitrary matches are dropped before the post-sort")
				case *ssa.Const:
					nLose++
					r.Check(mayLose(fr, b), "P-limit", fmt.Sprintf("%s#shrink/%d", key, nLose), p.Pos(in.Pos()),
						"res.Blobs is reset during enumeration only under fact cands.sorted", "res.Blobs is reset during enumeration without the fact cands.sorted")
				default:
					r.Undecided("P-limit", fmt.Sprintf("%s#blobs-store", key), p.Pos(in.Pos()), "res.Blobs assigned a value the rule does not model: "+v.String())
				}
			}
		}
	}
	// every value the callback may return: false stops the enumeration
	var stopOK func(fr *c08Frame, v ssa.Value, b *ssa.BasicBlock, depth int) bool
	stopOK = func(fr *c08Frame, v ssa.Value, b *ssa.BasicBlock, depth int) bool {
		if mayLose(fr, b) {
			return true
		}
		o, f := c08Static(fr).resolve(fr, v)
		if cv, ok := c08ConstBool(o); ok && cv {
			return true // "continue enumerating" never loses a result
		}
		if depth > 6 {
			return false
		}
		switch x := o.(type) {
		case *ssa.Phi:
			for i, ed := range x.Edges {
				if !stopOK(f, ed, x.Block().Preds[i], depth+1) {
					return false
				}
			}
			return true
		case *ssa.Call:
			h := c08HelperOf(CallSite{f.fn, x})
			if h == nil || h.Signature.Results().Len() != 1 {
				return false
			}
			kid := f.enter(x, h)
			if kid == nil {
				return false
			}
			for _, ri := range Returns(h) {
				if len(ri.Results) != 1 || !stopOK(kid, ri.Results[0], ri.Ret.Block(), depth+1) {
					return false
				}
			}
			return true
		}
		return false
	}
	nStop := 0
	for _, ri := range Returns(cb) {
		if len(ri.Results) != 1 {
			continue
		}
		if cv, ok := c08ConstBool(originValue(ri.Results[0])); ok && cv {
			continue
		}
		nStop++
		nLose++
		r.Check(stopOK(e.cbFr, ri.Results[0], ri.Ret.Block(), 0), "P-limit", fmt.Sprintf("%s#stop/%d", key, nStop), p.Pos(ri.Ret.Pos()),
			"enumeration is stopped early only on the matcher-error path or under fact cands.sorted",
			"the callback may return false (stop the enumeration) without the fact cands.sorted and not on the error path: with an unsorted source the remaining candidates, which may sort first, are never seen")
	}
	r.Floor("P-match", 1)
	r.Floor("P-limit", 5)

	// --- P-postsort / P-truncate in the executor's effective body
	exitOK := func(ps *c08Pos, fr *c08Frame, ret *ssa.Return) bool {
		hasRes := false
		for i, rv := range ret.Results {
			if pt, ok := rv.Type().(*types.Pointer); ok && c08IsType(NamedOf(pt.Elem()), c08Pkg, "SearchResult") {
				hasRes = true
				o, _ := ps.resolve(fr, resolveReturnValue(ret.Results[i], ret))
				if IsNilConst(o) {
					return true // no result returned
				}
			}
		}
		if hasRes {
			return false
		}
		// an executor split off the entry point that reports through its error only
		if n := len(ret.Results); n > 0 && isErrorType(ret.Results[n-1].Type()) {
			v := resolveReturnValue(ret.Results[n-1], ret)
			if isNonNilErrorExpr(v) {
				return true
			}
			if k, isNil := NilFact(ret.Block(), v); k && !isNil {
				return true
			}
		}
		return false
	}
	noOrder := map[string]string{
		"UnspecifiedSort": "no order requested",
		"Unsorted":        "no order requested",
		"MapSort":         "a selection (bestByLocation), not an order",
	}
	var ks []int64
	for k := range sorts {
		ks = append(ks, k)
	}
	sort.Slice(ks, func(i, j int) bool { return ks[i] < ks[j] })
	for _, k := range ks {
		name := sorts[k]
		opaque := false
		// concrete model for P-truncate: 0 < Limit < len(res.Blobs), with wide gaps so
		// that comparisons against small literals come out the same for any such world
		const modelLimit, modelLen = int64(1) << 20, int64(1) << 21
		model := func(ps *c08Pos, fr *c08Frame, v ssa.Value) (int64, bool) {
			if o, _ := ps.resolve(fr, v); o != nil {
				if n, ok := ConstInt(o); ok && n >= 0 && n < 1<<10 {
					return n, true
				}
			}
			if c08FindField(ps, fr, v, "SearchQuery", "Limit") {
				return modelLimit, true
			}
			if c08IsLenOfBlobs(ps, fr, v) {
				return modelLen, true
			}
			return 0, false
		}
		mkAssume := func(withLimit bool) func(ps *c08Pos, fr *c08Frame, cond ssa.Value) (bool, bool) {
			return func(ps *c08Pos, fr *c08Frame, cond ssa.Value) (bool, bool) {
				cv, cf, neg := ps.cond(fr, cond)
				if e.isCandsField(ps, cf, cv, c08Src.sorted) {
					return true, neg // sorted == false
				}
				o, of := ps.resolve(cf, cv)
				if bv, ok := c08ConstBool(o); ok {
					return true, bv != neg
				}
				if bo, ok := o.(*ssa.BinOp); ok {
					x, y := bo.X, bo.Y
					for side := 0; side < 2; side++ {
						if side == 1 {
							x, y = y, x
						}
						if e.isQField(ps, of, x, "Sort") {
							if yo, _ := ps.resolve(of, y); yo != nil {
								if c, ok := ConstInt(yo); ok {
									l, rr := k, c
									if side == 1 {
										l, rr = c, k
									}
									if res, ok := c08Cmp(bo.Op, l, rr); ok {
										return true, res != neg
									}
								}
							}
							opaque = true
							return false, false
						}
					}
					if withLimit {
						mx, okx := model(ps, of, bo.X)
						my, oky := model(ps, of, bo.Y)
						if okx && oky && (mx >= modelLimit || my >= modelLimit) {
							if res, ok := c08Cmp(bo.Op, mx, my); ok {
								return true, res != neg
							}
						}
					}
				}
				var dep func(v ssa.Value, f *c08Frame, d int) bool
				dep = func(v ssa.Value, f *c08Frame, d int) bool {
					return DependsOn(v, func(y ssa.Value) bool {
						if _, n, fl, ok := c08FieldLoad(y); ok && fl == c08Src.sorted && c08Src.is(n) {
							return true
						}
						if c08IsQueryField(y, "SearchQuery", "Sort") {
							return true
						}
						if prm, ok := y.(*ssa.Parameter); ok && d < c08MaxDepth {
							if g := f.of(prm); g != nil && g.parent != nil {
								if b, ok := g.bind[prm]; ok {
									return dep(b, g.parent, d+1)
								}
							}
						}
						return false
					})
				}
				if dep(o, of, 0) {
					opaque = true
				}
				return false, false
			}
		}
		report := func(rule, construct string, wk *c08Walk, okDetail, badDetail string) {
			site := p.Pos(e.sendCall.Pos())
			if wk.overflow {
				r.Undecided(rule, construct, site, "the paths of the executor's effective body are too many to explore")
				return
			}
			if len(wk.leaks) == 0 {
				r.OK(rule, construct, site, okDetail)
				return
			}
			var via []string
			for _, l := range wk.leaks {
				via = append(via, "exit at "+p.Pos(l.exit.Pos())+" via blocks "+blockNames(l.via))
			}
			if opaque {
				r.Undecided(rule, construct, site, "a branch on cands.sorted / q.Sort could not be interpreted; "+strings.Join(via, "; "))
				return
			}
			r.Violation(rule, construct, p.Pos(wk.leaks[0].exit.Pos()), badDetail+": "+strings.Join(via, "; "))
		}
		// P-postsort
		c := key + "#unsorted+" + name
		if why, ok := noOrder[name]; ok {
			r.OKTable("P-postsort", c, p.Pos(e.sendCall.Pos()), "no post-sort needed: "+why)
		} else {
			opaque = false
			wk := &c08Walk{
				stop: func(ps *c08Pos, fr *c08Frame, in ssa.Instruction) bool {
					ci, ok := in.(ssa.CallInstruction)
					return ok && c08IsSortCall(CallSite{fr.fn, ci})
				},
				assume: mkAssume(false),
				exitOK: exitOK,
			}
			wk.run(e.sendFr, e.sendCall.Instr)
			report("P-postsort", c, wk,
				"with an unsorted source and q.Sort=="+name+" every path from the enumeration to a non-nil result passes a sort call (or the query is refused)",
				"with an unsorted source and q.Sort=="+name+" a result is returned without passing any sort call")
		}
		// P-truncate
		if name == "MapSort" {
			r.OKTable("P-truncate", c, p.Pos(e.sendCall.Pos()), "MapSort: the limit is applied by bestByLocation (not decided)")
			continue
		}
		opaque = false
		wk := &c08Walk{
			stop: func(ps *c08Pos, fr *c08Frame, in ssa.Instruction) bool {
				v := c08StoreToBlobs(in)
				if v == nil {
					return false
				}
				o, _ := ps.resolve(fr, v)
				sl, ok := o.(*ssa.Slice)
				return ok && sl.High != nil
			},
			assume: mkAssume(true),
			exitOK: exitOK,
		}
		wk.run(e.sendFr, e.sendCall.Instr)
		report("P-truncate", c, wk,
			"with an unsorted source, q.Sort=="+name+" and 0<Limit<len(res.Blobs) every path to a non-nil result re-slices res.Blobs with an upper bound (or the query is refused)",
			"with an unsorted source, q.Sort=="+name+" and 0<Limit<len(res.Blobs) a result is returned without truncating res.Blobs")
	}
	r.Floor("P-postsort", len(sorts)-1)
	r.Floor("P-truncate", len(sorts)-1)
}

// ---------------------------------------------------------------------------
// P-memo: a skip-memo of the matchers may only remember evaluations that were
// actually carried out.
//
// A *skip guard* is a branch on a map membership test m[k] whose "found" edge
// bypasses a matcher call on that same k which the "not found" edge reaches.
// Every value that can become a key of m (directly, or through variables that
// feed the map update, like lastChecked) is a *mark*. A mark of k is sound
// only if the evaluation it stands for completed: the mark is dominated by a
// successful matcher call on k, or every path from the mark to an exit of the
// callback after which the guard can be consulted again passes such a call.

// c08MatchSig is the signature behind pkg/search.matchFn.
func c08MatchSig(p *Program) *types.Signature {
	// by role: what (*Constraint).matcher() hands out
	mfn := p.Func(c08Pkg, "Constraint", "matcher")
	if res := mfn.Signature.Results(); res.Len() == 1 {
		if sig, ok := res.At(0).Type().Underlying().(*types.Signature); ok {
			return sig
		}
	}
	brokenf("anchor unresolved: pkg/search.(*Constraint).matcher does not return one function")
	return nil
}

func c08IsBool(t types.Type) bool {
	b, ok := t.Underlying().(*types.Basic)
	return ok && b.Kind() == types.Bool
}

func c08IsBlobRef(t types.Type) bool {
	if _, isPtr := t.(*types.Pointer); isPtr {
		return false
	}
	return IsNamed(t, modPrefix+"pkg/blob", "Ref")
}

// c08VerdictOn: the call asks a matcher for a verdict on blob k — one of its
// blob.Ref arguments is k and its callee has the matchFn signature (compiled
// matchers, blobMatches methods, bound or not), or is a pkg/search function
// working on a *search and returning (bool) or (bool, error), like
// (*RelationConstraint).match, or is a helper / local literal with such results
// that itself asks for a verdict on the parameter k is passed as.
func c08VerdictOn(c CallSite, k ssa.Value, matchSig *types.Signature, depth int) bool {
	if c.Value() == nil || c.Common().IsInvoke() {
		return false
	}
	sig := c.Common().Signature()
	if sig == nil {
		return false
	}
	res := sig.Results()
	switch {
	case res.Len() == 1 && c08IsBool(res.At(0).Type()):
	case res.Len() == 2 && c08IsBool(res.At(0).Type()) && isErrorType(res.At(1).Type()):
	default:
		return false
	}
	ko := originValue(k)
	var at []int
	for i, a := range c.Common().Args {
		if c08IsBlobRef(a.Type()) && originValue(a) == ko {
			at = append(at, i)
		}
	}
	if len(at) == 0 {
		return false
	}
	if types.Identical(sig, matchSig) {
		return true
	}
	if f := c.Common().StaticCallee(); f != nil && f.Pkg != nil && RelPkg(f.Pkg.Pkg) == c08Pkg {
		hasSearch := sig.Recv() != nil && IsNamed(sig.Recv().Type(), modPrefix+c08Pkg, "search")
		for i := 0; i < sig.Params().Len(); i++ {
			if IsNamed(sig.Params().At(i).Type(), modPrefix+c08Pkg, "search") {
				hasSearch = true
			}
		}
		if hasSearch {
			return true
		}
	}
	callee := c.Callee()
	if callee == nil || callee.Blocks == nil || !InModule(callee) || depth >= 3 {
		return false
	}
	for _, i := range at {
		if i >= len(callee.Params) {
			continue
		}
		for _, c2 := range CallsIn(callee, false) {
			if c08VerdictOn(c2, callee.Params[i], matchSig, depth+1) {
				return true
			}
		}
	}
	return false
}

// c08LocalLoad resolves a load that directly follows a store to the same
// address in its block (no call in between): `*err = t; x = *err` gives t.
func c08LocalLoad(v ssa.Value) ssa.Value {
	ld, ok := v.(*ssa.UnOp)
	if !ok || ld.Op != token.MUL || ld.Block() == nil {
		return v
	}
	ins := ld.Block().Instrs
	for i := instrIndex(ld) - 1; i >= 0; i-- {
		switch x := ins[i].(type) {
		case *ssa.Store:
			if c08SameAddr(x.Addr, ld.X) {
				return x.Val
			}
		case ssa.CallInstruction:
			return v
		}
	}
	return v
}

// c08SameAddr: the same address value, or the same field of the same struct
// pointer computed twice (`st.err = e; if st.err != nil`).
func c08SameAddr(a, b ssa.Value) bool {
	if a == b {
		return true
	}
	fa, ok1 := a.(*ssa.FieldAddr)
	fb, ok2 := b.(*ssa.FieldAddr)
	return ok1 && ok2 && fa.Field == fb.Field && originValue(fa.X) == originValue(fb.X)
}

// c08SuccessAt: every path to block b has passed call e and e's error result,
// if it has one, is known nil in b.
func c08SuccessAt(e *ssa.Call, b *ssa.BasicBlock) bool {
	if e.Block() != b && !e.Block().Dominates(b) {
		return false
	}
	ev, hasErr, discarded := ErrValue(e)
	if !hasErr {
		return true
	}
	if discarded || ev == nil {
		return false
	}
	for _, f := range FactsAt(b) {
		cond, val := f.Cond, f.Val
		for {
			u, ok := cond.(*ssa.UnOp)
			if !ok || u.Op != token.NOT {
				break
			}
			cond, val = u.X, !val
		}
		bo, ok := cond.(*ssa.BinOp)
		if !ok || (bo.Op != token.EQL && bo.Op != token.NEQ) {
			continue
		}
		var other ssa.Value
		switch {
		case IsNilConst(bo.Y):
			other = bo.X
		case IsNilConst(bo.X):
			other = bo.Y
		default:
			continue
		}
		if !(sameOrigin(other, ev) || originValue(c08LocalLoad(other)) == ev) {
			continue
		}
		// the fact must have been established after the call
		if f.At != e.Block() && !e.Block().Dominates(f.At) {
			continue
		}
		if (bo.Op == token.EQL) == val {
			return true
		}
	}
	return false
}

// c08MemoWorld is set for the duration of c08RuleMemo.
var c08MemoWorld *c08World

// c08MemoFuncs: the functions that can touch the memo of guard g: the function
// family for a memo in a local variable, the creator and the methods of the
// state struct for a memo in a state field.
func c08MemoFuncs(g *c08Guard) []*ssa.Function {
	k, ok := g.id.(c08FieldKey)
	if !ok || c08MemoWorld == nil {
		return c08Family(g.fn)
	}
	si := c08MemoWorld.state[k.named]
	if si == nil || !si.ok {
		return c08Family(g.fn)
	}
	out := c08Family(si.creator)
	var ms []*ssa.Function
	for m := range si.methods {
		ms = append(ms, m)
	}
	sort.Slice(ms, func(i, j int) bool { return FuncKey(ms[i]) < FuncKey(ms[j]) })
	for _, m := range ms {
		out = append(out, c08Family(m)...)
	}
	return out
}

// c08Family: fn's outermost enclosing function and all its literals.
func c08Family(fn *ssa.Function) []*ssa.Function {
	var out []*ssa.Function
	var walk func(f *ssa.Function)
	walk = func(f *ssa.Function) {
		out = append(out, f)
		for _, a := range f.AnonFuncs {
			walk(a)
		}
	}
	walk(TopFunc(fn))
	return out
}

// c08MapID identifies the map a Lookup / MapUpdate works on: the variable
// holding it (also when captured), a field path, or the value's origin.
// local = the map lives in a variable declared in the function family (a fresh
// map per invocation of the outermost function).
func c08MapID(m ssa.Value) (id any, name string, local bool) {
	if ld, ok := m.(*ssa.UnOp); ok && ld.Op == token.MUL && c08MemoWorld != nil {
		// a field of the state struct of one invocation (a closure turned into a method)
		if fa, isFA := ld.X.(*ssa.FieldAddr); isFA {
			if k, ok := c08FieldKeyOf(fa); ok && c08MemoWorld.stateOf(fa).ok {
				return k, fieldName(fa.X.Type(), fa.Field), true
			}
		}
	}
	if ld, ok := m.(*ssa.UnOp); ok && ld.Op == token.MUL {
		if cell, ok := varOf(ld.X); ok {
			if al, isAl := cell.(*ssa.Alloc); isAl {
				return cell, al.Comment, true
			}
			return cell, cell.Name(), false
		}
		if ap := AccessPath(m); !strings.HasPrefix(ap, "?") {
			return ap, ap, false
		}
	}
	o := originValue(m)
	if ld, ok := o.(*ssa.UnOp); ok && ld.Op == token.MUL {
		if ap := AccessPath(o); !strings.HasPrefix(ap, "?") {
			return ap, ap, false
		}
	}
	if lk, ok := o.(*ssa.Lookup); ok { // an inner map of a map of maps
		_, n, _ := c08MapID(lk.X)
		return o, n + "[]", false
	}
	if ex, ok := o.(*ssa.Extract); ok {
		if lk, ok := ex.Tuple.(*ssa.Lookup); ok && ex.Index == 0 {
			_, n, _ := c08MapID(lk.X)
			return o, n + "[]", false
		}
	}
	if mk, ok := o.(*ssa.MakeMap); ok {
		return o, "map made in " + mk.Parent().Name(), true
	}
	return o, o.Name(), false
}

// c08MentionsBlobRef: t is blob.Ref or a struct with a blob.Ref field.
func c08MentionsBlobRef(t types.Type, depth int) bool {
	if c08IsBlobRef(t) {
		return true
	}
	if st, ok := t.Underlying().(*types.Struct); ok && depth < 2 {
		for i := 0; i < st.NumFields(); i++ {
			if c08MentionsBlobRef(st.Field(i).Type(), depth+1) {
				return true
			}
		}
	}
	return false
}

// c08CallDesc names the callee of a verdict call, also when it is a function value.
func c08CallDesc(c CallSite) string {
	if c.Common().StaticCallee() != nil {
		return c.CalleeKey()
	}
	if ap := AccessPath(c.Common().Value); !strings.HasPrefix(ap, "?") {
		return ap + "(...) [" + c.Common().Value.Type().String() + "]"
	}
	return "a " + c.Common().Value.Type().String() + " value"
}

type c08Guard struct {
	fn         *ssa.Function
	ifi        *ssa.If
	lookup     *ssa.Lookup
	found      *ssa.BasicBlock // successor when the key is in the map
	miss       *ssa.BasicBlock
	id         any
	name       string
	local      bool
	setLike    bool
	bypassed   []CallSite // verdict calls on the key reached only when the key is not in the map
	foundLeave bool       // the found edge reaches no call at all before leaving
}

// c08Guards lists the branches of fn on a map membership test.
func c08Guards(fn *ssa.Function, matchSig *types.Signature) (guards []*c08Guard, otherMapBranches int) {
	for _, b := range fn.Blocks {
		if len(b.Instrs) == 0 || len(b.Succs) != 2 || b.Succs[0] == b.Succs[1] {
			continue
		}
		ifi, ok := b.Instrs[len(b.Instrs)-1].(*ssa.If)
		if !ok {
			continue
		}
		cond, val := ifi.Cond, true
		for {
			u, ok := cond.(*ssa.UnOp)
			if !ok || u.Op != token.NOT {
				break
			}
			cond, val = u.X, !val
		}
		var lk *ssa.Lookup
		switch x := cond.(type) {
		case *ssa.Lookup:
			if !x.CommaOk {
				lk = x
			}
		case *ssa.Extract:
			if l, ok := x.Tuple.(*ssa.Lookup); ok && l.CommaOk && x.Index == 1 {
				lk = l
			}
		}
		var mt *types.Map
		if lk != nil {
			mt, _ = lk.X.Type().Underlying().(*types.Map)
		}
		if lk == nil || mt == nil {
			if DependsOn(ifi.Cond, func(v ssa.Value) bool {
				l, ok := v.(*ssa.Lookup)
				if !ok {
					return false
				}
				_, isMap := l.X.Type().Underlying().(*types.Map)
				return isMap
			}) {
				otherMapBranches++
			}
			continue
		}
		g := &c08Guard{fn: fn, ifi: ifi, lookup: lk}
		g.found, g.miss = b.Succs[0], b.Succs[1]
		if !val {
			g.found, g.miss = g.miss, g.found
		}
		g.id, g.name, g.local = c08MapID(lk.X)
		if c08IsBool(mt.Elem()) {
			g.setLike = true
		} else if st, ok := mt.Elem().Underlying().(*types.Struct); ok && st.NumFields() == 0 {
			g.setLike = true
		}
		// within one iteration: do not walk through the guard again (loop back edges)
		fromFound, fromMiss := c08BlocksFromNotThrough(g.found, b), c08BlocksFromNotThrough(g.miss, b)
		g.foundLeave = true
		for fb := range fromFound {
			for _, in := range fb.Instrs {
				if _, ok := in.(ssa.CallInstruction); ok {
					g.foundLeave = false
				}
			}
		}
		for _, c := range CallsIn(fn, false) {
			if !c08VerdictOn(c, lk.Index, matchSig, 0) {
				continue
			}
			if fromMiss[c.Block()] && !fromFound[c.Block()] {
				g.bypassed = append(g.bypassed, c)
			}
		}
		guards = append(guards, g)
	}
	return
}

// c08BlocksFromNotThrough: blocks reachable from s without entering block stop.
func c08BlocksFromNotThrough(s, stop *ssa.BasicBlock) map[*ssa.BasicBlock]bool {
	seen := map[*ssa.BasicBlock]bool{}
	var walk func(b *ssa.BasicBlock)
	walk = func(b *ssa.BasicBlock) {
		if b == stop || seen[b] {
			return
		}
		seen[b] = true
		for _, x := range b.Succs {
			walk(x)
		}
	}
	walk(s)
	return seen
}

type c08Mark struct {
	site ssa.Instruction // the Store to a feeder variable, or the MapUpdate itself
	key  ssa.Value
	via  string
}

func c08IsZeroConst(v ssa.Value) bool {
	c, ok := v.(*ssa.Const)
	return ok && c.Value == nil
}

// c08Marks finds every value that can become a key of the guard's map.
func c08Marks(g *c08Guard) (marks []c08Mark, bad string) {
	seenCell := map[ssa.Value]bool{}
	seenField := map[c08FieldKey]bool{}
	var follow func(v ssa.Value, site ssa.Instruction, via string, depth int)
	follow = func(v ssa.Value, site ssa.Instruction, via string, depth int) {
		o := originValue(v)
		if ld, ok := o.(*ssa.UnOp); ok && ld.Op == token.MUL && c08MemoWorld != nil {
			// a feeder kept in a field of the state struct of one invocation
			if fa, isFA := ld.X.(*ssa.FieldAddr); isFA {
				if k, ok := c08FieldKeyOf(fa); ok && c08MemoWorld.stateOf(fa).ok {
					if seenField[k] {
						return
					}
					seenField[k] = true
					fi := c08MemoWorld.fields[k]
					if fi == nil || depth > 4 {
						bad = "a key of the memo is read from a state field whose writers the rule cannot enumerate"
						return
					}
					for _, st := range fi.stores {
						if c08IsZeroConst(st.Val) {
							continue
						}
						follow(st.Val, st, fieldName(fa.X.Type(), fa.Field), depth+1)
					}
					return
				}
			}
		}
		if ld, ok := o.(*ssa.UnOp); ok && ld.Op == token.MUL {
			if cell, ok := varOf(ld.X); ok {
				al, isAl := cell.(*ssa.Alloc)
				if !isAl || depth > 4 {
					bad = "a key of the memo is read from " + cell.Name() + ", whose writers the rule cannot enumerate"
					return
				}
				if seenCell[cell] {
					return
				}
				seenCell[cell] = true
				if !plainVariable(al) {
					bad = "the address of variable " + al.Comment + ", which feeds the memo, escapes"
					return
				}
				for _, st := range storesTo(al) {
					if c08IsZeroConst(st.Val) {
						continue // reset to the zero value: not a key the guard is asked about
					}
					follow(st.Val, st, al.Comment, depth+1)
				}
				return
			}
		}
		if c08IsZeroConst(o) {
			return
		}
		marks = append(marks, c08Mark{site, o, via})
	}
	for _, f := range c08MemoFuncs(g) {
		for _, b := range f.Blocks {
			for _, in := range b.Instrs {
				mu, ok := in.(*ssa.MapUpdate)
				if !ok {
					continue
				}
				if id, _, _ := c08MapID(mu.Map); id != g.id {
					continue
				}
				follow(mu.Key, mu, "", 0)
			}
		}
	}
	return
}

// c08MapEscapes: the memo's map value is used for something other than
// membership tests, updates, nil checks and len — other code could add keys.
func c08MapEscapes(g *c08Guard) string {
	fkey, inField := g.id.(c08FieldKey)
	sameField := func(addr ssa.Value) bool {
		fa, ok := addr.(*ssa.FieldAddr)
		if !ok || !inField {
			return false
		}
		k, ok := c08FieldKeyOf(fa)
		return ok && k == fkey
	}
	cell, ok := g.id.(ssa.Value)
	if !ok && !inField {
		return "the map is not held in a local variable"
	}
	check := func(m ssa.Value) string {
		refs := m.Referrers()
		if refs == nil {
			return ""
		}
		for _, rf := range *refs {
			switch x := rf.(type) {
			case *ssa.Lookup, *ssa.MapUpdate, *ssa.DebugRef, *ssa.BinOp, *ssa.Range:
			case *ssa.Call:
				if b, isB := x.Call.Value.(*ssa.Builtin); isB && (b.Name() == "len" || b.Name() == "delete") {
					continue
				}
				return "the map is passed to " + (CallSite{x.Parent(), x}).CalleeKey()
			case *ssa.Store:
				if c, ok := varOf(x.Addr); ok && cell != nil && c == cell {
					continue
				}
				if sameField(x.Addr) {
					continue
				}
				return "the map is stored elsewhere"
			default:
				return "the map flows into " + rf.String()
			}
		}
		return ""
	}
	if inField {
		// a field of the state struct of one invocation: every load and store of the field, module-wide
		fi := c08MemoWorld.fields[fkey]
		if fi == nil || fi.escapes {
			return "the address of the field holding the map is taken"
		}
		for _, ld := range fi.loads {
			if why := check(ld); why != "" {
				return why
			}
		}
		for _, st := range fi.stores {
			switch originValue(st.Val).(type) {
			case *ssa.MakeMap, *ssa.Const:
			default:
				if ld, isLd := st.Val.(*ssa.UnOp); isLd && ld.Op == token.MUL && sameField(ld.X) {
					continue
				}
				return "the memo field is assigned a map made elsewhere"
			}
		}
		return ""
	}
	if _, isAl := cell.(*ssa.Alloc); !isAl {
		return check(cell)
	}
	for _, f := range c08Family(g.fn) {
		for _, b := range f.Blocks {
			for _, in := range b.Instrs {
				switch x := in.(type) {
				case *ssa.UnOp:
					if x.Op == token.MUL {
						if c, ok := varOf(x.X); ok && c == cell {
							if why := check(x); why != "" {
								return why
							}
						}
					}
				case *ssa.Store:
					if c, ok := varOf(x.Addr); ok && c == cell {
						switch originValue(x.Val).(type) {
						case *ssa.MakeMap, *ssa.Const:
						default:
							if ld, isLd := x.Val.(*ssa.UnOp); isLd && ld.Op == token.MUL {
								if c2, ok := varOf(ld.X); ok && c2 == cell {
									continue
								}
							}
							return "the memo variable is assigned a map made elsewhere"
						}
					}
				}
			}
		}
	}
	return ""
}

// c08StopsOnFalse: cb is a func(...) bool literal handed to exactly one
// enumeration call of its parent (outside any loop), and every function that
// call may enter stops calling its callback once it returned false. Then a
// `return false` of cb retires every memo local to the parent.
func c08StopsOnFalse(cb *ssa.Function) (bool, string) {
	parent := cb.Parent()
	isCb := func(v ssa.Value) bool {
		if v == ssa.Value(cb) {
			return true
		}
		mc, ok := v.(*ssa.MakeClosure)
		return ok && mc.Fn == cb
	}
	if parent == nil && c08MemoWorld != nil {
		// a method of a state struct: the one closure that binds it, in the creator
		if bcs := c08MemoWorld.boundClosures()[cb]; len(bcs) == 1 {
			parent = bcs[0].Parent()
			isCb = func(v ssa.Value) bool { return v == ssa.Value(bcs[0]) }
		}
	}
	res := cb.Signature.Results()
	if parent == nil || res.Len() != 1 || !c08IsBool(res.At(0).Type()) {
		return false, "not a func(...) bool literal or bound method of a per-invocation state struct"
	}
	var site *ssa.Call
	argIdx := -1
	for _, b := range parent.Blocks {
		for _, in := range b.Instrs {
			if mc, ok := in.(*ssa.MakeClosure); ok && isCb(mc) {
				continue
			}
			if _, ok := in.(*ssa.DebugRef); ok {
				continue
			}
			for _, op := range in.Operands(nil) {
				if *op == nil {
					continue
				}
				if !isCb(*op) {
					continue
				}
				call, ok := in.(*ssa.Call)
				if !ok || site != nil {
					return false, "the callback is used by more than one instruction or not by a plain call"
				}
				for i, a := range call.Call.Args {
					if a == *op {
						argIdx = i
					}
				}
				if argIdx < 0 || call.Call.IsInvoke() {
					return false, "the callback is not passed as an argument of a non-interface call"
				}
				site = call
			}
		}
	}
	if site == nil {
		return false, "no call receives the callback"
	}
	if c08LoopDepth(site.Block()) > 0 {
		return false, "the enumeration is started inside a loop"
	}
	// the functions the call may enter
	var callees []*ssa.Function
	var expand func(v ssa.Value, depth int) bool
	expand = func(v ssa.Value, depth int) bool {
		switch x := originValue(v).(type) {
		case *ssa.Function:
			callees = append(callees, x)
			return true
		case *ssa.MakeClosure:
			callees = append(callees, x.Fn.(*ssa.Function))
			return true
		case *ssa.Phi:
			if depth > 4 {
				return false
			}
			for _, e := range x.Edges {
				if !expand(e, depth+1) {
					return false
				}
			}
			return len(x.Edges) > 0
		}
		return false
	}
	if !expand(site.Call.Value, 0) {
		return false, "the enumerator called with the callback cannot be resolved to functions"
	}
	for _, f := range callees {
		idx := argIdx
		for hop := 0; f.Synthetic != "" && hop < 3; hop++ { // bound-method / wrapper thunks
			if idx >= len(f.Params) {
				return false, "cannot follow wrapper " + f.Name()
			}
			var next *ssa.Function
			nidx := -1
			for _, c := range CallsIn(f, false) {
				for i, a := range c.Common().Args {
					if a == ssa.Value(f.Params[idx]) && c.Common().StaticCallee() != nil {
						next, nidx = c.Common().StaticCallee(), i
					}
				}
			}
			if next == nil {
				return false, "cannot follow wrapper " + f.Name()
			}
			f, idx = next, nidx
		}
		if ok, why := c08EnumStops(f, idx, 0); !ok {
			return false, why
		}
	}
	return true, ""
}

// c08EnumStops: enumerator f never calls its callback parameter idx again once
// it returned false: every call of the callback is branched on directly and
// the false edge reaches no further call; handing the callback on to one
// static helper outside any loop is followed (the helper must satisfy the same).
func c08EnumStops(f *ssa.Function, idx int, depth int) (bool, string) {
	if f.Blocks == nil || idx >= len(f.Params) {
		return false, "enumerator " + FuncKey(f) + " has no body to inspect"
	}
	prm := f.Params[idx]
	var calls []*ssa.Call
	if refs := prm.Referrers(); refs != nil {
		for _, rf := range *refs {
			switch x := rf.(type) {
			case *ssa.DebugRef:
			case *ssa.Call:
				if x.Call.Value != ssa.Value(prm) {
					// handed on: the only use, outside any loop, to a static function with a body
					g := x.Call.StaticCallee()
					k := -1
					for i, a := range x.Call.Args {
						if a == ssa.Value(prm) {
							k = i
						}
					}
					if g == nil || len(g.Blocks) == 0 || k < 0 || k >= len(g.Params) || depth >= 3 || c08LoopDepth(x.Block()) > 0 || len(nonDebug(*refs)) != 1 {
						return false, FuncKey(f) + " passes its callback on in a way the rule cannot follow"
					}
					return c08EnumStops(g, k, depth+1)
				}
				calls = append(calls, x)
			default:
				return false, FuncKey(f) + " does more with its callback than call it"
			}
		}
	}
	if len(calls) == 0 {
		return false, FuncKey(f) + " never calls its callback directly"
	}
	hasCall := func(b *ssa.BasicBlock) bool {
		for _, c := range calls {
			if c.Block() == b {
				return true
			}
		}
		return false
	}
	for _, c := range calls {
		refs := c.Referrers()
		n := 0
		if refs != nil {
			for _, rf := range *refs {
				if _, ok := rf.(*ssa.DebugRef); ok {
					continue
				}
				n++
				cond, neg := ssa.Value(c), false
				var ifi *ssa.If
				switch x := rf.(type) {
				case *ssa.If:
					ifi = x
				case *ssa.UnOp:
					if x.Op == token.NOT {
						cond, neg = x, true
						if rr := x.Referrers(); rr != nil {
							for _, r2 := range nonDebug(*rr) {
								if i2, ok := r2.(*ssa.If); ok && len(nonDebug(*rr)) == 1 {
									ifi = i2
								}
							}
						}
					}
				}
				if ifi == nil || ifi.Cond != cond || len(ifi.Block().Succs) != 2 {
					return false, FuncKey(f) + " does not branch directly on its callback's result"
				}
				onFalse := ifi.Block().Succs[1]
				if neg {
					onFalse = ifi.Block().Succs[0]
				}
				for b := range BlocksFrom(onFalse) {
					if hasCall(b) {
						return false, FuncKey(f) + " may call its callback again after it returned false"
					}
				}
			}
		}
		if n == 0 {
			return false, FuncKey(f) + " ignores its callback's result"
		}
	}
	return true, ""
}

func c08RuleMemo(p *Program, r *Reporter, w *c08World) {
	c08MemoWorld = w
	defer func() { c08MemoWorld = nil }()
	matchSig := c08MatchSig(p)
	// anchors: the matcher entry points the memo rule is about
	p.Func(c08Pkg, "Constraint", "matcher")
	fns := p.FuncsIn(c08Pkg)
	r.Analysed("memo_functions", len(fns))
	nOther, nValue := 0, 0
	for _, fn := range fns {
		if fn.Blocks == nil {
			continue
		}
		guards, other := c08Guards(fn, matchSig)
		nOther += other
		perMap := map[string]int{}
		for _, g := range guards {
			site := p.Pos(g.lookup.Pos())
			perMap[g.name]++
			base := fmt.Sprintf("%s#memo(%s)", FuncKey(fn), g.name)
			if n := perMap[g.name]; n > 1 {
				base = fmt.Sprintf("%s/%d", base, n)
			}
			if len(g.bypassed) == 0 {
				if !g.setLike || !c08MentionsBlobRef(g.lookup.Index.Type(), 0) {
					nValue++
					continue
				}
				// a set, but no matcher verdict is skipped on its key: classify, do not judge
				marked := false
				for b := range c08BlocksFromNotThrough(g.miss, g.ifi.Block()) {
					for _, in := range b.Instrs {
						if mu, ok := in.(*ssa.MapUpdate); ok {
							if id, _, _ := c08MapID(mu.Map); id == g.id && originValue(mu.Key) == originValue(g.lookup.Index) {
								marked = true
							}
						}
					}
				}
				kind := "membership filter (the set is only read here; no work on the key is skipped because it was done before)"
				if marked && g.foundLeave {
					kind = "started/visited set (key absent: it is marked and the work on it is started right after; key present: leave) — marking before the work is what terminates the traversal"
				}
				r.OKTable("P-memo", base+"#class", site, "set membership test that bypasses no matcher call on its key: "+kind+"; not a memo of a completed evaluation, P-memo does not apply")
				continue
			}
			var ev []string
			for _, c := range g.bypassed {
				ev = append(ev, c08CallDesc(c))
			}
			if !g.local {
				r.Undecided("P-memo", base+"#guard", site, "a membership test on a map shared beyond one invocation ("+g.name+") bypasses the matcher call "+strings.Join(ev, ", ")+" on its key: this may be a visited-set that terminates a recursive traversal (mark before visiting is correct) or a memo of completed evaluations (mark only after); the rule cannot tell them apart for a shared map")
				continue
			}
			if why := c08MapEscapes(g); why != "" {
				r.Undecided("P-memo", base+"#guard", site, "skip guard on memo "+g.name+": "+why+"; the keys it may hold cannot be enumerated")
				continue
			}
			marks, bad := c08Marks(g)
			if bad != "" {
				r.Undecided("P-memo", base+"#guard", site, "skip guard on memo "+g.name+": "+bad)
				continue
			}
			r.OK("P-memo", base+"#guard", site, fmt.Sprintf("skip guard: a key found in local memo %s bypasses the matcher call %s on that key; %d assignment(s) can put a key into the memo, each checked as #mark", g.name, strings.Join(ev, ", "), len(marks)))
			stops, whyNot := c08StopsOnFalse(fn)
			// no other function of the family may consult the memo after a stop
			if stops {
				for _, f := range c08MemoFuncs(g) {
					if f == fn {
						continue
					}
					for _, b := range f.Blocks {
						for _, in := range b.Instrs {
							if lk, ok := in.(*ssa.Lookup); ok {
								if id, _, _ := c08MapID(lk.X); id == g.id {
									stops, whyNot = false, "the memo is also consulted in "+FuncKey(f)
								}
							}
						}
					}
				}
			}
			nVia := map[string]int{}
			for _, m := range marks {
				via := m.via
				if via == "" {
					via = "direct"
				}
				nVia[via]++
				c := fmt.Sprintf("%s#mark(%s)/%d", base, via, nVia[via])
				msite := p.Pos(m.site.Pos())
				if m.site.Parent() != fn {
					r.Undecided("P-memo", c, msite, "a key is put into memo "+g.name+" from "+FuncKey(m.site.Parent())+", outside the function that evaluates and consults it; the rule cannot relate it to an evaluation")
					continue
				}
				var evals []*ssa.Call
				for _, cs := range CallsIn(fn, false) {
					if c08VerdictOn(cs, m.key, matchSig, 0) {
						evals = append(evals, cs.Value())
					}
				}
				if len(evals) == 0 {
					r.Undecided("P-memo", c, msite, "the value remembered in memo "+g.name+" ("+m.key.String()+") is not the blob any matcher call of this function evaluates: the guard would skip a key on the strength of work done for another value")
					continue
				}
				dominated := false
				for _, e := range evals {
					if Precedes(e, m.site) && c08SuccessAt(e, m.site.Block()) {
						dominated = true
					}
				}
				if dominated {
					r.OK("P-memo", c, msite, "the key is remembered only where the matcher call on that same key has returned without error (the assignment is dominated by the call's success edge)")
					continue
				}
				done := func(in ssa.Instruction) bool {
					for _, e := range evals {
						if Precedes(e, in) && c08SuccessAt(e, in.Block()) {
							return true
						}
					}
					return false
				}
				leaks := LeakingExits(PathQuery{
					Start: m.site,
					Stop:  done,
					ExitOK: func(exit ssa.Instruction) bool {
						ret, ok := exit.(*ssa.Return)
						if !ok || !stops || len(ret.Results) != 1 {
							return false
						}
						cv, isC := c08ConstBool(originValue(ret.Results[0]))
						return isC && !cv
					},
					IgnorePanics: true,
				})
				// a guard inside a loop is consulted again through the back edge, not only after an exit
				again := c08LoopDepth(g.ifi.Block()) > 0 && ReachableFrom(m.site, done)[g.lookup]
				if again {
					r.Violation("P-memo", c, msite, "a key is remembered in skip-memo "+g.name+" at a point from which the loop can come round to the membership test again without the matcher having (successfully) run on that key: a later occurrence of the same key is skipped although it was never evaluated")
					continue
				}
				if len(leaks) == 0 {
					r.OK("P-memo", c, msite, "the key is remembered before its evaluation completed, but every path from there either completes the matcher call on that key without error or returns false, which ends the enumeration (verified in the enumerators) and with it the life of the memo")
					continue
				}
				var via2 []string
				for _, l := range leaks {
					via2 = append(via2, "exit at "+p.Pos(l.Exit.Pos())+" via blocks "+blockNames(l.Via))
				}
				extra := ""
				if !stops {
					extra = " (returning false is not counted as ending the enumeration: " + whyNot + ")"
				}
				r.Violation("P-memo", c, msite, "a key is remembered in skip-memo "+g.name+" on a path where the matcher was not (successfully) run on it, and the callback then carries on: a later occurrence of the same key is skipped although it was never evaluated — with Any a matching relative is missed, with All a non-matching one is not seen"+extra+": "+strings.Join(via2, "; "))
			}
		}
	}
	r.Note("P-memo: %d other branches depend on a map look-up without being a membership test, %d membership tests (on value maps, or on sets not keyed by a blob ref) bypass no matcher call (value caches / look-ups / connection sets; not skip-memos)", nOther, nValue)
	r.Floor("P-memo", 3)
}

// ---------------------------------------------------------------------------

// c08SrcRole: the planner's result type and its fields, by role: the struct has
// one string (the source's name), one bool (the 'comes in the requested order'
// flag) and one function (the enumeration) — whatever they are called.
type c08SrcRole struct {
	named              *types.Named
	name, sorted, send string
}

var c08Src c08SrcRole

func (s c08SrcRole) is(n *types.Named) bool {
	return n != nil && s.named != nil && n.Origin() == s.named.Origin()
}

// c08IsPlanner: fn returns one struct of pkg/search with exactly one string
// field, one bool field and one function field that takes a callback.
func c08IsPlanner(fn *ssa.Function) (c08SrcRole, bool) {
	var role c08SrcRole
	res := fn.Signature.Results()
	if res.Len() != 1 {
		return role, false
	}
	n, _ := res.At(0).Type().(*types.Named)
	st := c08Struct(n)
	if st == nil || n.Obj().Pkg() == nil || n.Obj().Pkg().Path() != modPrefix+c08Pkg {
		return role, false
	}
	role.named = n
	for i := 0; i < st.NumFields(); i++ {
		f := st.Field(i)
		switch t := f.Type().Underlying().(type) {
		case *types.Basic:
			switch {
			case t.Kind() == types.String && role.name == "":
				role.name = f.Name()
			case t.Kind() == types.Bool && role.sorted == "":
				role.sorted = f.Name()
			case t.Kind() == types.String || t.Kind() == types.Bool:
				return role, false // two candidates for one role
			}
		case *types.Signature:
			hasCb := false
			for j := 0; j < t.Params().Len(); j++ {
				if _, ok := t.Params().At(j).Type().Underlying().(*types.Signature); ok {
					hasCb = true
				}
			}
			if !hasCb || role.send != "" {
				return role, false
			}
			role.send = f.Name()
		}
	}
	return role, role.name != "" && role.sorted != "" && role.send != ""
}

func runC08(p *Program, r *Reporter) {
	if os.Getenv("PKVERIFY_C08_TIMING") != "" {
		t0 := time.Now()
		defer func() { fmt.Fprintf(os.Stderr, "C08 rules: %.2fs\n", time.Since(t0).Seconds()) }()
	}
	// the planner: by name, or (renamed) by role — the one *SearchQuery method returning a candidate source
	pick := p.LookupFunc(c08Pkg, "SearchQuery", "pickCandidateSource")
	if pick == nil {
		var cands []*ssa.Function
		for _, fn := range p.FuncsIn(c08Pkg) {
			if fn.Parent() != nil || fn.Signature.Recv() == nil || !c08IsType(NamedOf(fn.Signature.Recv().Type()), c08Pkg, "SearchQuery") {
				continue
			}
			if _, ok := c08IsPlanner(fn); ok {
				cands = append(cands, fn)
			}
		}
		if len(cands) != 1 {
			brokenf("anchor unresolved: pkg/search.(*SearchQuery).pickCandidateSource not found, and %d methods of *SearchQuery return a candidate source", len(cands))
		}
		pick = cands[0]
	}
	role, ok := c08IsPlanner(pick)
	if !ok {
		brokenf("anchor unresolved: %s does not return a struct of one string, one bool and one enumeration function", FuncKey(pick))
	}
	c08Src = role
	// the four predicates the source table refers to: by name, a renamed one by role (below)
	canon := []string{"matchesPermanodeTypes", "matchesAtMostOneBlob", "onlyMatchesPermanode", "matchesFileByWholeRef"}
	roles := map[*ssa.Function]string{}
	var named []*ssa.Function
	for _, n := range canon {
		if f := p.LookupFunc(c08Pkg, "Constraint", n); f != nil {
			roles[f] = n
			named = append(named, f)
		}
	}
	// by role: every recursive *Constraint method the planner's effective body calls is a
	// planner predicate (a non-recursive one is a helper and is read as part of its caller)
	predSet := map[*ssa.Function]bool{}
	var preds []*ssa.Function
	seenFn := map[*ssa.Function]bool{pick: true}
	work := []*ssa.Function{pick}
	for depth := 0; depth <= c08MaxDepth && len(work) > 0; depth++ {
		var next []*ssa.Function
		for _, fn := range work {
			for _, c := range CallsIn(fn, true) {
				f := c.Common().StaticCallee()
				if f == nil || !InModule(f) || seenFn[f] {
					continue
				}
				if f.Signature.Recv() != nil && c08IsType(NamedOf(f.Signature.Recv().Type()), c08Pkg, "Constraint") && c08Recursive(f) {
					seenFn[f] = true
					predSet[f] = true
					preds = append(preds, f)
					continue
				}
				if h := c08HelperOf(c); h != nil && !seenFn[h] {
					seenFn[h] = true
					next = append(next, h)
				}
			}
		}
		work = next
	}
	for _, f := range named {
		if !predSet[f] {
			r.Note("planner predicate %s is no longer called from pickCandidateSource; still checked", FuncKey(f))
			predSet[f] = true
			preds = append(preds, f)
		}
	}
	// a predicate that no longer has its name is recognised by its role: the result type, and
	// for the boolean ones the constraint field its leaf case looks at (Permanode / File)
	taken := map[string]bool{}
	for _, n := range roles {
		taken[n] = true
	}
	for _, f := range preds {
		if roles[f] != "" {
			continue
		}
		role := ""
		switch c08ResultKind(f) {
		case c08Slice:
			role = "matchesPermanodeTypes"
		case c08Ref:
			role = "matchesAtMostOneBlob"
		case c08Bool:
			reads := c08ConstraintFieldsRead(f)
			switch {
			case reads["Permanode"] && !reads["File"]:
				role = "onlyMatchesPermanode"
			case reads["File"] && !reads["Permanode"]:
				role = "matchesFileByWholeRef"
			}
		}
		if role != "" && !taken[role] {
			taken[role] = true
			roles[f] = role
			r.Note("planner predicate %s takes the role of %s", FuncKey(f), role)
		}
	}
	for _, n := range canon {
		if !taken[n] {
			brokenf("anchor unresolved: no planner predicate with the name or the role of pkg/search.(*Constraint).%s", n)
		}
	}
	sort.Slice(preds, func(i, j int) bool { return FuncKey(preds[i]) < FuncKey(preds[j]) })
	r.Analysed("functions", len(preds)+2)

	// SortType constants (exported ones; maxSortType is the validity bound)
	sorts := map[int64]string{}
	sc := p.Pkg(c08Pkg).Types.Scope()
	st := p.NamedType(c08Pkg, "SortType")
	for _, n := range sc.Names() {
		c, ok := sc.Lookup(n).(*types.Const)
		if !ok || !c.Exported() || !types.Identical(c.Type(), st) {
			continue
		}
		if v, ok := constant.Int64Val(c.Val()); ok {
			sorts[v] = n
		}
	}
	if len(sorts) < 8 {
		brokenf("anchor unresolved: expected >= 8 exported SortType constants in pkg/search, found %d", len(sorts))
	}

	world := &c08World{p: p}
	leaves := c08RulePredicates(p, r, world, preds)
	c08RuleLeaf(p, r, leaves, predSet, roles)
	c08RulePlanner(p, r, world, pick, predSet, roles, sorts)
	c08RuleNoDup(p, r, world)
	c08RuleMemo(p, r, world)
	execs := c08FindExec(p, r, world, pick)
	if len(execs) == 0 {
		r.Undecided("P-limit", FuncKey(pick)+"#executor", p.Pos(pick.Pos()), "no analysable caller of pickCandidateSource found")
	}
	for _, e := range execs {
		c08RuleExecutor(p, r, e, sorts)
	}
	c08RuleFresh(p, r)
}

// c08ConstraintFieldsRead: the fields of the receiver (a *Constraint) that the
// effective body of predicate f reads.
func c08ConstraintFieldsRead(f *ssa.Function) map[string]bool {
	out := map[string]bool{}
	seen := map[*ssa.Function]bool{}
	var walk func(g *ssa.Function, depth int)
	walk = func(g *ssa.Function, depth int) {
		if seen[g] || depth > c08MaxDepth {
			return
		}
		seen[g] = true
		for _, b := range g.Blocks {
			for _, in := range b.Instrs {
				if fa, ok := in.(*ssa.FieldAddr); ok {
					if _, n, fl, ok := c08FieldAddr(fa); ok && c08IsType(n, c08Pkg, "Constraint") {
						out[fl] = true
					}
				}
			}
		}
		for _, c := range CallsIn(g, true) {
			if h := c08HelperOf(c); h != nil && h != f {
				walk(h, depth+1)
			}
		}
	}
	walk(f, 0)
	return out
}

// c08Recursive: f calls itself, directly or through the helpers of its effective body.
func c08Recursive(f *ssa.Function) bool {
	seen := map[*ssa.Function]bool{}
	var walk func(g *ssa.Function, depth int) bool
	walk = func(g *ssa.Function, depth int) bool {
		if seen[g] || depth > c08MaxDepth {
			return false
		}
		seen[g] = true
		for _, c := range CallsIn(g, true) {
			if c.Common().StaticCallee() == f {
				return true
			}
			if h := c08HelperOf(c); h != nil && walk(h, depth+1) {
				return true
			}
		}
		return false
	}
	return walk(f, 0)
}

// c08RuleFresh is C06's K-inval reported under C08 as P-fresh (like E-close/G-enum):
// the sources pickCandidateSource flags as sorted enumerate the corpus'
// generation-stamped sorted-permanode caches, so "the results are in the requested
// order, and with a limit the first N" needs those caches to be invalidated by every
// live write of what their order is computed from, and served only when fresh.
func c08RuleFresh(p *Program, r *Reporter) {
	sub := NewReporter("C06", p)
	cx := c06Setup(p, sub)
	c06RuleInval(cx)
	n := 0
	for _, o := range sub.Obls {
		if o.Rule != "K-inval" {
			continue
		}
		n++
		r.add("P-fresh", o.Construct, o.Site, o.Status, o.Nontrivial, o.Detail)
	}
	r.Floor("P-fresh", sub.floors["K-inval"])
}

// ---------------------------------------------------------------------------
// P-leaf: the leaf cases of the planner predicates against the matchers
//
// A leaf path of a planner predicate returns a restricting result that is
// justified by fields of the constraint only (no recursion). The predicate
// side (part 1) reconstructs, per such path, which fields of which constraint
// structs the result is control- or data-dependent on, and what the path knows
// about them. The matcher side (part 2) then demands that every OTHER field of
// those structs can only narrow the matcher's verdict.

type c08LeafPath struct {
	fn    *ssa.Function
	kind  int
	paths []c08Path
	idx   int
	ret   *ssa.Return
	xp    *c08XPath // the composite path (which path each followed helper takes)
}

// c08Fact is what a predicate path knows about one field.
type c08Fact struct {
	kind string // "" tested without a usable fact | "zero" | "nonzero" | "eq" | "call"
	str  string // eq: the constant (exact string); call: key of the bool method called on the field value
	val  bool   // call: its result
}

func (f c08Fact) String() string {
	switch f.kind {
	case "zero":
		return "unset"
	case "nonzero":
		return "set"
	case "eq":
		return "==" + f.str
	case "call":
		return fmt.Sprintf("%s()==%v", f.str[strings.LastIndex(f.str, ".")+1:], f.val)
	}
	return "tested"
}

func (f c08Fact) rank() int {
	switch f.kind {
	case "eq":
		return 3
	case "zero", "nonzero", "call":
		return 2
	}
	return 1
}

// c08FieldRef names field `field` of the constraint struct instance reached
// from the predicate's receiver by access path inst ("c", "c.Permanode", ...).
type c08FieldRef struct {
	inst  string
	named *types.Named
	field string
}

type c08LeafFact struct {
	ref  c08FieldRef
	fact c08Fact
}

type c08Inst struct {
	path  string
	named *types.Named
	from  *c08FieldRef // the pointer field the instance was loaded from; nil for the receiver
}

func c08Struct(n *types.Named) *types.Struct {
	if n == nil {
		return nil
	}
	st, _ := n.Underlying().(*types.Struct)
	return st
}

func c08FieldIndex(n *types.Named, field string) int {
	st := c08Struct(n)
	if st == nil {
		return -1
	}
	for i := 0; i < st.NumFields(); i++ {
		if st.Field(i).Name() == field {
			return i
		}
	}
	return -1
}

// c08ConstraintStructPtr: t is *N with N a struct type declared in pkg/search.
func c08ConstraintStructPtr(t types.Type) *types.Named {
	pt, ok := t.(*types.Pointer)
	if !ok {
		return nil
	}
	n, _ := pt.Elem().(*types.Named)
	if n == nil || c08Struct(n) == nil || n.Obj().Pkg() == nil || n.Obj().Pkg().Path() != modPrefix+c08Pkg {
		return nil
	}
	return n
}

// c08ZeroK: the constant is the zero value of its type.
func c08ZeroK(c *ssa.Const) bool {
	if c.Value == nil {
		return true
	}
	switch c.Value.Kind() {
	case constant.String:
		return constant.StringVal(c.Value) == ""
	case constant.Bool:
		return !constant.BoolVal(c.Value)
	case constant.Int, constant.Float:
		return constant.Sign(c.Value) == 0
	}
	return false
}

func c08ConstEq(a, b *ssa.Const) (eq, ok bool) {
	if a.Value == nil || b.Value == nil {
		return a.Value == nil && b.Value == nil, true
	}
	if a.Value.Kind() != b.Value.Kind() {
		return false, false
	}
	return constant.Compare(a.Value, token.EQL, b.Value), true
}

type c08LeafAn struct {
	p        *Program
	preds    map[*ssa.Function]bool
	insts    map[string]c08Inst
	matchers map[string]*c08Matcher
	members  map[*ssa.Function]map[*ssa.Parameter]*c08Member
	cache    map[string]c08FieldRes
	dyn      map[string]*c08DynRes
	pure     map[*ssa.Function]int
	adders   map[c08AdderKey]int
}

// ---- part 1: the predicate side

type c08LeafEnv struct {
	an     *c08LeafAn
	fn     *ssa.Function
	xp     *c08XPath // the composite path under analysis: fixes the path a followed helper takes
	pth    c08Path
	params map[ssa.Value]c08Inst
	depth  int
}

func (e *c08LeafEnv) instOf(v ssa.Value) (c08Inst, bool) {
	v = e.pth.norm(v)
	if in, ok := e.params[v]; ok {
		return in, true
	}
	base, named, field, ok := c08FieldLoad(v)
	if !ok {
		return c08Inst{}, false
	}
	bi, ok := e.instOf(base)
	if !ok {
		return c08Inst{}, false
	}
	st := c08Struct(named)
	i := c08FieldIndex(named, field)
	if st == nil || i < 0 {
		return c08Inst{}, false
	}
	en := c08ConstraintStructPtr(st.Field(i).Type())
	if en == nil {
		return c08Inst{}, false
	}
	in := c08Inst{path: bi.path + "." + field, named: en, from: &c08FieldRef{bi.path, named, field}}
	e.an.insts[in.path] = in
	return in, true
}

func (e *c08LeafEnv) frefOf(v ssa.Value) (c08FieldRef, bool) {
	v = e.pth.norm(v)
	base, named, field, ok := c08FieldLoad(v)
	if !ok {
		return c08FieldRef{}, false
	}
	bi, ok := e.instOf(base)
	if !ok {
		return c08FieldRef{}, false
	}
	return c08FieldRef{bi.path, named, field}, true
}

// collect lists every constraint field the value depends on (backward slice
// over operands, phi edges resolved along the path, composite literals
// followed into their element stores, analysable helpers followed inside).
func (e *c08LeafEnv) collect(v ssa.Value) []c08LeafFact {
	seen := map[ssa.Value]bool{}
	var out []c08LeafFact
	var walk func(v ssa.Value, d int)
	walk = func(v ssa.Value, d int) {
		if v == nil || d > 24 {
			return
		}
		v = e.pth.norm(v)
		if v == nil || seen[v] {
			return
		}
		seen[v] = true
		if ref, ok := e.frefOf(v); ok {
			out = append(out, c08LeafFact{ref, c08Fact{}})
		}
		switch x := v.(type) {
		case *ssa.Call:
			if hw, ok := e.helperWorlds(x); ok {
				for _, w := range hw {
					for _, f := range w.facts {
						out = append(out, c08LeafFact{f.ref, c08Fact{}})
					}
					for _, f := range w.env.collect(w.ret) {
						out = append(out, f)
					}
				}
			}
		case *ssa.Alloc:
			if refs := x.Referrers(); refs != nil {
				for _, r := range *refs {
					var addr ssa.Value
					switch a := r.(type) {
					case *ssa.IndexAddr:
						addr = a
					case *ssa.FieldAddr:
						addr = a
					}
					if addr == nil || addr.Referrers() == nil {
						continue
					}
					for _, rr := range *addr.Referrers() {
						if st, ok := rr.(*ssa.Store); ok && st.Addr == addr {
							walk(st.Val, d+1)
						}
					}
				}
			}
		}
		if in, ok := v.(ssa.Instruction); ok {
			for _, op := range in.Operands(nil) {
				if *op != nil {
					walk(*op, d+1)
				}
			}
		}
	}
	walk(v, 0)
	return out
}

func c08CmpFact(k *ssa.Const, eq bool) c08Fact {
	switch {
	case c08ZeroK(k) && eq:
		return c08Fact{kind: "zero"}
	case c08ZeroK(k):
		return c08Fact{kind: "nonzero"}
	case eq && k.Value != nil:
		return c08Fact{kind: "eq", str: k.Value.ExactString()}
	}
	return c08Fact{}
}

// interp turns "cond evaluated to val" into alternative sets of field facts.
// No alternative = infeasible.
func (e *c08LeafEnv) interp(cond ssa.Value, val bool) [][]c08LeafFact {
	cond = e.pth.norm(cond)
	for {
		u, ok := cond.(*ssa.UnOp)
		if !ok || u.Op != token.NOT {
			break
		}
		cond, val = e.pth.norm(u.X), !val
	}
	one := func(fs ...c08LeafFact) [][]c08LeafFact { return [][]c08LeafFact{fs} }
	switch c := cond.(type) {
	case *ssa.Const:
		if bv, ok := c08ConstBool(c); ok {
			if bv != val {
				return nil
			}
			return one()
		}
	case *ssa.BinOp:
		if c.Op != token.EQL && c.Op != token.NEQ {
			break
		}
		for side := 0; side < 2; side++ {
			x, y := c.X, c.Y
			if side == 1 {
				x, y = y, x
			}
			k, isConst := e.pth.norm(y).(*ssa.Const)
			if !isConst {
				continue
			}
			eq := (c.Op == token.EQL) == val
			if ref, ok := e.frefOf(x); ok {
				return one(c08LeafFact{ref, c08CmpFact(k, eq)})
			}
			if in, ok := e.instOf(x); ok && k.Value == nil {
				if in.from == nil {
					return one() // nil check of the receiver itself
				}
				return one(c08LeafFact{*in.from, c08CmpFact(k, eq)})
			}
			if call, ok := e.pth.norm(x).(*ssa.Call); ok {
				if hw, ok := e.helperWorlds(call); ok {
					var out [][]c08LeafFact
					for _, w := range hw {
						rv := w.env.pth.norm(w.ret)
						fs := append([]c08LeafFact(nil), w.facts...)
						if rc, isC := rv.(*ssa.Const); isC {
							if same, ok := c08ConstEq(rc, k); ok && same != eq {
								continue
							}
						} else if ref, ok := w.env.frefOf(rv); ok {
							fs = append(fs, c08LeafFact{ref, c08CmpFact(k, eq)})
						} else {
							fs = append(fs, w.env.collect(rv)...)
						}
						out = append(out, fs)
					}
					return out
				}
			}
		}
	case *ssa.Call:
		if f := c.Call.StaticCallee(); f != nil && !c.Call.IsInvoke() {
			if len(c.Call.Args) == 1 {
				if ref, ok := e.frefOf(c.Call.Args[0]); ok {
					return one(c08LeafFact{ref, c08Fact{kind: "call", str: FuncKeyAny(f), val: val}})
				}
			}
			if hw, ok := e.helperWorlds(c); ok {
				var out [][]c08LeafFact
				for _, w := range hw {
					for _, sub := range w.env.interp(w.ret, val) {
						out = append(out, append(append([]c08LeafFact(nil), w.facts...), sub...))
					}
				}
				return out
			}
		}
	case *ssa.UnOp:
		if ref, ok := e.frefOf(c); ok {
			if val {
				return one(c08LeafFact{ref, c08Fact{kind: "nonzero"}})
			}
			return one(c08LeafFact{ref, c08Fact{kind: "zero"}})
		}
	}
	return one(e.collect(cond)...)
}

type c08Outcome struct {
	ret *ssa.Return
	val ssa.Value
}

func c08Outcomes(paths []c08Path) []c08Outcome {
	outs := make([]c08Outcome, len(paths))
	for i, pth := range paths {
		last := pth[len(pth)-1]
		if ret, ok := last.Instrs[len(last.Instrs)-1].(*ssa.Return); ok {
			outs[i].ret = ret
			if len(ret.Results) == 1 {
				outs[i].val = pth.norm(ret.Results[0])
			}
		}
	}
	return outs
}

// c08Decides: the branch taken at path position `at` matters — some path that
// shares the prefix and takes the other edge ends in a different return
// statement or returns a different value.
func c08Decides(paths []c08Path, outs []c08Outcome, pi, at int) bool {
	p := paths[pi]
	for qi, q := range paths {
		if qi == pi || len(q) <= at+1 || q[at+1] == p[at+1] {
			continue
		}
		same := true
		for i := 0; i <= at; i++ {
			if q[i] != p[i] {
				same = false
				break
			}
		}
		if same && outs[qi] != outs[pi] {
			return true
		}
	}
	return false
}

// pathFacts: the alternative fact sets of the deciding branches of one path.
func (e *c08LeafEnv) pathFacts(paths []c08Path, outs []c08Outcome, pi int) [][]c08LeafFact {
	alts := [][]c08LeafFact{nil}
	for _, br := range e.pth.branches() {
		if !c08Decides(paths, outs, pi, br.At) {
			continue
		}
		sub := e.interp(br.Cond, br.Val)
		if len(sub) == 0 {
			return nil
		}
		var next [][]c08LeafFact
		for _, a := range alts {
			for _, s := range sub {
				next = append(next, append(append([]c08LeafFact(nil), a...), s...))
			}
		}
		alts = next
		if len(alts) > 256 {
			alts = alts[:256]
		}
	}
	return alts
}

type c08HelperWorld struct {
	env   *c08LeafEnv
	facts []c08LeafFact
	ret   ssa.Value
}

// helperWorlds analyses a call to a small helper that receives a constraint
// struct (e.g. a method on *StringConstraint called from a predicate): one
// world per acyclic path and fact alternative.
func (e *c08LeafEnv) helperWorlds(call *ssa.Call) ([]c08HelperWorld, bool) {
	f := call.Call.StaticCallee()
	if f == nil || call.Call.IsInvoke() || !InModule(f) || len(f.Blocks) == 0 || e.an.preds[f] || f == e.fn || e.depth >= 3 || len(f.AnonFuncs) > 0 {
		return nil, false
	}
	if f.Signature.Results().Len() != 1 {
		return nil, false
	}
	params := map[ssa.Value]c08Inst{}
	for i, a := range call.Call.Args {
		if in, ok := e.instOf(a); ok && i < len(f.Params) {
			params[f.Params[i]] = in
		}
	}
	if len(params) == 0 {
		return nil, false
	}
	paths, why := c08Paths(f, 400)
	if why != "" {
		return nil, false
	}
	outs := c08Outcomes(paths)
	only := -1
	if e.xp != nil {
		if n := e.xp.followed(call); n != nil && n.fn == f && n.idx < len(paths) {
			only = n.idx
		}
	}
	var out []c08HelperWorld
	for pi, pth := range paths {
		if outs[pi].ret == nil || len(outs[pi].ret.Results) != 1 || (only >= 0 && pi != only) {
			continue
		}
		he := &c08LeafEnv{an: e.an, fn: f, xp: e.xp, pth: pth, params: params, depth: e.depth + 1}
		for _, alt := range he.pathFacts(paths, outs, pi) {
			out = append(out, c08HelperWorld{he, alt, outs[pi].ret.Results[0]})
		}
	}
	return out, true
}

type c08Level struct {
	inst   c08Inst
	tested map[string]c08Fact
}

// worlds: per leaf path, the alternative descriptions of what the restricting
// return relies on, grouped per constraint struct instance.
func (an *c08LeafAn) worlds(lp c08LeafPath) []map[string]*c08Level {
	root := c08Inst{path: "c", named: an.p.NamedType(c08Pkg, "Constraint")}
	an.insts["c"] = root
	e := &c08LeafEnv{an: an, fn: lp.fn, xp: lp.xp, pth: lp.paths[lp.idx], params: map[ssa.Value]c08Inst{lp.fn.Params[0]: root}}
	outs := c08Outcomes(lp.paths)
	alts := e.pathFacts(lp.paths, outs, lp.idx)
	// the returned value itself
	var retAlts [][]c08LeafFact
	rv := e.pth.norm(lp.ret.Results[0])
	if _, isConst := rv.(*ssa.Const); isConst {
		retAlts = [][]c08LeafFact{nil}
	} else if lp.kind == c08Bool {
		retAlts = e.interp(rv, true)
	} else {
		retAlts = [][]c08LeafFact{e.collect(rv)}
	}
	var res []map[string]*c08Level
	for _, a := range alts {
	next:
		for _, b := range retAlts {
			w := map[string]*c08Level{"c": {inst: root, tested: map[string]c08Fact{}}}
			for _, f := range append(append([]c08LeafFact(nil), a...), b...) {
				lv := w[f.ref.inst]
				if lv == nil {
					lv = &c08Level{inst: an.insts[f.ref.inst], tested: map[string]c08Fact{}}
					w[f.ref.inst] = lv
				}
				old, had := lv.tested[f.ref.field]
				switch {
				case had && ((old.kind == "zero" && (f.fact.kind == "nonzero" || f.fact.kind == "eq")) || (f.fact.kind == "zero" && (old.kind == "nonzero" || old.kind == "eq"))):
					continue next // contradictory: infeasible combination
				case !had || f.fact.rank() > old.rank():
					lv.tested[f.ref.field] = f.fact
				}
			}
			res = append(res, w)
		}
	}
	return res
}

// ---- part 2: the matcher side

// A c08Member is one function of a matcher family: it receives the constraint
// struct under analysis as parameter `root`.
type c08Member struct {
	an      *c08LeafAn
	fn      *ssa.Function
	root    *ssa.Parameter
	named   *types.Named
	compile bool // builds a matcher (returns a func value) instead of evaluating one
	funcs   []*ssa.Function
	vf      map[ssa.Value][]string
	escape  string // the root leaves the analysable part of the family
	callees []c08CalleeSite
	cxs     map[string]*c08FieldCx
}

type c08CalleeSite struct {
	call ssa.Instruction
	mem  *c08Member
}

type c08Matcher = c08Member

func c08AllFuncs(fn *ssa.Function) []*ssa.Function {
	out := []*ssa.Function{fn}
	for _, a := range fn.AnonFuncs {
		out = append(out, c08AllFuncs(a)...)
	}
	return out
}

func c08ResultIsFunc(fn *ssa.Function) bool {
	res := fn.Signature.Results()
	if res.Len() != 1 {
		return false
	}
	_, ok := res.At(0).Type().Underlying().(*types.Signature)
	return ok
}

func c08ResultIsVerdict(fn *ssa.Function) bool {
	res := fn.Signature.Results()
	return res.Len() >= 1 && res.Len() <= 2 && c08IsBool(res.At(0).Type())
}

func (an *c08LeafAn) member(fn *ssa.Function, root *ssa.Parameter) *c08Member {
	if an.members[fn] == nil {
		an.members[fn] = map[*ssa.Parameter]*c08Member{}
	}
	if m := an.members[fn][root]; m != nil {
		return m
	}
	m := &c08Member{an: an, fn: fn, root: root, named: NamedOf(root.Type()), compile: c08ResultIsFunc(fn), funcs: c08AllFuncs(fn), vf: map[ssa.Value][]string{}, cxs: map[string]*c08FieldCx{}}
	an.members[fn][root] = m
	m.scanRoot()
	return m
}

func (m *c08Member) isRoot(v ssa.Value) bool { return v != nil && originValue(v) == ssa.Value(m.root) }

// rootField: fa addresses a field of the root.
func (m *c08Member) rootField(v ssa.Value) (string, bool) {
	fa, ok := v.(*ssa.FieldAddr)
	if !ok || !m.isRoot(fa.X) {
		return "", false
	}
	_, _, f, ok := c08FieldAddr(fa)
	return f, ok
}

// fieldsOf: the root fields whose value v carries (one, or several when v is the
// result of a table-driven getter call).
func (m *c08Member) fieldsOf(v ssa.Value) []string {
	if v == nil {
		return nil
	}
	if fs, ok := m.vf[v]; ok {
		return fs
	}
	var fs []string
	switch o := originValue(v).(type) {
	case *ssa.UnOp:
		if o.Op == token.MUL {
			if f, ok := m.rootField(o.X); ok {
				fs = []string{f}
			}
		}
	case *ssa.Call:
		if o.Call.StaticCallee() == nil && !o.Call.IsInvoke() {
			for i, a := range o.Call.Args {
				if m.isRoot(a) {
					if dr := m.an.dynTargets(o); dr.why == "" {
						fs = dr.getterFields(i)
					}
				}
			}
		}
	}
	m.vf[v] = fs
	return fs
}

func c08Has(fs []string, f string) bool {
	for _, x := range fs {
		if x == f {
			return true
		}
	}
	return false
}

// scanRoot classifies every use of the root itself.
func (m *c08Member) scanRoot() {
	for _, g := range m.funcs {
		for _, b := range g.Blocks {
			for _, in := range b.Instrs {
				if _, ok := in.(*ssa.DebugRef); ok {
					continue
				}
				for ai, op := range in.Operands(nil) {
					if *op == nil || !m.isRoot(*op) {
						continue
					}
					switch x := in.(type) {
					case *ssa.FieldAddr:
					case *ssa.UnOp:
						m.escape = "the constraint struct is copied (" + x.String() + ")"
					case *ssa.BinOp:
						if x.Op != token.EQL && x.Op != token.NEQ {
							m.escape = "the constraint pointer is used in " + x.String()
						}
					case *ssa.Store:
						al, isAl := x.Addr.(*ssa.Alloc)
						if x.Val != *op || !isAl || !plainVariable(al) {
							m.escape = "the constraint pointer is stored (" + x.String() + ")"
						}
					case *ssa.Call:
						m.scanRootCall(x, ai)
					case *ssa.MakeClosure:
						// a bound method value of the constraint (`c.f` used as a function
						// value): the method receives the same struct, like a call would
						t := c08BoundTarget(x.Fn.(*ssa.Function))
						if t == nil || len(x.Bindings) != 1 || len(t.Blocks) == 0 || len(t.Params) == 0 || !InModule(t) {
							m.escape = fmt.Sprintf("the constraint pointer is captured by %s", x.String())
							break
						}
						known := false
						for _, cs := range m.callees {
							if cs.call == ssa.Instruction(x) {
								known = true
							}
						}
						if !known {
							m.callees = append(m.callees, c08CalleeSite{x, m.an.member(t, t.Params[0])})
						}
					default:
						m.escape = fmt.Sprintf("the constraint pointer flows into %T (%s)", in, in.String())
					}
				}
			}
		}
	}
}

// markCompile: m is a part of a matcher builder that returns nothing; so are the
// helpers without results it hands the constraint on to.
func (m *c08Member) markCompile(depth int) {
	if m.compile || depth > c08MaxDepth {
		return
	}
	m.compile = true
	for _, cs := range m.callees {
		if cs.mem.fn.Signature.Results().Len() == 0 {
			cs.mem.markCompile(depth + 1)
		}
	}
}

func (m *c08Member) scanRootCall(c *ssa.Call, operandIdx int) {
	cc := &c.Call
	if cc.IsInvoke() {
		m.escape = "the constraint pointer is passed to an interface method (" + c.String() + ")"
		return
	}
	argIdx := -1
	for i, a := range cc.Args {
		if m.isRoot(a) {
			argIdx = i
		}
	}
	if argIdx < 0 {
		m.escape = "the constraint pointer is the callee of " + c.String()
		return
	}
	if f := cc.StaticCallee(); f != nil {
		if m.an.pureHelper(f) && len(cc.Args) == 1 {
			return // a set-test helper: interpreted where its result is branched on
		}
		if !InModule(f) || len(f.Blocks) == 0 || argIdx >= len(f.Params) {
			m.escape = "the constraint pointer is passed to " + FuncKeyAny(f) + ", which has no analysable body"
			return
		}
		sub := m.an.member(f, f.Params[argIdx])
		if m.compile && f.Signature.Results().Len() == 0 {
			// a part of a matcher builder split off into a helper that returns
			// nothing: it can only contribute by adding conditions
			sub.markCompile(0)
		}
		for _, cs := range m.callees {
			if cs.call == ssa.Instruction(c) {
				return
			}
		}
		m.callees = append(m.callees, c08CalleeSite{c, sub})
		return
	}
	dr := m.an.dynTargets(c)
	if dr.why != "" {
		m.escape = "the constraint pointer is passed to a dynamically chosen function (" + c.String() + "): " + dr.why
		return
	}
	if dr.getterFields(argIdx) == nil {
		m.escape = "the constraint pointer is passed to a dynamically chosen function (" + c.String() + ") whose possible targets are not all plain field getters"
	}
	_ = operandIdx
}

// family: m and every function that (transitively) receives the same struct.
func (m *c08Member) family() []*c08Member {
	seen := map[*c08Member]bool{m: true}
	out := []*c08Member{m}
	for i := 0; i < len(out); i++ {
		for _, cs := range out[i].callees {
			if !seen[cs.mem] {
				seen[cs.mem] = true
				out = append(out, cs.mem)
			}
		}
	}
	return out
}

// ---- dynamically chosen functions read from a struct field (table-driven matchers)

type c08DynRes struct {
	why     string
	targets []*ssa.Function
}

// getterFields: when every target is a plain getter `return p.X` of its
// parameter argIdx, the fields X; nil otherwise.
func (d *c08DynRes) getterFields(argIdx int) []string {
	var out []string
	for _, t := range d.targets {
		f := c08PlainGetter(t, argIdx)
		if f == "" {
			return nil
		}
		if !c08Has(out, f) {
			out = append(out, f)
		}
	}
	return out
}

func c08PlainGetter(t *ssa.Function, argIdx int) string {
	if len(t.Blocks) != 1 || argIdx >= len(t.Params) || len(t.FreeVars) != 0 {
		return ""
	}
	ins := nonDebug(t.Blocks[0].Instrs)
	if len(ins) != 3 {
		return ""
	}
	fa, ok1 := ins[0].(*ssa.FieldAddr)
	ld, ok2 := ins[1].(*ssa.UnOp)
	rt, ok3 := ins[2].(*ssa.Return)
	if !ok1 || !ok2 || !ok3 || fa.X != ssa.Value(t.Params[argIdx]) || ld.Op != token.MUL || ld.X != ssa.Value(fa) || len(rt.Results) != 1 || rt.Results[0] != ssa.Value(ld) {
		return ""
	}
	_, _, f, ok := c08FieldAddr(fa)
	if !ok {
		return ""
	}
	return f
}

// dynTargets resolves a call of a function value loaded from field k of an
// unexported struct type N: the possible targets are the function values stored
// into N.k anywhere in N's package (composite literals are field stores in SSA).
func (an *c08LeafAn) dynTargets(c *ssa.Call) *c08DynRes {
	ld, ok := originValue(c.Call.Value).(*ssa.UnOp)
	if !ok || ld.Op != token.MUL {
		return &c08DynRes{why: "the called value is not read from a struct field"}
	}
	fa, ok := ld.X.(*ssa.FieldAddr)
	if !ok {
		return &c08DynRes{why: "the called value is not read from a struct field"}
	}
	_, named, field, ok := c08FieldAddr(fa)
	if !ok || named.Obj().Pkg() == nil || named.Obj().Exported() || !strings.HasPrefix(named.Obj().Pkg().Path(), modPrefix) {
		return &c08DynRes{why: "the called value is read from a field of a type that other packages can construct"}
	}
	key := named.Obj().Pkg().Path() + "." + named.Obj().Name() + "." + field
	if r := an.dyn[key]; r != nil {
		return r
	}
	res := &c08DynRes{}
	an.dyn[key] = res
	rel := strings.TrimPrefix(named.Obj().Pkg().Path(), modPrefix)
	for _, g := range an.p.FuncsIn(rel) {
		for _, b := range g.Blocks {
			for _, in := range b.Instrs {
				switch x := in.(type) {
				case *ssa.Store:
					sfa, ok := x.Addr.(*ssa.FieldAddr)
					if !ok {
						continue
					}
					_, n2, f2, ok := c08FieldAddr(sfa)
					if !ok || n2 != named || f2 != field {
						continue
					}
					switch t := originValue(x.Val).(type) {
					case *ssa.Function:
						if len(t.Blocks) == 0 {
							res.why = "a target without body (" + t.String() + ") is stored into " + key
						}
						res.targets = append(res.targets, t)
					case *ssa.MakeClosure:
						res.targets = append(res.targets, t.Fn.(*ssa.Function))
					default:
						res.why = "a value that is not a declared function or literal is stored into " + key
					}
				case *ssa.ChangeType:
					if types.Identical(x.Type(), named) {
						res.why = "values of another type are converted to " + named.Obj().Name()
					}
				case *ssa.Convert:
					if types.Identical(x.Type(), named) {
						res.why = "values of another type are converted to " + named.Obj().Name()
					}
				}
			}
		}
	}
	if len(res.targets) == 0 && res.why == "" {
		res.why = "no function is ever stored into " + key
	}
	return res
}

// ---- set-test helpers (pure boolean functions of the struct's fields)

func c08OnlyPanics(b *ssa.BasicBlock, seen map[*ssa.BasicBlock]bool) bool {
	if seen[b] {
		return true
	}
	seen[b] = true
	if len(b.Succs) == 0 {
		_, isPanic := b.Instrs[len(b.Instrs)-1].(*ssa.Panic)
		return isPanic
	}
	for _, s := range b.Succs {
		if !c08OnlyPanics(s, seen) {
			return false
		}
	}
	return true
}

// pureHelper: a method with the struct as only parameter and one bool result
// whose body (outside blocks that can only panic) consists of field loads,
// comparisons and boolean control flow.
func (an *c08LeafAn) pureHelper(f *ssa.Function) bool {
	if v, ok := an.pure[f]; ok {
		return v == 1
	}
	an.pure[f] = 2
	ok := len(f.Params) == 1 && len(f.Blocks) > 0 && len(f.AnonFuncs) == 0 && f.Signature.Results().Len() == 1 && c08IsBool(f.Signature.Results().At(0).Type()) && c08ConstraintStructPtr(f.Params[0].Type()) != nil
	if ok {
		if _, why := c08Paths(f, 2000); why != "" {
			ok = false
		}
	}
	if ok {
	blocks:
		for _, b := range f.Blocks {
			if c08OnlyPanics(b, map[*ssa.BasicBlock]bool{}) {
				continue
			}
			for _, in := range b.Instrs {
				switch x := in.(type) {
				case *ssa.FieldAddr:
					if x.X != ssa.Value(f.Params[0]) {
						ok = false
					}
				case *ssa.UnOp:
					if x.Op == token.MUL {
						_, isFA := x.X.(*ssa.FieldAddr)
						_, isG := x.X.(*ssa.Global)
						if !isFA && !isG {
							ok = false
						}
					} else if x.Op != token.NOT {
						ok = false
					}
				case *ssa.BinOp, *ssa.Phi, *ssa.If, *ssa.Jump, *ssa.Return, *ssa.DebugRef:
				default:
					ok = false
				}
				if !ok {
					break blocks
				}
			}
		}
	}
	if ok {
		an.pure[f] = 1
	}
	return ok
}

func c08HelperFields(f *ssa.Function) []string {
	var out []string
	for _, b := range f.Blocks {
		for _, in := range b.Instrs {
			if fa, ok := in.(*ssa.FieldAddr); ok && fa.X == ssa.Value(f.Params[0]) {
				if _, _, n, ok := c08FieldAddr(fa); ok && !c08Has(out, n) {
					out = append(out, n)
				}
			}
		}
	}
	sort.Strings(out)
	return out
}

// c08HelperEval evaluates a pure helper under an assignment field -> set?
// (fields not in the assignment, and conditions on anything else, are unknown:
// both edges are explored). ok=false when the result is not determined.
func c08HelperEval(f *ssa.Function, assign map[string]bool) (res, ok bool) {
	paths, why := c08Paths(f, 2000)
	if why != "" {
		return false, false
	}
	var eval func(pth c08Path, v ssa.Value) (bool, bool)
	eval = func(pth c08Path, v ssa.Value) (bool, bool) {
		v = pth.norm(v)
		switch x := v.(type) {
		case *ssa.Const:
			return c08ConstBool(x)
		case *ssa.UnOp:
			if x.Op == token.NOT {
				r, k := eval(pth, x.X)
				return !r, k
			}
			if base, _, fld, isF := c08FieldLoad(x); isF && base == ssa.Value(f.Params[0]) && c08IsBool(x.Type()) {
				set, known := assign[fld]
				return set, known
			}
		case *ssa.BinOp:
			if x.Op != token.EQL && x.Op != token.NEQ {
				return false, false
			}
			for side := 0; side < 2; side++ {
				a, b := x.X, x.Y
				if side == 1 {
					a, b = b, a
				}
				k, isK := pth.norm(b).(*ssa.Const)
				base, _, fld, isF := c08FieldLoad(pth.norm(a))
				if !isK || !isF || base != ssa.Value(f.Params[0]) || !c08ZeroK(k) {
					continue
				}
				set, known := assign[fld]
				if !known {
					return false, false
				}
				return set == (x.Op == token.NEQ), true
			}
		}
		return false, false
	}
	seenT, seenF := false, false
	for _, pth := range paths {
		feasible := true
		for _, br := range pth.branches() {
			if r, k := eval(pth, br.Cond); k && r != br.Val {
				feasible = false
				break
			}
		}
		if !feasible {
			continue
		}
		last := pth[len(pth)-1]
		ret, isRet := last.Instrs[len(last.Instrs)-1].(*ssa.Return)
		if !isRet {
			continue // panics
		}
		r, k := eval(pth, ret.Results[0])
		if !k {
			return false, false
		}
		if r {
			seenT = true
		} else {
			seenF = true
		}
	}
	if seenT == seenF {
		return false, false
	}
	return seenT, true
}

// c08HelperPolarity: how does the helper's result react to field F becoming
// set, everything else equal? "indep" | "up" (false->true only) | "down" | "".
func c08HelperPolarity(f *ssa.Function, F string, known map[string]bool) string {
	fields := c08HelperFields(f)
	if !c08Has(fields, F) {
		return "indep"
	}
	var free []string
	for _, x := range fields {
		if _, k := known[x]; !k && x != F {
			free = append(free, x)
		}
	}
	if len(free) > 10 {
		return ""
	}
	up, down := false, false
	for mask := 0; mask < 1<<len(free); mask++ {
		as := map[string]bool{}
		for k, v := range known {
			as[k] = v
		}
		for i, x := range free {
			as[x] = mask&(1<<i) != 0
		}
		as[F] = false
		r0, ok0 := c08HelperEval(f, as)
		as[F] = true
		r1, ok1 := c08HelperEval(f, as)
		if !ok0 || !ok1 {
			return ""
		}
		if r1 && !r0 {
			up = true
		}
		if r0 && !r1 {
			down = true
		}
	}
	switch {
	case up && down:
		return ""
	case up:
		return "up"
	case down:
		return "down"
	}
	return "indep"
}

// ---- one member under one set of facts

// c08ZeroTests: bool methods whose result on the zero value of the receiver
// type is known. One symbol, one reason.
var c08ZeroTests = map[string]struct {
	onZero bool
	reason string
}{
	"time.(Time).IsZero":             {true, "the zero time.Time is the zero time instant"},
	"pkg/blob.(Ref).Valid":           {false, "the zero blob.Ref has no digest"},
	"pkg/types.(Time3339).IsAnyZero": {true, "the zero Time3339 is the zero time instant"},
}

type c08Div struct {
	B, T, U   *ssa.BasicBlock
	cond      ssa.Value // the condition tested (the If's, or the value a phi-if block receives)
	viaHelper bool
	threaded  bool                     // T or U were reached through a phi-if block: no dominance regions
	passed    map[*ssa.BasicBlock]bool // phi-if blocks passed through
	why       string
}

// c08PhiIf: block b only forwards a boolean computed by its predecessors
// (`x := a || b; if x {`): phis, and an If on one of them; nothing escapes.
func c08PhiIf(b *ssa.BasicBlock) *ssa.Phi {
	ifi := c08LastIf(b)
	if ifi == nil {
		return nil
	}
	cp, ok := ifi.Cond.(*ssa.Phi)
	if !ok || cp.Block() != b {
		return nil
	}
	for _, in := range b.Instrs {
		switch x := in.(type) {
		case *ssa.Phi:
			if x.Referrers() != nil {
				for _, r := range *x.Referrers() {
					if r.Block() != b {
						return nil
					}
				}
			}
		case *ssa.DebugRef, *ssa.If:
		default:
			return nil
		}
	}
	return cp
}

func c08PredEdge(ph *ssa.Phi, from *ssa.BasicBlock) ssa.Value {
	var v ssa.Value
	n := 0
	for i, p := range ph.Block().Preds {
		if p == from {
			v = ph.Edges[i]
			n++
		}
	}
	if n != 1 {
		return nil
	}
	return v
}

// c08Thread: where control really goes when block `to` is entered from `from`:
// through phi-if blocks whose condition is a constant on that edge.
func c08Thread(from, to *ssa.BasicBlock, passed map[*ssa.BasicBlock]bool) *ssa.BasicBlock {
	for i := 0; i < 8; i++ {
		ph := c08PhiIf(to)
		if ph == nil {
			return to
		}
		e := c08PredEdge(ph, from)
		if e == nil {
			return to
		}
		k, ok := c08ConstBool(e)
		if !ok {
			return to
		}
		if passed != nil {
			passed[to] = true
		}
		next := to.Succs[1]
		if k {
			next = to.Succs[0]
		}
		from, to = to, next
	}
	return to
}

// c08Branch2: the two-way decision block b ends in: its own If, or — when b
// jumps into a phi-if block with a value of its own — that block's If.
func c08Branch2(b *ssa.BasicBlock, passed map[*ssa.BasicBlock]bool) (cond ssa.Value, s0, s1 *ssa.BasicBlock, ok bool) {
	if ifi := c08LastIf(b); ifi != nil {
		if b.Succs[0] == b.Succs[1] {
			return nil, nil, nil, false
		}
		return ifi.Cond, c08Thread(b, b.Succs[0], passed), c08Thread(b, b.Succs[1], passed), true
	}
	if len(b.Succs) != 1 {
		return nil, nil, nil, false
	}
	x := b.Succs[0]
	ph := c08PhiIf(x)
	if ph == nil {
		return nil, nil, nil, false
	}
	e := c08PredEdge(ph, b)
	if e == nil {
		return nil, nil, nil, false
	}
	if _, isConst := c08ConstBool(e); isConst {
		return nil, nil, nil, false
	}
	if passed != nil {
		passed[x] = true
	}
	return e, c08Thread(x, x.Succs[0], passed), c08Thread(x, x.Succs[1], passed), true
}

type c08FieldCx struct {
	m      *c08Member
	facts  map[string]c08Fact
	live   map[*ssa.BasicBlock]bool
	divs   map[string][]c08Div
	vonlyC map[string]map[*ssa.BasicBlock]bool
	zonlyC map[string]map[*ssa.BasicBlock]bool
}

func c08FactsSig(facts map[string]c08Fact) string {
	var ks []string
	for k, f := range facts {
		if f.kind != "" {
			ks = append(ks, k+":"+f.kind+":"+f.str+fmt.Sprint(f.val))
		}
	}
	sort.Strings(ks)
	return strings.Join(ks, ",")
}

func (m *c08Member) cx(facts map[string]c08Fact) *c08FieldCx {
	sig := c08FactsSig(facts)
	if cx := m.cxs[sig]; cx != nil {
		return cx
	}
	cx := &c08FieldCx{m: m, facts: facts, divs: map[string][]c08Div{}, vonlyC: map[string]map[*ssa.BasicBlock]bool{}, zonlyC: map[string]map[*ssa.BasicBlock]bool{}}
	m.cxs[sig] = cx
	cx.live = map[*ssa.BasicBlock]bool{}
	var walk func(b *ssa.BasicBlock)
	walk = func(b *ssa.BasicBlock) {
		if cx.live[b] {
			return
		}
		cx.live[b] = true
		for _, s := range cx.succs(b) {
			walk(s)
		}
	}
	if len(m.fn.Blocks) > 0 {
		walk(m.fn.Blocks[0])
	}
	return cx
}

func c08LastIf(b *ssa.BasicBlock) *ssa.If {
	if len(b.Instrs) == 0 || len(b.Succs) != 2 {
		return nil
	}
	ifi, _ := b.Instrs[len(b.Instrs)-1].(*ssa.If)
	return ifi
}

func (cx *c08FieldCx) succs(b *ssa.BasicBlock) []*ssa.BasicBlock {
	if ifi := c08LastIf(b); ifi != nil {
		if v, known := cx.evalFacts(ifi.Cond); known {
			if v {
				return b.Succs[:1]
			}
			return b.Succs[1:2]
		}
	}
	return b.Succs
}

func (cx *c08FieldCx) knownSet() map[string]bool {
	out := map[string]bool{}
	for f, x := range cx.facts {
		switch x.kind {
		case "zero":
			out[f] = false
		case "nonzero", "eq":
			out[f] = true
		}
	}
	return out
}

// evalFacts evaluates a branch condition from what the predicate path knows
// about the fields it tested.
func (cx *c08FieldCx) evalFacts(cond ssa.Value) (val, known bool) {
	switch c := cond.(type) {
	case *ssa.Const:
		return c08ConstBool(c)
	case *ssa.UnOp:
		if c.Op == token.NOT {
			v, k := cx.evalFacts(c.X)
			return !v, k
		}
	case *ssa.BinOp:
		if c.Op != token.EQL && c.Op != token.NEQ {
			return false, false
		}
		for side := 0; side < 2; side++ {
			x, y := c.X, c.Y
			if side == 1 {
				x, y = y, x
			}
			k, isK := y.(*ssa.Const)
			fs := cx.m.fieldsOf(x)
			if !isK || len(fs) != 1 {
				continue
			}
			ft, has := cx.facts[fs[0]]
			if !has {
				return false, false
			}
			var eq, ok bool
			switch ft.kind {
			case "zero":
				eq, ok = c08ZeroK(k), true
			case "nonzero":
				if c08ZeroK(k) {
					eq, ok = false, true
				}
			case "eq":
				if c08ZeroK(k) {
					eq, ok = false, true
				} else if k.Value != nil {
					eq, ok = k.Value.ExactString() == ft.str, true
				}
			}
			if !ok {
				return false, false
			}
			return eq == (c.Op == token.EQL), true
		}
		return false, false
	case *ssa.Call:
		f := c.Call.StaticCallee()
		if f == nil || c.Call.IsInvoke() || len(c.Call.Args) != 1 {
			return false, false
		}
		if cx.m.isRoot(c.Call.Args[0]) && cx.m.an.pureHelper(f) {
			return c08HelperEval(f, cx.knownSet())
		}
		fs := cx.m.fieldsOf(c.Call.Args[0])
		if len(fs) != 1 {
			return false, false
		}
		ft, has := cx.facts[fs[0]]
		if !has {
			return false, false
		}
		key := FuncKeyAny(f)
		if ft.kind == "call" && ft.str == key {
			return ft.val, true
		}
		if zt, ok := c08ZeroTests[key]; ok && ft.kind == "zero" {
			return zt.onZero, true
		}
		return false, false
	}
	if fs := cx.m.fieldsOf(cond); len(fs) == 1 && c08IsBool(cond.Type()) {
		switch cx.facts[fs[0]].kind {
		case "zero":
			return false, true
		case "nonzero":
			return true, true
		}
	}
	return false, false
}

// zeroEval: the value of a test condition when field F holds its zero value
// (all other inputs of the condition must be constants). ok=false when the
// condition is not such a test of F.
func (cx *c08FieldCx) zeroEval(F string, v ssa.Value) (val, ok bool) {
	switch c := v.(type) {
	case *ssa.UnOp:
		if c.Op == token.NOT {
			r, k := cx.zeroEval(F, c.X)
			return !r, k
		}
	case *ssa.BinOp:
		for side := 0; side < 2; side++ {
			x, y := c.X, c.Y
			if side == 1 {
				x, y = y, x
			}
			k, isK := y.(*ssa.Const)
			if !isK || !c08Has(cx.m.fieldsOf(x), F) {
				continue
			}
			switch c.Op {
			case token.EQL:
				return c08ZeroK(k), true
			case token.NEQ:
				return !c08ZeroK(k), true
			}
			if k.Value != nil && k.Value.Kind() == constant.Int {
				l, r := int64(0), k.Int64()
				if side == 1 {
					l, r = r, l
				}
				return c08Cmp(c.Op, l, r)
			}
		}
		return false, false
	case *ssa.Call:
		f := c.Call.StaticCallee()
		if f != nil && !c.Call.IsInvoke() && len(c.Call.Args) == 1 && c08Has(cx.m.fieldsOf(c.Call.Args[0]), F) {
			if zt, ok := c08ZeroTests[FuncKeyAny(f)]; ok {
				return zt.onZero, true
			}
		}
		return false, false
	}
	if c08Has(cx.m.fieldsOf(v), F) && c08IsBool(v.Type()) {
		return false, true
	}
	return false, false
}

// exactTest: cond is equivalent to "field G is (not) its zero value":
// condWhenZero is cond's value when G is zero, and cond has the other value
// whenever G is not zero.
func (cx *c08FieldCx) exactTest(cond ssa.Value) (G string, condWhenZero, ok bool) {
	switch c := cond.(type) {
	case *ssa.UnOp:
		if c.Op == token.NOT {
			g, z, k := cx.exactTest(c.X)
			return g, !z, k
		}
	case *ssa.BinOp:
		if c.Op != token.EQL && c.Op != token.NEQ {
			return "", false, false
		}
		for side := 0; side < 2; side++ {
			x, y := c.X, c.Y
			if side == 1 {
				x, y = y, x
			}
			k, isK := y.(*ssa.Const)
			fs := cx.m.fieldsOf(x)
			if isK && len(fs) == 1 && c08ZeroK(k) {
				return fs[0], c.Op == token.EQL, true
			}
		}
		return "", false, false
	}
	if fs := cx.m.fieldsOf(cond); len(fs) == 1 && c08IsBool(cond.Type()) {
		return fs[0], false, true
	}
	return "", false, false
}

// helperTest: cond is (a negation of) a call of a pure set-test helper on the root.
func (cx *c08FieldCx) helperTest(cond ssa.Value) (f *ssa.Function, neg, ok bool) {
	for {
		u, isU := cond.(*ssa.UnOp)
		if !isU || u.Op != token.NOT {
			break
		}
		cond, neg = u.X, !neg
	}
	c, isC := cond.(*ssa.Call)
	if !isC || c.Call.IsInvoke() || len(c.Call.Args) != 1 || !cx.m.isRoot(c.Call.Args[0]) {
		return nil, false, false
	}
	f = c.Call.StaticCallee()
	if f == nil || !cx.m.an.pureHelper(f) {
		return nil, false, false
	}
	return f, neg, true
}

// tests: the branches of the member's own body whose outcome depends on F
// being set.
func (cx *c08FieldCx) tests(F string) []c08Div {
	if d, ok := cx.divs[F]; ok {
		return d
	}
	var out []c08Div
	for _, b := range cx.m.fn.Blocks {
		if !cx.live[b] || (c08LastIf(b) != nil && len(cx.succs(b)) != 2) {
			continue
		}
		passed := map[*ssa.BasicBlock]bool{}
		cond, s0, s1, ok := c08Branch2(b, passed)
		if !ok {
			continue
		}
		mk := func(t, u *ssa.BasicBlock, viaHelper bool) c08Div {
			return c08Div{B: b, T: t, U: u, cond: cond, viaHelper: viaHelper, passed: passed, threaded: len(passed) > 0}
		}
		if z, ok := cx.zeroEval(F, cond); ok {
			if z {
				out = append(out, mk(s1, s0, false))
			} else {
				out = append(out, mk(s0, s1, false))
			}
			continue
		}
		if h, neg, ok := cx.helperTest(cond); ok {
			switch c08HelperPolarity(h, F, cx.knownSet()) {
			case "indep":
			case "up":
				if neg {
					out = append(out, mk(s1, s0, true))
				} else {
					out = append(out, mk(s0, s1, true))
				}
			case "down":
				if neg {
					out = append(out, mk(s0, s1, true))
				} else {
					out = append(out, mk(s1, s0, true))
				}
			default:
				out = append(out, c08Div{B: b, why: "the result of " + FuncKey(h) + " does not react monotonically to " + F + " being set"})
			}
		}
	}
	cx.divs[F] = out
	return out
}

func c08DomRegion(entry, from *ssa.BasicBlock) map[*ssa.BasicBlock]bool {
	for _, p := range entry.Preds {
		if p != from && !entry.Dominates(p) {
			return nil
		}
	}
	out := map[*ssa.BasicBlock]bool{}
	for _, b := range entry.Parent().Blocks {
		if entry.Dominates(b) {
			out[b] = true
		}
	}
	return out
}

// vonly: blocks that execute only when F is set (dominated by the set-edge of
// a direct test of F).
func (cx *c08FieldCx) vonly(F string) map[*ssa.BasicBlock]bool {
	if r, ok := cx.vonlyC[F]; ok {
		return r
	}
	out := map[*ssa.BasicBlock]bool{}
	zout := map[*ssa.BasicBlock]bool{}
	cx.vonlyC[F], cx.zonlyC[F] = out, zout
	for _, d := range cx.tests(F) {
		if d.why != "" || d.viaHelper || d.threaded {
			continue
		}
		for b := range c08DomRegion(d.T, d.B) {
			out[b] = true
		}
		if G, _, ok := cx.exactTest(d.cond); ok && G == F {
			for b := range c08DomRegion(d.U, d.B) {
				zout[b] = true
			}
		}
	}
	return out
}

func (cx *c08FieldCx) zonly(F string) map[*ssa.BasicBlock]bool {
	cx.vonly(F)
	return cx.zonlyC[F]
}

// guarded: instruction `in` (of the member or one of its literals) runs only
// when F is set, or not at all under the predicate's facts.
func (cx *c08FieldCx) guarded(F string, in ssa.Instruction) bool {
	g := in.Parent()
	if g == cx.m.fn {
		return !cx.live[in.Block()] || cx.vonly(F)[in.Block()]
	}
	par := g.Parent()
	if par == nil {
		return false
	}
	sites := 0
	for _, b := range par.Blocks {
		for _, pin := range b.Instrs {
			if mc, ok := pin.(*ssa.MakeClosure); ok && mc.Fn == ssa.Value(g) {
				sites++
				if !cx.guarded(F, mc) {
					return false
				}
			}
		}
	}
	return true
}

type c08ValueUse struct {
	in ssa.Instruction
	op ssa.Value
}

// valueUses: every instruction that consumes F's value (or address) other than
// as an interpreted test.
func (cx *c08FieldCx) valueUses(F string) []c08ValueUse {
	var out []c08ValueUse
	isTestChain := func(v ssa.Value) bool {
		var chk func(v ssa.Value, d int) bool
		chk = func(v ssa.Value, d int) bool {
			refs := v.Referrers()
			if refs == nil || d > 4 {
				return false
			}
			for _, r := range *refs {
				switch x := r.(type) {
				case *ssa.If, *ssa.DebugRef:
				case *ssa.UnOp:
					if x.Op != token.NOT || !chk(x, d+1) {
						return false
					}
				case *ssa.Phi:
					if c08PhiIf(x.Block()) != x {
						return false
					}
				default:
					return false
				}
			}
			return true
		}
		if _, ok := cx.zeroEval(F, v); !ok {
			return false
		}
		return v.Parent() == cx.m.fn && chk(v, 0)
	}
	for _, g := range cx.m.funcs {
		for _, b := range g.Blocks {
			if g == cx.m.fn && !cx.live[b] {
				continue
			}
			for _, in := range b.Instrs {
				if _, ok := in.(*ssa.DebugRef); ok {
					continue
				}
				if fa, ok := in.(*ssa.FieldAddr); ok {
					if f, isR := cx.m.rootField(fa); isR && f == F && fa.Referrers() != nil {
						for _, r := range *fa.Referrers() {
							if u, isLoad := r.(*ssa.UnOp); isLoad && u.Op == token.MUL {
								continue
							}
							if _, isDbg := r.(*ssa.DebugRef); isDbg {
								continue
							}
							out = append(out, c08ValueUse{r, fa})
						}
					}
					continue
				}
				for _, op := range in.Operands(nil) {
					if *op == nil || !c08Has(cx.m.fieldsOf(*op), F) {
						continue
					}
					switch x := in.(type) {
					case *ssa.If:
						if g == cx.m.fn {
							continue
						}
					case *ssa.Store:
						if al, isAl := x.Addr.(*ssa.Alloc); isAl && x.Val == *op && plainVariable(al) {
							continue
						}
					case *ssa.UnOp:
						if x.Op == token.MUL {
							continue // the load of a cell, not a use of its content
						}
					}
					if v, isV := in.(ssa.Value); isV && isTestChain(v) {
						continue
					}
					out = append(out, c08ValueUse{in, *op})
					break
				}
			}
		}
	}
	return out
}

// ---- the region check of one test of F

func (cx *c08FieldCx) reach(start, stop *ssa.BasicBlock) (set map[*ssa.BasicBlock]bool, hitStop bool) {
	set = map[*ssa.BasicBlock]bool{}
	var walk func(b *ssa.BasicBlock)
	walk = func(b *ssa.BasicBlock) {
		if b == stop {
			hitStop = true
			return
		}
		if set[b] {
			return
		}
		set[b] = true
		for _, s := range cx.succs(b) {
			walk(s)
		}
	}
	walk(start)
	return
}

func (cx *c08FieldCx) verdictIdx() (boolIdx, errIdx int) {
	boolIdx, errIdx = -1, -1
	res := cx.m.fn.Signature.Results()
	for i := 0; i < res.Len(); i++ {
		switch {
		case boolIdx < 0 && c08IsBool(res.At(i).Type()):
			boolIdx = i
		case isErrorType(res.At(i).Type()):
			errIdx = i
		}
	}
	return
}

// harmless: leaving the function through block b cannot report a match:
// panic, `return false, …`, or `return …, err` with err known non-nil.
func (cx *c08FieldCx) harmless(b *ssa.BasicBlock) bool {
	last := b.Instrs[len(b.Instrs)-1]
	if _, ok := last.(*ssa.Panic); ok {
		return true
	}
	ret, ok := last.(*ssa.Return)
	if !ok || cx.m.compile {
		return false
	}
	bi, ei := cx.verdictIdx()
	if bi < 0 || bi >= len(ret.Results) {
		return false
	}
	bv := ret.Results[bi]
	if c, isC := c08ConstBool(bv); isC {
		return !c
	}
	var ev ssa.Value
	if ei >= 0 && ei < len(ret.Results) {
		ev = ret.Results[ei]
	}
	// strict identity (no phi leniency): the very value returned was tested
	same := func(a, b ssa.Value) bool {
		oa, ob := originValue(a), originValue(b)
		_, pa := oa.(*ssa.Phi)
		_, pb := ob.(*ssa.Phi)
		return oa == ob && !pa && !pb
	}
	says := func(cond ssa.Value, val bool) bool {
		for {
			u, isU := cond.(*ssa.UnOp)
			if !isU || u.Op != token.NOT {
				break
			}
			cond, val = u.X, !val
		}
		if !val && same(cond, bv) {
			return true
		}
		if bo, isB := cond.(*ssa.BinOp); isB && ev != nil && (bo.Op == token.EQL || bo.Op == token.NEQ) {
			var other ssa.Value
			switch {
			case IsNilConst(bo.Y):
				other = bo.X
			case IsNilConst(bo.X):
				other = bo.Y
			}
			if other != nil && same(other, ev) && (bo.Op == token.NEQ) == val {
				return true
			}
		}
		return false
	}
	known := func(x *ssa.BasicBlock) bool {
		for _, f := range FactsAt(x) {
			if says(f.Cond, f.Val) {
				return true
			}
		}
		return false
	}
	if known(b) {
		return true
	}
	if _, isPhi := bv.(*ssa.Phi); isPhi || len(b.Preds) == 0 {
		return false
	}
	for _, p := range b.Preds {
		if !cx.live[p] {
			continue
		}
		if known(p) {
			continue
		}
		ifi := c08LastIf(p)
		if ifi == nil || p.Succs[0] == p.Succs[1] || !says(ifi.Cond, p.Succs[0] == b) {
			return false
		}
	}
	return true
}

func (cx *c08FieldCx) returnsTrue(b *ssa.BasicBlock) bool {
	ret, ok := b.Instrs[len(b.Instrs)-1].(*ssa.Return)
	if !ok || cx.m.compile {
		return false
	}
	bi, _ := cx.verdictIdx()
	if bi < 0 || bi >= len(ret.Results) {
		return false
	}
	c, isC := c08ConstBool(ret.Results[bi])
	return isC && c
}

func c08AllExits(set map[*ssa.BasicBlock]bool, pred func(*ssa.BasicBlock) bool) (all bool, n int) {
	all = true
	for b := range set {
		if len(b.Succs) == 0 {
			n++
			if !pred(b) {
				all = false
			}
		}
	}
	return
}

// pureStep: block b only evaluates a condition (no calls with effects, no
// stores, nothing it defines is used elsewhere) and branches to T or to `next`.
func (cx *c08FieldCx) pureStep(b, T *ssa.BasicBlock, passed map[*ssa.BasicBlock]bool) (next *ssa.BasicBlock, cond ssa.Value, condToNext bool) {
	if b == T || len(b.Preds) != 1 {
		return nil, nil, false
	}
	local := map[*ssa.BasicBlock]bool{}
	c, s0, s1, ok := c08Branch2(b, local)
	if !ok {
		return nil, nil, false
	}
	switch {
	case s0 == T && s1 != T:
		next, condToNext = s1, false
	case s1 == T && s0 != T:
		next, condToNext = s0, true
	default:
		return nil, nil, false
	}
	for _, in := range b.Instrs {
		switch x := in.(type) {
		case *ssa.FieldAddr, *ssa.BinOp, *ssa.DebugRef, *ssa.If, *ssa.Jump:
		case *ssa.UnOp:
		case *ssa.Call:
			f := x.Call.StaticCallee()
			if f == nil {
				return nil, nil, false
			}
			if _, ok := c08ZeroTests[FuncKeyAny(f)]; !ok {
				return nil, nil, false
			}
		default:
			return nil, nil, false
		}
		if v, ok := in.(ssa.Value); ok && v.Referrers() != nil {
			for _, r := range *v.Referrers() {
				if r.Block() != b && !local[r.Block()] {
					return nil, nil, false
				}
			}
		}
	}
	for x := range local {
		passed[x] = true
	}
	return next, c, condToNext
}

func c08AddrBase(v ssa.Value) ssa.Value {
	for i := 0; i < 8; i++ {
		switch x := v.(type) {
		case *ssa.FieldAddr:
			v = x.X
		case *ssa.IndexAddr:
			v = x.X
		default:
			return v
		}
	}
	return v
}

// c08RefBlocks: the blocks of every instruction that touches the variable
// (through field/element addresses and captures).
func c08RefBlocks(v ssa.Value, out map[*ssa.BasicBlock]bool, depth int) (escapes bool) {
	refs := v.Referrers()
	if refs == nil || depth > 6 {
		return false
	}
	for _, r := range *refs {
		switch x := r.(type) {
		case *ssa.DebugRef:
			continue
		case *ssa.FieldAddr:
			if c08RefBlocks(x, out, depth+1) {
				escapes = true
			}
		case *ssa.IndexAddr:
			if c08RefBlocks(x, out, depth+1) {
				escapes = true
			}
		case *ssa.MakeClosure:
			escapes = true
		}
		out[r.Block()] = true
	}
	return escapes
}

// ---- adders: how a matcher builder accumulates its conditions
//
// A matcher builder adds one condition per set field through an ADDER. Which
// syntactic form the adder has is irrelevant: a function literal capturing the
// builder's locals, a method of an accumulator struct (called directly or through a
// bound method value), a package-level function that receives the accumulator's
// address, or any of these calling another one. What makes a call an adder
// call is what happens to the function-typed argument: on EVERY path through the
// callee it is stored (into a variable, field or slice element) or handed on
// to a callee of which the same holds, and it is used for nothing else.

const c08AdderDepth = 4

type c08AdderKey struct {
	fn  *ssa.Function
	idx int
}

// c08CallTarget: the function a call enters, its Params aligned with
// Call.Args: the static callee (receiver first), or the literal / bound-method
// wrapper the called closure value was made from.
func c08CallTarget(cc *ssa.CallCommon) *ssa.Function {
	if cc.IsInvoke() {
		return nil
	}
	var f *ssa.Function
	switch v := originValue(cc.Value).(type) {
	case *ssa.Function:
		f = v
	case *ssa.MakeClosure:
		f, _ = v.Fn.(*ssa.Function)
	}
	if f == nil {
		f = cc.StaticCallee()
	}
	if f == nil || len(f.Blocks) == 0 || len(f.Params) != len(cc.Args) {
		return nil
	}
	return f
}

// adderParam: parameter idx of g is added (see above) on every path through g.
func (an *c08LeafAn) adderParam(g *ssa.Function, idx, depth int) bool {
	if an.adders == nil {
		an.adders = map[c08AdderKey]int{}
	}
	key := c08AdderKey{g, idx}
	if v, ok := an.adders[key]; ok {
		return v == 1 // 2: in progress (recursion) or refuted
	}
	an.adders[key] = 2
	if an.adderParam1(g, idx, depth) {
		an.adders[key] = 1
		return true
	}
	return false
}

func (an *c08LeafAn) adderParam1(g *ssa.Function, idx, depth int) bool {
	if depth > c08AdderDepth || len(g.Blocks) == 0 || idx >= len(g.Params) || g.Signature.Results().Len() != 0 {
		return false
	}
	prm := g.Params[idx]
	if _, ok := prm.Type().Underlying().(*types.Signature); !ok {
		return false
	}
	marks := map[*ssa.BasicBlock]bool{}
	vals := []ssa.Value{prm}
	for i := 0; i < len(vals); i++ {
		v := vals[i]
		if v.Referrers() == nil {
			continue
		}
		for _, r := range *v.Referrers() {
			switch x := r.(type) {
			case *ssa.DebugRef:
			case *ssa.ChangeType:
				vals = append(vals, x)
			case *ssa.Store:
				if x.Val != v {
					return false
				}
				if al, isAl := x.Addr.(*ssa.Alloc); isAl && al.Parent() == g {
					// a local copy of the parameter: not an addition yet; follow its loads
					if !plainVariable(al) || len(storesTo(al)) != 1 || al.Referrers() == nil {
						return false
					}
					for _, ar := range *al.Referrers() {
						switch y := ar.(type) {
						case *ssa.Store, *ssa.DebugRef:
						case *ssa.UnOp:
							vals = append(vals, y)
						default:
							return false // e.g. captured by a nested literal
						}
					}
					continue
				}
				marks[x.Block()] = true
			case *ssa.Call:
				t := c08CallTarget(&x.Call)
				if t == nil || t.Signature.Results().Len() != 0 {
					return false
				}
				found := false
				for ai, a := range x.Call.Args {
					if a == v {
						if !an.adderParam(t, ai, depth+1) {
							return false
						}
						found = true
					}
				}
				if !found {
					return false // the parameter itself is called
				}
				marks[x.Block()] = true
			default:
				return false
			}
		}
	}
	paths, why := c08Paths(g, 200)
	if why != "" {
		return false
	}
	for _, pth := range paths {
		has := false
		for _, b := range pth {
			if marks[b] {
				has = true
				break
			}
		}
		if !has {
			return false
		}
	}
	return len(paths) > 0
}

// adderCall: the call adds each of its function-typed arguments (at least
// one) to the builder's conditions and returns nothing.
func (an *c08LeafAn) adderCall(c *ssa.Call) bool {
	t := c08CallTarget(&c.Call)
	if t == nil || t.Signature.Results().Len() != 0 {
		return false
	}
	n := 0
	for ai, a := range c.Call.Args {
		if _, isSig := a.Type().Underlying().(*types.Signature); !isSig {
			continue
		}
		if !an.adderParam(t, ai, 0) {
			return false
		}
		n++
	}
	return n > 0
}

// ---- accumulators without an adder: the slice of conditions grown in place
//
// When the adder is inlined (`conds = append(conds, x)`) or returns the grown
// slice (`conds = withCond(conds, x)`), the set side of a field's branch differs
// from the unset side in the VALUE of the slice of conditions. That is still only
// an addition when the set side's slice GROWS FROM the unset side's: it is the
// same value, append(<grows from it>, ...), a phi of such values, or the result of
// a function with a body all of whose returns grow from the parameter that
// receives it.

func c08IsCondSlice(t types.Type) bool {
	sl, ok := t.Underlying().(*types.Slice)
	if !ok {
		return false
	}
	_, isSig := sl.Elem().Underlying().(*types.Signature)
	return isSig
}

func c08Grows(v ssa.Value, isBase func(ssa.Value) bool, depth int) bool {
	ok, _ := c08GrowsS(v, isBase, depth)
	return ok
}

// c08GrowsS: strict = at least one append on every way from the base to v.
func c08GrowsS(v ssa.Value, isBase func(ssa.Value) bool, depth int) (ok, strict bool) {
	if isBase(v) {
		return true, false
	}
	if depth > 6 {
		return false, false
	}
	switch x := v.(type) {
	case *ssa.ChangeType:
		return c08GrowsS(x.X, isBase, depth+1)
	case *ssa.Phi:
		strict = true
		for _, e := range x.Edges {
			if e == ssa.Value(x) {
				continue
			}
			o, st := c08GrowsS(e, isBase, depth+1)
			if !o {
				return false, false
			}
			strict = strict && st
		}
		return len(x.Edges) > 0, strict
	case *ssa.Call:
		if bi, isB := x.Call.Value.(*ssa.Builtin); isB {
			if bi.Name() == "append" && len(x.Call.Args) == 2 {
				o, _ := c08GrowsS(x.Call.Args[0], isBase, depth+1)
				return o, o
			}
			return false, false
		}
		t := c08CallTarget(&x.Call)
		if t == nil || t.Signature.Results().Len() != 1 {
			return false, false
		}
		for ai, a := range x.Call.Args {
			if !c08IsCondSlice(a.Type()) || !c08Grows(a, isBase, depth+1) {
				continue
			}
			// the callee is an adder in functional form: every return hands back
			// the slice it was given with something appended
			prm := t.Params[ai]
			all := true
			n := 0
			for _, ri := range Returns(t) {
				n++
				if len(ri.Results) != 1 {
					all = false
					continue
				}
				o, st := c08GrowsS(ri.Results[0], func(o ssa.Value) bool { return originValue(o) == ssa.Value(prm) }, depth+2)
				if !o || !st {
					all = false
				}
			}
			if all && n > 0 {
				return true, true
			}
		}
	}
	return false, false
}

type c08RegionRes struct {
	st     string // "ok" | "modal" | "und"
	detail string
}

// region decides whether the branch d.B on field F is narrowing: compared with
// the run in which F is unset (which leaves d.B through d.U), the run in which
// F is set (d.T) either cannot report a match or continues in the same code
// with the same state.
func (cx *c08FieldCx) region(F string, d c08Div) c08RegionRes {
	at := fmt.Sprintf("test of %s in block %d of %s", F, d.B.Index, cx.m.fn.Name())
	und := func(f string, a ...any) c08RegionRes { return c08RegionRes{"und", at + ": " + fmt.Sprintf(f, a...)} }
	modal := func(f string, a ...any) c08RegionRes { return c08RegionRes{"modal", at + ": " + fmt.Sprintf(f, a...)} }
	// scenario facts: what both runs share when they separate at d.B and the
	// F-unset run walks a chain of pure conditions past d.T
	scen := map[string]string{}
	addScen := func(cond ssa.Value, val bool) {
		if G, z, ok := cx.exactTest(cond); ok && G != F {
			if val == z {
				scen[G] = "zero"
			} else {
				scen[G] = "nonzero"
			}
		}
	}
	for _, f := range FactsAt(d.B) {
		addScen(f.Cond, f.Val)
	}
	U := d.U
	chain := map[*ssa.BasicBlock]bool{}
	for x := range d.passed {
		chain[x] = true
	}
	for i := 0; i < 16; i++ {
		next, cond, toNext := cx.pureStep(U, d.T, chain)
		if next == nil {
			break
		}
		addScen(cond, toNext)
		chain[U] = true
		U = next
	}
	if U == d.T {
		return c08RegionRes{"ok", "both edges lead to the same block"}
	}
	alwaysTrueU := func() bool {
		ru, _ := cx.reach(U, nil)
		all, n := c08AllExits(ru, cx.returnsTrue)
		return all && n > 0
	}
	TR, oneSided := cx.reach(d.T, U)
	var UR map[*ssa.BasicBlock]bool
	J := U
	if !oneSided {
		reachU, _ := cx.reach(U, nil)
		common := map[*ssa.BasicBlock]bool{}
		for b := range TR {
			if reachU[b] {
				common[b] = true
			}
		}
		if len(common) == 0 {
			if allT, _ := c08AllExits(TR, cx.harmless); allT {
				return c08RegionRes{"ok", "the " + F + "-set side can only reject"}
			}
			if cx.m.compile {
				return und("the %s-set side of a matcher builder returns on its own", F)
			}
			if alwaysTrueU() {
				return c08RegionRes{"ok", "the " + F + "-unset side always matches"}
			}
			return modal("with %s set the matcher returns a verdict of its own instead of running the tests of the %s-unset side (the two sides never rejoin)", F, F)
		}
		var entries []*ssa.BasicBlock
		for b := range common {
			for _, p := range b.Preds {
				if !common[p] && (TR[p] || reachU[p] || p == d.B) && cx.live[p] {
					entries = append(entries, b)
					break
				}
			}
		}
		if len(entries) != 1 {
			return und("the two sides rejoin at %d different blocks", len(entries))
		}
		J = entries[0]
		UR = map[*ssa.BasicBlock]bool{}
		for b := range reachU {
			if !common[b] {
				UR[b] = true
			}
		}
		for b := range common {
			delete(TR, b)
		}
	}
	// exits
	if allT, _ := c08AllExits(TR, cx.harmless); !allT {
		if cx.m.compile {
			return und("the %s-set side of a matcher builder returns on its own", F)
		}
		if !alwaysTrueU() {
			return modal("with %s set the matcher can return a verdict of its own (a return that is not `false`/an error) that replaces the tests the %s-unset side goes on to perform", F, F)
		}
	}
	for b := range UR {
		if len(b.Succs) == 0 && !cx.returnsTrue(b) {
			if cx.harmless(b) {
				return modal("the %s-unset side performs a test (block %d can reject) that the %s-set side skips", F, b.Index, F)
			}
			return modal("the %s-unset side returns a verdict of its own in block %d", F, b.Index)
		}
	}
	// state
	dead := func(b *ssa.BasicBlock) bool {
		if !cx.live[b] {
			return true
		}
		for G, z := range scen {
			if z == "zero" && cx.vonly(G)[b] {
				return true
			}
			if z == "nonzero" && cx.zonly(G)[b] {
				return true
			}
		}
		return false
	}
	fullT, _ := cx.reach(d.T, nil)
	for side, reg := range []map[*ssa.BasicBlock]bool{TR, UR} {
		sideName := F + "-set"
		if side == 1 {
			sideName = F + "-unset"
		}
		inert := func(b *ssa.BasicBlock) bool {
			return reg[b] || dead(b) || (side == 0 && cx.vonly(F)[b]) || !fullT[b] && !reg[b] && side == 0
		}
		for b := range reg {
			for _, in := range b.Instrs {
				switch x := in.(type) {
				case *ssa.Go, *ssa.Defer:
					return und("the %s side starts a goroutine or defers a call", sideName)
				case *ssa.Call:
					callee := originValue(x.Call.Value)
					// in a matcher builder, a call that only adds a condition (whatever form the adder has)
					adder := cx.m.compile && cx.m.an.adderCall(x)
					if mc, ok := callee.(*ssa.MakeClosure); ok && !x.Call.IsInvoke() && !adder {
						return und("the %s side calls the local closure %s, which may assign variables of %s (it is not an adder: a function that, on every path, only stores its function argument or hands it to such a function)", sideName, mc.Fn.Name(), cx.m.fn.Name())
					}
					if cx.m.compile && !adder && x.Call.Signature().Results().Len() == 0 {
						for _, a := range x.Call.Args {
							if _, isSig := a.Type().Underlying().(*types.Signature); isSig {
								return und("the %s side of a matcher builder hands a function to %s, which is not an adder (a function that, on every path, only stores its function argument or hands it to such a function)", sideName, x.Call.String())
							}
						}
					}
					for _, a := range x.Call.Args {
						if adder {
							break // the accumulator's address is what an adder is given
						}
						if al, ok := c08AddrBase(a).(*ssa.Alloc); ok && !reg[al.Block()] && al.Parent() == cx.m.fn {
							return und("the %s side passes the address of local variable %s to a call", sideName, al.Comment)
						}
					}
				case *ssa.Store:
					base := c08AddrBase(x.Addr)
					if cx.m.isRoot(base) {
						return und("the %s side assigns a field of the constraint", sideName)
					}
					grown := cx.m.compile && c08IsCondSlice(x.Val.Type()) && c08Grows(x.Val, func(o ssa.Value) bool {
						ld, isLd := o.(*ssa.UnOp)
						return isLd && ld.Op == token.MUL && reg[ld.Block()] && c08SameAddr(ld.X, x.Addr)
					}, 0)
					if al, ok := base.(*ssa.Alloc); ok && !grown {
						blocks := map[*ssa.BasicBlock]bool{}
						if c08RefBlocks(al, blocks, 0) {
							return und("the %s side assigns variable %s, which is captured by a literal", sideName, al.Comment)
						}
						for rb := range blocks {
							if rb.Parent() == cx.m.fn && !inert(rb) {
								return und("the %s side assigns local variable %s, which block %d reads outside the guarded region", sideName, al.Comment, rb.Index)
							}
						}
					}
				case *ssa.MapUpdate:
					if mk, ok := originValue(x.Map).(*ssa.MakeMap); ok && mk.Parent() == cx.m.fn && mk.Referrers() != nil {
						for _, r := range *mk.Referrers() {
							if !inert(r.Block()) {
								return und("the %s side updates the local map %s, which is used outside the guarded region", sideName, mk.Name())
							}
						}
					}
				}
				v, isV := in.(ssa.Value)
				if !isV || v.Referrers() == nil {
					continue
				}
				for _, r := range *v.Referrers() {
					rb := r.Block()
					if rb == nil || reg[rb] {
						continue
					}
					if ph, isPhi := r.(*ssa.Phi); isPhi && rb == J {
						_ = ph
						continue // judged below
					}
					if _, isDbg := r.(*ssa.DebugRef); isDbg {
						continue
					}
					if side == 0 && cx.vonly(F)[rb] || dead(rb) {
						continue
					}
					return und("a value computed on the %s side (%s) is used in block %d outside the guarded region", sideName, v.Name(), rb.Index)
				}
			}
		}
	}
	// values that differ at the join depending on the side
	if J != nil && cx.live[J] {
		for _, in := range J.Instrs {
			ph, ok := in.(*ssa.Phi)
			if !ok {
				break
			}
			var vals []ssa.Value
			for i, p := range J.Preds {
				if !cx.live[p] {
					continue
				}
				related := TR[p] || UR[p] || chain[p] || p == d.B
				if !related {
					continue
				}
				e := ph.Edges[i]
				dup := false
				for _, o := range vals {
					if o == e {
						dup = true
					} else if a, isA := o.(*ssa.Const); isA {
						if b, isB := e.(*ssa.Const); isB {
							if same, ok := c08ConstEq(a, b); ok && same {
								dup = true
							}
						}
					}
				}
				if !dup {
					vals = append(vals, e)
				}
			}
			if len(vals) < 2 || ph.Referrers() == nil {
				continue
			}
			if cx.m.compile && c08IsCondSlice(ph.Type()) {
				// a matcher builder's slice of conditions: the set side only grows the unset side's slice
				var uvals []ssa.Value
				for i, p := range J.Preds {
					if cx.live[p] && !TR[p] && (UR[p] || chain[p] || p == d.B) {
						uvals = append(uvals, ph.Edges[i])
					}
				}
				grows := len(uvals) > 0
				for i, p := range J.Preds {
					if cx.live[p] && TR[p] {
						for _, u := range uvals {
							if !c08Grows(ph.Edges[i], func(o ssa.Value) bool { return o == u }, 0) {
								grows = false
							}
						}
					}
				}
				if grows {
					continue
				}
			}
			for _, r := range *ph.Referrers() {
				if _, isDbg := r.(*ssa.DebugRef); isDbg {
					continue
				}
				rb := r.Block()
				if cx.vonly(F)[rb] || dead(rb) {
					continue
				}
				name := ph.Comment
				if name == "" {
					name = ph.Name()
				}
				return modal("%s being set changes the value of `%s` (phi in block %d), which the code both runs share uses afterwards (block %d: %s) — the later comparison is replaced, not narrowed", F, name, J.Index, rb.Index, r.String())
			}
		}
	}
	return c08RegionRes{"ok", "narrowing"}
}

// ---- one field against one matcher family

type c08FieldRes struct {
	st     string // "unread" | "ok" | "exception" | "modal" | "und"
	detail string
	site   token.Pos
}

// c08LeafParamFields: fields that the matcher hands on as a parameter of its
// look-ups (so they are neither narrowing nor modal) and that a predicate may
// nevertheless ignore. One (predicate, field) + one reason, re-checked
// structurally by check.
var c08LeafParamFields = map[string]struct {
	typ    string
	reason string
}{
	"pkg/search.(*Constraint).matchesPermanodeTypes|PermanodeConstraint.At": {"time.Time", "At only selects the time at which attribute values are looked up; the by-node-type source enumerates every permanode that EVER had the type (Corpus.permanodesSetByNodeType is add-only, see the #add-only row), so it is a superset at every At"},
}

func (an *c08LeafAn) checkField(top *c08Member, facts map[string]c08Fact, F string, exception string) c08FieldRes {
	key := FuncKey(top.fn) + "|" + F + "|" + exception + "|" + c08FactsSig(facts)
	if r, ok := an.cache[key]; ok {
		return r
	}
	res := c08FieldRes{st: "unread", site: top.fn.Pos()}
	worse := func(st, detail string, site token.Pos) {
		rank := map[string]int{"unread": 0, "ok": 1, "exception": 2, "und": 3, "modal": 4}
		if rank[st] > rank[res.st] {
			res = c08FieldRes{st, detail, site}
		} else if rank[st] == rank[res.st] && st != "ok" && st != "unread" && !strings.Contains(res.detail, detail) {
			res.detail += "; " + detail
		}
	}
	nTests, nUses := 0, 0
	seen := map[*c08Member]bool{}
	var visit func(m *c08Member)
	visit = func(m *c08Member) {
		if seen[m] {
			return
		}
		seen[m] = true
		cx := m.cx(facts)
		if m.escape != "" {
			worse("und", FuncKey(m.fn)+": "+m.escape+"; which fields it reads there is unknown", m.fn.Pos())
		}
		for _, d := range cx.tests(F) {
			nTests++
			site := m.fn.Pos()
			if d.cond != nil && d.cond.Pos() != token.NoPos {
				site = d.cond.Pos()
			} else if x := d.B.Instrs[len(d.B.Instrs)-1].Pos(); x != token.NoPos {
				site = x
			}
			if d.why != "" {
				worse("und", d.why, site)
				continue
			}
			rr := cx.region(F, d)
			switch rr.st {
			case "ok":
				worse("ok", "", site)
			default:
				worse(rr.st, rr.detail, site)
			}
		}
		for _, u := range cx.valueUses(F) {
			if cx.guarded(F, u.in) {
				nUses++
				worse("ok", "", u.in.Pos())
				continue
			}
			if exception != "" {
				if c, ok := u.in.(*ssa.Call); ok {
					isArg := false
					for _, a := range c.Call.Args {
						if a == u.op {
							isArg = true
						}
					}
					if isArg && u.op.Type().String() == exception {
						worse("exception", "", u.in.Pos())
						continue
					}
				}
			}
			worse("und", fmt.Sprintf("%s: %s is used as a parameter (%s) outside the region guarded by its own set-test: it is neither a narrowing nor a recognisable modal field", FuncKey(u.in.Parent()), F, u.in.String()), u.in.Pos())
		}
		for _, cs := range m.callees {
			if !cx.guarded(F, cs.call) {
				visit(cs.mem)
			}
		}
	}
	visit(top)
	if res.st == "ok" {
		res.detail = fmt.Sprintf("%d set-test(s) of %s in the matcher family of %s, each narrowing (the set side only adds rejecting tests / conditions and rejoins with unchanged state, or the unset side always matches); %d other use(s), all inside the regions those tests guard", nTests, F, FuncKey(top.fn), nUses)
	}
	an.cache[key] = res
	return res
}

// ---- finding the matchers

func c08BoundTarget(w *ssa.Function) *ssa.Function {
	if !strings.HasSuffix(w.Name(), "$bound") || len(w.Blocks) == 0 {
		return nil
	}
	for _, in := range w.Blocks[0].Instrs {
		if c, ok := in.(*ssa.Call); ok {
			return c.Call.StaticCallee()
		}
	}
	return nil
}

// rootMatcher: the function whose result (*Constraint).matcher() hands out:
// matcher returns field X of the receiver, and X is only ever assigned the
// result of one function applied to the same receiver.
func (an *c08LeafAn) rootMatcher() (*c08Member, string) {
	mfn := an.p.Func(c08Pkg, "Constraint", "matcher")
	field := ""
	for _, ri := range Returns(mfn) {
		if len(ri.Results) != 1 {
			return nil, "matcher() has an unexpected result list"
		}
		base, n, f, ok := c08FieldLoad(originValue(ri.Results[0]))
		if !ok || !c08IsType(n, c08Pkg, "Constraint") || originValue(base) != ssa.Value(mfn.Params[0]) || (field != "" && field != f) {
			return nil, "matcher() does not return one field of its receiver"
		}
		field = f
	}
	var gen *ssa.Function
	for _, g := range an.p.FuncsIn(c08Pkg) {
		for _, b := range g.Blocks {
			for _, in := range b.Instrs {
				st, ok := in.(*ssa.Store)
				if !ok {
					continue
				}
				fa, ok := st.Addr.(*ssa.FieldAddr)
				if !ok {
					continue
				}
				base, n, f, ok := c08FieldAddr(fa)
				if !ok || f != field || !c08IsType(n, c08Pkg, "Constraint") {
					continue
				}
				call, isCall := originValue(st.Val).(*ssa.Call)
				if !isCall || call.Call.StaticCallee() == nil || len(call.Call.Args) == 0 || !sameOrigin(call.Call.Args[0], base) {
					return nil, "Constraint." + field + " is assigned something else than a builder's result for the same constraint in " + FuncKey(g)
				}
				if gen != nil && gen != call.Call.StaticCallee() {
					return nil, "Constraint." + field + " is assigned from several builders"
				}
				gen = call.Call.StaticCallee()
			}
		}
	}
	if gen == nil || len(gen.Blocks) == 0 || !c08ResultIsFunc(gen) {
		return nil, "no builder of Constraint." + field + " found"
	}
	return an.member(gen, gen.Params[0]), ""
}

func (an *c08LeafAn) matcherFor(inst c08Inst) (*c08Member, string) {
	if m, ok := an.matchers[inst.path]; ok {
		if m == nil {
			return nil, "no matcher found for " + inst.path
		}
		return m, ""
	}
	an.matchers[inst.path] = nil
	if inst.from == nil {
		m, why := an.rootMatcher()
		an.matchers[inst.path] = m
		return m, why
	}
	parent, why := an.matcherFor(an.insts[inst.from.inst])
	if parent == nil {
		return nil, why
	}
	F := inst.from.field
	cands := map[*ssa.Function]bool{}
	for _, m := range parent.family() {
		for _, g := range m.funcs {
			for _, b := range g.Blocks {
				for _, in := range b.Instrs {
					switch x := in.(type) {
					case *ssa.MakeClosure:
						w := x.Fn.(*ssa.Function)
						if len(x.Bindings) == 1 && c08Has(m.fieldsOf(x.Bindings[0]), F) {
							if t := c08BoundTarget(w); t != nil {
								cands[t] = true
							}
						}
					case *ssa.Call:
						f := x.Call.StaticCallee()
						if f == nil || x.Call.IsInvoke() || len(x.Call.Args) == 0 || !c08Has(m.fieldsOf(x.Call.Args[0]), F) {
							continue
						}
						if InModule(f) && len(f.Blocks) > 0 && len(f.Params) > 0 && NamedOf(f.Params[0].Type()) == inst.named && (c08ResultIsVerdict(f) || c08ResultIsFunc(f)) && !an.pureHelper(f) {
							cands[f] = true
						}
					}
				}
			}
		}
	}
	if len(cands) != 1 {
		var names []string
		for f := range cands {
			names = append(names, FuncKey(f))
		}
		sort.Strings(names)
		return nil, fmt.Sprintf("%d candidate matchers for %s (field %s of %s) in the matcher family of %s: %v", len(cands), inst.path, F, inst.from.named.Obj().Name(), FuncKey(parent.fn), names)
	}
	for f := range cands {
		m := an.member(f, f.Params[0])
		an.matchers[inst.path] = m
		return m, ""
	}
	return nil, ""
}

// ---- the add-only re-check of the At exception

// c08AddOnlySet: Corpus.permanodesSetByNodeType only ever grows: the field is
// assigned fresh maps only, nothing is deleted from the outer or inner maps,
// inner entries are only set to true.
func c08AddOnlySet(p *Program) (ok bool, detail string, site token.Pos) {
	const field = "permanodesSetByNodeType"
	isField := func(v ssa.Value) bool {
		u, ok := v.(*ssa.UnOp)
		if !ok || u.Op != token.MUL {
			return false
		}
		fa, ok := u.X.(*ssa.FieldAddr)
		if !ok {
			return false
		}
		_, n, f, ok := c08FieldAddr(fa)
		return ok && f == field && c08IsType(n, "pkg/index", "Corpus")
	}
	if c08FieldIndex(p.NamedType("pkg/index", "Corpus"), field) < 0 {
		brokenf("anchor unresolved: pkg/index.Corpus.%s", field)
	}
	adds, reads := 0, 0
	var bad []string
	for _, g := range p.FuncsIn("pkg/index") {
		for _, b := range g.Blocks {
			for _, in := range b.Instrs {
				switch x := in.(type) {
				case *ssa.Store:
					if fa, isFA := x.Addr.(*ssa.FieldAddr); isFA {
						if _, n, f, ok := c08FieldAddr(fa); ok && f == field && c08IsType(n, "pkg/index", "Corpus") {
							if _, isMake := originValue(x.Val).(*ssa.MakeMap); !isMake {
								bad = append(bad, FuncKey(g)+" assigns the field something else than a fresh map")
							}
							site = x.Pos()
						}
					}
				case *ssa.Call:
					if bi, isB := x.Call.Value.(*ssa.Builtin); isB && bi.Name() == "delete" && len(x.Call.Args) > 0 && DependsOn(x.Call.Args[0], isField) {
						bad = append(bad, FuncKey(g)+" deletes from the set")
					}
				case *ssa.MapUpdate:
					if !DependsOn(x.Map, isField) {
						continue
					}
					if c08IsBool(x.Value.Type()) {
						if c, isC := c08ConstBool(originValue(x.Value)); !isC || !c {
							bad = append(bad, FuncKey(g)+" stores a value other than true into a per-type set")
						}
						adds++
					} else if _, isMake := originValue(x.Value).(*ssa.MakeMap); !isMake {
						bad = append(bad, FuncKey(g)+" replaces a per-type set by something else than a fresh map")
					}
				case *ssa.Lookup:
					if isField(x.X) {
						reads++
					}
				}
			}
		}
	}
	if adds == 0 {
		bad = append(bad, "no insertion into a per-type set found")
	}
	if len(bad) > 0 {
		return false, strings.Join(c08Uniq(bad), "; "), site
	}
	return true, fmt.Sprintf("pkg/index.Corpus.%s is assigned fresh maps only, %d insertion site(s) set entries to true, %d look-up(s), no delete: a permanode stays in the set of every node type it ever had", field, adds, reads), site
}

// c08ConjunctiveSlice: the matcher builder returns (for two or more
// conditions) the bound method of a slice-of-matchers type; that method reports a
// match only after its loop over the slice: every return inside a loop cannot
// report a match.
func c08ConjunctiveSlice(p *Program, r *Reporter, gen *c08Member) {
	// the builder's effective body: itself, its literals and (three levels of) the
	// same-package functions it calls statically — the final combination may
	// live in an extracted helper or a method of the accumulator
	var meths []*ssa.Function
	seen := map[*ssa.Function]bool{}
	var scan func(f *ssa.Function, depth int)
	scan = func(f *ssa.Function, depth int) {
		if f == nil || seen[f] || len(f.Blocks) == 0 {
			return
		}
		seen[f] = true
		for _, g := range c08AllFuncs(f) {
			for _, b := range g.Blocks {
				for _, in := range b.Instrs {
					switch x := in.(type) {
					case *ssa.MakeClosure:
						if t := c08BoundTarget(x.Fn.(*ssa.Function)); t != nil && len(x.Bindings) == 1 {
							if c08IsCondSlice(x.Bindings[0].Type()) && !seen[t] {
								meths = append(meths, t)
							}
						}
					case ssa.CallInstruction:
						if depth < 3 {
							if t := c08CallTarget(x.Common()); t != nil && (t.Pkg == gen.fn.Pkg || t.Pkg == nil) {
								scan(t, depth+1)
							}
						}
					}
				}
			}
		}
	}
	scan(gen.fn, 0)
	key := FuncKey(gen.fn) + "#conjunction"
	sort.Slice(meths, func(i, j int) bool { return FuncKey(meths[i]) < FuncKey(meths[j]) })
	if len(meths) == 0 {
		r.OKTable("P-leaf", key, p.Pos(gen.fn.Pos()), "the builder does not combine conditions through a slice-of-matchers method; how it combines them is not decided")
		return
	}
	var prev *ssa.Function
	for i, meth := range meths {
		if meth == prev {
			continue
		}
		prev = meth
		if i > 0 {
			key = FuncKey(gen.fn) + "#conjunction/" + meth.Name()
		}
		c08ConjunctiveMethod(p, r, gen, meth, key)
	}
}

func c08ConjunctiveMethod(p *Program, r *Reporter, gen *c08Member, meth *ssa.Function, key string) {
	m := gen.an.member(meth, meth.Params[0])
	cx := m.cx(nil)
	var bad []string
	loops, exits := 0, 0
	for _, b := range meth.Blocks {
		if len(b.Succs) != 0 {
			continue
		}
		exits++
		if c08LoopDepth(b) > 0 || func() bool {
			// a return block entered from inside a loop body (not from the loop condition in its header)
			for _, p := range b.Preds {
				isHeader := false
				for _, q := range p.Preds {
					if p.Dominates(q) {
						isHeader = true
					}
				}
				if c08LoopDepth(p) > 0 && !isHeader {
					return true
				}
			}
			return false
		}() {
			loops++
			if !cx.harmless(b) {
				bad = append(bad, fmt.Sprintf("block %d returns from inside the loop a verdict that may be a match", b.Index))
			}
		}
	}
	if loops == 0 {
		bad = append(bad, "no early return inside the loop: not the expected all-must-match shape")
	}
	r.Check(len(bad) == 0, "P-leaf", key, p.Pos(meth.Pos()),
		fmt.Sprintf("%s (what %s returns for several conditions) leaves its loop over the conditions early only with `false`/an error (%d such exit(s)); a match is reported only after the loop", FuncKey(meth), FuncKey(gen.fn), loops),
		FuncKey(meth)+": "+strings.Join(bad, "; ")+": a field of the constraint that adds a condition would no longer narrow the result")
}

// ---- the rule

func c08RuleLeaf(p *Program, r *Reporter, leaves []c08LeafPath, preds map[*ssa.Function]bool, roles map[*ssa.Function]string) {
	// exceptions are recorded under the canonical name of the predicate's role
	canonKey := map[string]string{}
	for f, role := range roles {
		canonKey[FuncKey(f)] = "pkg/search.(*Constraint)." + role
	}
	excKey := func(pk string) string {
		if ck, ok := canonKey[pk]; ok {
			return ck
		}
		return pk
	}
	an := &c08LeafAn{p: p, preds: preds, insts: map[string]c08Inst{}, matchers: map[string]*c08Matcher{}, members: map[*ssa.Function]map[*ssa.Parameter]*c08Member{}, cache: map[string]c08FieldRes{}, dyn: map[string]*c08DynRes{}, pure: map[*ssa.Function]int{}}
	type row struct {
		res    c08FieldRes
		worlds int
	}
	type structRow struct {
		tested map[string]bool
		unread map[string]bool
		und    []string
		site   token.Pos
		n      int
	}
	rows := map[string]*row{}
	srows := map[string]*structRow{}
	rank := map[string]int{"unread": 0, "ok": 1, "exception": 2, "und": 3, "modal": 4}
	usedException := false
	nWorlds := 0
	for _, lp := range leaves {
		pk := FuncKey(lp.fn)
		ws := an.worlds(lp)
		if len(ws) == 0 {
			r.Undecided("P-leaf", pk+"#leaf/path-"+lp.paths[lp.idx].String(), p.Pos(lp.ret.Pos()), "the facts of this restricting leaf path are contradictory as reconstructed; the path analysis does not understand the predicate")
			continue
		}
		for _, w := range ws {
			nWorlds++
			var insts []string
			for k := range w {
				insts = append(insts, k)
			}
			sort.Strings(insts)
			for _, ip := range insts {
				lv := w[ip]
				sn := lv.inst.named.Obj().Name()
				if sn == "LogicalConstraint" {
					continue // how sub-results are combined is P-restrict's subject
				}
				sk := pk + "#leaf/" + sn
				sr := srows[sk]
				if sr == nil {
					sr = &structRow{tested: map[string]bool{}, unread: map[string]bool{}, site: lp.ret.Pos()}
					srows[sk] = sr
				}
				sr.n++
				m, why := an.matcherFor(lv.inst)
				if m == nil {
					sr.und = append(sr.und, why)
					continue
				}
				st := c08Struct(lv.inst.named)
				for i := 0; i < st.NumFields(); i++ {
					F := st.Field(i).Name()
					if _, isTested := lv.tested[F]; isTested {
						sr.tested[F] = true
						continue
					}
					exc := ""
					if e, ok := c08LeafParamFields[excKey(pk)+"|"+sn+"."+F]; ok {
						exc = e.typ
					}
					res := an.checkField(m, lv.tested, F, exc)
					if res.st == "unread" {
						sr.unread[F] = true
						continue
					}
					if res.st == "exception" {
						usedException = true
					}
					fk := sk + "." + F
					if rows[fk] == nil {
						rows[fk] = &row{res: res}
					} else if rank[res.st] > rank[rows[fk].res.st] {
						rows[fk].res = res
					}
					rows[fk].worlds++
				}
			}
		}
	}
	r.Analysed("leaf_worlds", nWorlds)
	var keys []string
	for k := range rows {
		keys = append(keys, k)
	}
	sort.Strings(keys)
	for _, k := range keys {
		x := rows[k]
		site := p.Pos(x.res.site)
		F := k[strings.LastIndex(k, ".")+1:]
		switch x.res.st {
		case "ok":
			r.OK("P-leaf", k, site, x.res.detail)
		case "exception":
			pk := k[:strings.Index(k, "#")]
			e := c08LeafParamFields[excKey(pk)+"|"+k[strings.Index(k, "#leaf/")+6:]]
			r.OKTable("P-leaf", k, site, "recorded exception (re-checked: every use outside its own set-test hands the value on as a "+e.typ+" call argument): "+e.reason)
		case "modal":
			r.Violation("P-leaf", k, site, "the predicate derives a restricting result without testing "+F+", but "+F+" is MODAL in the matcher: "+x.res.detail+". A constraint with "+F+" set can match blobs outside the restricted candidate source, which are then missed")
		default:
			r.Undecided("P-leaf", k, site, "the predicate derives a restricting result without testing "+F+", and the matcher's use of "+F+" cannot be classified as narrowing: "+x.res.detail)
		}
	}
	keys = keys[:0]
	for k := range srows {
		keys = append(keys, k)
	}
	sort.Strings(keys)
	for _, k := range keys {
		sr := srows[k]
		if len(sr.und) > 0 {
			r.Undecided("P-leaf", k, p.Pos(sr.site), "the predicate relies on fields of this struct, but its matcher cannot be located: "+strings.Join(c08Uniq(sr.und), "; "))
			continue
		}
		// a field may be unread under one path's facts and tested on another
		var un []string
		for f := range sr.unread {
			un = append(un, f)
		}
		sort.Strings(un)
		r.OKTable("P-leaf", k, p.Pos(sr.site), fmt.Sprintf("relied on / tested by the predicate on its restricting leaf path(s): %v; not read by the matcher under those paths' facts: %v; every other field has its own row", c08Keys(sr.tested), un))
	}
	if gen, _ := an.rootMatcher(); gen != nil {
		c08ConjunctiveSlice(p, r, gen)
	}
	if usedException {
		ok, detail, site := c08AddOnlySet(p)
		r.Check(ok, "P-leaf", "pkg/index.Corpus.permanodesSetByNodeType#add-only", p.Pos(site), detail, "the exception for PermanodeConstraint.At needs the by-node-type sets to keep every permanode that ever had the type: "+detail)
	}
	r.Floor("P-leaf", 60) // today 65: 57 field rows, 6 struct rows, #conjunction, #add-only
}
