package main

func selftestMain(args []string) int { return 0 }
