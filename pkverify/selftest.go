package main

import (
	"encoding/json"
	"flag"
	"fmt"
	"os"
	"os/exec"
	"path/filepath"
	"runtime/debug"
	"sort"
	"strings"
	"sync"
)

// A Mutant is a single edit of a real /repo file, applied in memory through
// packages.Config.Overlay (the repository is never touched).
type Mutant struct {
	Name   string `json:"name"`
	Prop   string `json:"prop"`
	File   string `json:"file"` // relative to repo
	Old    string `json:"old"`
	New    string `json:"new"`
	Expect string `json:"expect"` // "fire" or "silent"
	Rule   string `json:"rule,omitempty"`
	// Construct must be a substring of the construct of a violated obligation of Rule.
	Construct string `json:"construct,omitempty"`
	Why       string `json:"why,omitempty"`
	// Edits allows multi-file mutants (in addition to File/Old/New).
	Edits []struct {
		File string `json:"file"`
		Old  string `json:"old"`
		New  string `json:"new"`
	} `json:"edits,omitempty"`
}

func loadMutants(dir string) []Mutant {
	files, _ := filepath.Glob(filepath.Join(dir, "*.json"))
	sort.Strings(files)
	var all []Mutant
	for _, f := range files {
		b, err := os.ReadFile(f)
		if err != nil {
			brokenf("%v", err)
		}
		var ms []Mutant
		if err := json.Unmarshal(b, &ms); err != nil {
			brokenf("%s: %v", f, err)
		}
		all = append(all, ms...)
	}
	return all
}

// selftestMain: pkverify selftest [-prop C13] [-j 4] [-name substr]
// Not part of any registered check; it tests the checker itself.
func selftestMain(args []string) int {
	fs := flag.NewFlagSet("selftest", flag.ExitOnError)
	prop := fs.String("prop", "", "only mutants of this property (comma separated)")
	name := fs.String("name", "", "only mutants whose name contains this")
	jobs := fs.Int("j", 4, "parallel worker processes")
	shard := fs.String("shard", "", "internal: i/n")
	repo := fs.String("repo", "/repo", "repository")
	verif := fs.String("verif", "/verif", "verif dir")
	fs.Parse(args)
	all := loadMutants(filepath.Join(*verif, "selftest"))
	var sel []Mutant
	for _, m := range all {
		if *prop != "" && !strings.Contains(","+*prop+",", ","+m.Prop+",") {
			continue
		}
		if *name != "" && !strings.Contains(m.Name, *name) {
			continue
		}
		sel = append(sel, m)
	}
	if *shard == "" {
		if len(sel) == 0 {
			fmt.Println("selftest: no mutants selected")
			return 0
		}
		// Mutants are run in short-lived child processes of at most chunkSize
		// mutants each (rule files keep per-program memo tables; a long-lived
		// process holding dozens of loaded programs grew to 20 GB), at most
		// *jobs of them at a time.
		const chunkSize = 3
		n := (len(sel) + chunkSize - 1) / chunkSize
		var wg sync.WaitGroup
		outs := make([]string, n)
		codes := make([]int, n)
		sem := make(chan struct{}, max(1, *jobs))
		for i := 0; i < n; i++ {
			wg.Add(1)
			go func(i int) {
				defer wg.Done()
				sem <- struct{}{}
				defer func() { <-sem }()
				a := append([]string{"selftest", "-shard", fmt.Sprintf("%d/%d", i, n), "-repo", *repo, "-verif", *verif}, passthrough(*prop, *name)...)
				cmd := exec.Command(os.Args[0], a...)
				b, err := cmd.CombinedOutput()
				outs[i] = string(b)
				if err != nil {
					codes[i] = 1
				}
			}(i)
		}
		wg.Wait()
		pass, fail := 0, 0
		for _, o := range outs {
			fmt.Print(o)
			pass += strings.Count(o, "\nPASS ") + boolInt(strings.HasPrefix(o, "PASS "))
			fail += strings.Count(o, "\nFAIL ") + boolInt(strings.HasPrefix(o, "FAIL "))
		}
		fmt.Printf("selftest: %d mutants, %d pass, %d fail\n", len(sel), pass, fail)
		if fail > 0 || pass != len(sel) {
			return 1
		}
		return 0
	}
	var si, sn int
	fmt.Sscanf(*shard, "%d/%d", &si, &sn)
	code := 0
	for i, m := range sel {
		if i%sn != si {
			continue
		}
		if !runMutant(m, *repo, *verif) {
			code = 1
		}
		debug.FreeOSMemory()
	}
	return code
}

func boolInt(b bool) int {
	if b {
		return 1
	}
	return 0
}

func passthrough(prop, name string) []string {
	var a []string
	if prop != "" {
		a = append(a, "-prop", prop)
	}
	if name != "" {
		a = append(a, "-name", name)
	}
	return a
}

func runMutant(m Mutant, repo, verif string) (ok bool) {
	defer func() {
		if e := recover(); e != nil {
			fmt.Printf("FAIL %s [%s]: checker broke: %v\n", m.Name, m.Prop, e)
			ok = false
		}
	}()
	overlay := map[string][]byte{}
	apply := func(file, old, new string) {
		path := filepath.Join(repo, file)
		src, have := overlay[path]
		if !have {
			b, err := os.ReadFile(path)
			if err != nil {
				panic(err)
			}
			src = b
		}
		if strings.Count(string(src), old) != 1 {
			panic(fmt.Sprintf("mutant %s: old text occurs %d times in %s (want exactly 1)", m.Name, strings.Count(string(src), old), file))
		}
		overlay[path] = []byte(strings.Replace(string(src), old, new, 1))
	}
	if m.File != "" {
		apply(m.File, m.Old, m.New)
	}
	for _, e := range m.Edits {
		apply(e.File, e.Old, e.New)
	}
	ps := props[m.Prop]
	if ps == nil {
		panic("unknown property " + m.Prop)
	}
	p := LoadProgram(repo, "quick", nil, overlay)
	r := NewReporter(m.Prop, p)
	ps.Run(p, r)
	known := map[string]bool{}
	for _, f := range loadFindings(filepath.Join(verif, "known_findings.json")) {
		if f.Property == m.Prop && f.Status == "known" {
			known[f.Rule+" "+f.Construct] = true
		}
	}
	var bad []Obligation
	for _, o := range r.Obls {
		if o.Status != Discharged && !known[o.Key()] {
			bad = append(bad, o)
		}
	}
	for k, fl := range r.floors {
		if r.counts[k] < fl {
			bad = append(bad, Obligation{Rule: "floor", Construct: k, Status: Violated})
		}
	}
	switch m.Expect {
	case "silent":
		if len(bad) == 0 {
			fmt.Printf("PASS %s [%s]: silent as expected\n", m.Name, m.Prop)
			return true
		}
		fmt.Printf("FAIL %s [%s]: expected silence, got %d violation(s), first: %s %s: %s\n", m.Name, m.Prop, len(bad), bad[0].Rule, bad[0].Construct, bad[0].Detail)
		return false
	default:
		for _, o := range bad {
			if (m.Rule == "" || o.Rule == m.Rule) && strings.Contains(o.Construct, m.Construct) {
				fmt.Printf("PASS %s [%s]: %s fired on %s\n", m.Name, m.Prop, o.Rule, o.Construct)
				return true
			}
		}
		first := "none"
		if len(bad) > 0 {
			first = bad[0].Rule + " " + bad[0].Construct
		}
		fmt.Printf("FAIL %s [%s]: expected %s to fire on *%s*; %d other violation(s), first: %s\n", m.Name, m.Prop, m.Rule, m.Construct, len(bad), first)
		return false
	}
}
