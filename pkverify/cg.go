package main

import (
	"go/types"
	"sort"

	"golang.org/x/tools/go/callgraph"
	"golang.org/x/tools/go/callgraph/cha"
	"golang.org/x/tools/go/callgraph/vta"
	"golang.org/x/tools/go/ssa"
	"golang.org/x/tools/go/ssa/ssautil"
)

// cgState caches the call-graph views of a Program.
type cgState struct {
	staticCallers map[*ssa.Function][]CallSite // callee -> static call sites in module functions
	closureMakers map[*ssa.Function][]*ssa.MakeClosure
	funcValueUses map[*ssa.Function][]ssa.Instruction // uses of a declared function as a value (not a call)
	vta           *callgraph.Graph
}

func (p *Program) cgs() *cgState {
	if p.cg == nil {
		p.cg = &cgState{}
	}
	return p.cg
}

// StaticCallers returns every call/go/defer site in module source functions
// whose statically resolved callee is fn (interface invokes are not included;
// use ImplCallers for those). Cheap; available in both tiers.
func (p *Program) StaticCallers(fn *ssa.Function) []CallSite {
	st := p.cgs()
	if st.staticCallers == nil {
		st.staticCallers = map[*ssa.Function][]CallSite{}
		st.closureMakers = map[*ssa.Function][]*ssa.MakeClosure{}
		st.funcValueUses = map[*ssa.Function][]ssa.Instruction{}
		for _, f := range p.AllFuncs {
			for _, b := range f.Blocks {
				for _, in := range b.Instrs {
					switch x := in.(type) {
					case ssa.CallInstruction:
						c := CallSite{f, x}
						if callee := c.Callee(); callee != nil {
							st.staticCallers[callee] = append(st.staticCallers[callee], c)
						}
					case *ssa.MakeClosure:
						if lf, ok := x.Fn.(*ssa.Function); ok {
							st.closureMakers[lf] = append(st.closureMakers[lf], x)
						}
					}
					// uses of a declared function as a first-class value
					for _, op := range in.Operands(nil) {
						if *op == nil {
							continue
						}
						if fv, ok := (*op).(*ssa.Function); ok {
							if ci, isCall := in.(ssa.CallInstruction); isCall && ci.Common().Value == ssa.Value(fv) {
								continue
							}
							st.funcValueUses[fv] = append(st.funcValueUses[fv], in)
						}
					}
				}
			}
		}
	}
	return st.staticCallers[fn]
}

// FuncValueUses returns the instructions that use the declared function fn as a
// value (stored in a field, passed as an argument, bound as a method value)
// rather than calling it directly.
func (p *Program) FuncValueUses(fn *ssa.Function) []ssa.Instruction {
	p.StaticCallers(fn)
	return p.cgs().funcValueUses[fn]
}

// InvokeSites returns every interface-method invoke site in module source
// functions whose method is named name and whose interface type is implemented
// by recv (the concrete receiver type of a method): the sites that may dispatch
// to recv's method.
func (p *Program) InvokeSites(fn *ssa.Function) []CallSite {
	recv := fn.Signature.Recv()
	if recv == nil {
		return nil
	}
	var out []CallSite
	for _, f := range p.AllFuncs {
		for _, c := range CallsIn(f, false) {
			cc := c.Common()
			if !cc.IsInvoke() || cc.Method.Name() != fn.Name() {
				continue
			}
			it, ok := cc.Value.Type().Underlying().(*types.Interface)
			if !ok {
				continue
			}
			if types.Implements(recv.Type(), it) {
				out = append(out, c)
			}
		}
	}
	return out
}

// VTA returns the VTA-refined call graph over the CHA graph of the whole
// program (about 20 s and 4 GB on the pinned tree; use only when
// p.Tier == "thorough").
func (p *Program) VTA() *callgraph.Graph {
	st := p.cgs()
	if st.vta == nil {
		all := ssautil.AllFunctions(p.SSA)
		st.vta = vta.CallGraph(all, cha.CallGraph(p.SSA))
	}
	return st.vta
}

// VTACallers returns the call-graph predecessors of fn (module functions only),
// sorted by key.
func (p *Program) VTACallers(fn *ssa.Function) []*ssa.Function {
	g := p.VTA()
	n := g.Nodes[fn]
	if n == nil {
		return nil
	}
	seen := map[*ssa.Function]bool{}
	var out []*ssa.Function
	for _, e := range n.In {
		c := e.Caller.Func
		if c != nil && !seen[c] && (InModule(c) || c.Parent() != nil && InModule(TopFunc(c))) {
			seen[c] = true
			out = append(out, c)
		}
	}
	sort.Slice(out, func(i, j int) bool { return FuncKey(out[i]) < FuncKey(out[j]) })
	return out
}

// VTACallees returns the module functions an instruction may call according to VTA.
func (p *Program) VTACallees(c CallSite) []*ssa.Function {
	g := p.VTA()
	n := g.Nodes[c.Fn]
	if n == nil {
		return nil
	}
	var out []*ssa.Function
	for _, e := range n.Out {
		if e.Site == c.Instr && e.Callee.Func != nil {
			out = append(out, e.Callee.Func)
		}
	}
	sort.Slice(out, func(i, j int) bool { return FuncKeyAny(out[i]) < FuncKeyAny(out[j]) })
	return out
}
