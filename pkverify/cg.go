package main

type cgState struct{}
