package main

import (
	"fmt"
	"strings"

	"golang.org/x/tools/go/ssa"
)

// PairSpec describes an acquire/release discipline (H4).
type PairSpec struct {
	Rule string
	// Acquire/Release classify a call; path identifies the resource
	// (AccessPath of the receiver, possibly prefixed by a mode).
	Acquire func(c CallSite) (path string, ok bool)
	Release func(c CallSite) (path string, ok bool)
}

// spawnedClosures returns function literals that the instruction starts
// asynchronously: `go f()`, or a closure argument of a known spawner
// (syncutil.Group.Go, errgroup.Group.Go, sync.WaitGroup.Go).
func spawnedClosures(c CallSite) []*ssa.Function {
	if c.IsGo() {
		if f := ClosureOf(c); f != nil {
			return []*ssa.Function{f}
		}
		return nil
	}
	if isSpawner(c) {
		return FuncArgClosures(c)
	}
	return nil
}

func isSpawner(c CallSite) bool {
	return c.IsStatic("go4.org/syncutil", "Group", "Go") ||
		c.IsStatic("golang.org/x/sync/errgroup", "Group", "Go") ||
		c.IsStatic("sync", "WaitGroup", "Go")
}

// releasesOnAllPaths reports whether every path through fn (from entry)
// releases path (directly, by defer, or by handing over to a spawned closure
// that does). depth bounds closure nesting.
func (ps *PairSpec) releasesOnAllPaths(fn *ssa.Function, path string, depth int) bool {
	if fn == nil || len(fn.Blocks) == 0 || depth > 3 {
		return false
	}
	first := fn.Blocks[0].Instrs[0]
	if ps.stop(first, path, depth) {
		return true
	}
	leaks := LeakingExits(PathQuery{
		Start:        first,
		Stop:         func(in ssa.Instruction) bool { return ps.stop(in, path, depth) },
		IgnorePanics: true,
	})
	return len(leaks) == 0
}

// stop reports whether instruction in discharges the obligation to release path.
func (ps *PairSpec) stop(in ssa.Instruction, path string, depth int) bool {
	ci, ok := in.(ssa.CallInstruction)
	if !ok {
		return false
	}
	c := CallSite{in.Parent(), ci}
	if p, ok := ps.Release(c); ok && p == path {
		return true // direct call or `defer release()`
	}
	if c.IsDefer() {
		if cl := ClosureOf(c); cl != nil && ps.releasesOnAllPaths(cl, path, depth+1) {
			return true
		}
	}
	for _, cl := range spawnedClosures(c) {
		if ps.releasesOnAllPaths(cl, path, depth+1) {
			return true
		}
	}
	return false
}

// CheckAcquire verifies that the resource acquired at c (path) is released on
// every path to every exit of the enclosing function. assume may prune
// infeasible branches (e.g. the failure edge of a conditional acquire).
func (ps *PairSpec) CheckAcquire(c CallSite, path string, assume func(ssa.Value) (bool, bool)) (ok bool, detail string) {
	// a covering defer registered before the acquire
	for _, d := range DeferredCalls(c.Fn) {
		if Precedes(d.Instr, c.Instr) && ps.stop(d.Instr, path, 0) {
			return true, "released by a defer registered before the acquire"
		}
	}
	// correlated branches: conditions already decided on the way to the acquire
	// (e.g. `if g != nil { g.Start() } ... if g != nil { g.Done() }`)
	decided := map[string]bool{}
	for _, f := range FactsAt(c.Block()) {
		if k := CondKey(f.Cond); k != "" {
			decided[k] = f.Val
		}
	}
	userAssume := assume
	assume = func(cond ssa.Value) (bool, bool) {
		if userAssume != nil {
			if k, v := userAssume(cond); k {
				return k, v
			}
		}
		if k := CondKey(cond); k != "" {
			if v, ok := decided[k]; ok {
				return true, v
			}
		}
		return false, false
	}
	leaks := LeakingExits(PathQuery{
		Start:        c.Instr,
		Stop:         func(in ssa.Instruction) bool { return ps.stop(in, path, 0) },
		Assume:       assume,
		IgnorePanics: true,
	})
	if len(leaks) == 0 {
		return true, "released (call, defer or hand-over to a goroutine that releases) on every path to every exit"
	}
	var exits []string
	for _, l := range leaks {
		exits = append(exits, fmt.Sprintf("exit at line %d via blocks %s", c.Fn.Prog.Fset.Position(l.Exit.Pos()).Line, blockNames(l.Via)))
		if len(exits) >= 3 {
			break
		}
	}
	return false, fmt.Sprintf("%s acquired but not released on %d exit path(s): %s", path, len(leaks), strings.Join(exits, "; "))
}

func blockNames(bs []*ssa.BasicBlock) string {
	var s []string
	for _, b := range bs {
		s = append(s, fmt.Sprintf("%d", b.Index))
	}
	if len(s) > 12 {
		s = append(s[:6], append([]string{"…"}, s[len(s)-5:]...)...)
	}
	return strings.Join(s, ">")
}

// WrapperSummary classifies a function as an acquiring or releasing wrapper:
// it acquires (or releases) a parameter-rooted resource and never does the
// opposite. The returned path is in the callee's terms (rooted at a parameter
// name); Translate maps it to the caller's terms.
type WrapperSummary struct {
	Fn       *ssa.Function
	Acquires []string // callee-side paths acquired and held at return
	Releases []string // callee-side paths released
}

// Summarize computes wrapper summaries for fns under ps.
func (ps *PairSpec) Summarize(fns []*ssa.Function) map[*ssa.Function]*WrapperSummary {
	out := map[*ssa.Function]*WrapperSummary{}
	for _, fn := range fns {
		if fn.Parent() != nil {
			continue
		}
		var acq, rel []string
		for _, c := range CallsIn(fn, true) {
			nested := c.Fn != fn
			if p, ok := ps.Acquire(c); ok {
				if nested || c.IsDefer() || c.IsGo() {
					acq = append(acq, "?nested")
					rel = append(rel, "?nested") // not a plain wrapper
				} else {
					acq = append(acq, p)
				}
			}
			if p, ok := ps.Release(c); ok {
				if nested || c.IsGo() {
					acq = append(acq, "?nested")
					rel = append(rel, "?nested")
				} else {
					rel = append(rel, p)
				}
			}
		}
		if len(acq) > 0 && len(rel) == 0 {
			out[fn] = &WrapperSummary{Fn: fn, Acquires: dedupe(acq)}
		} else if len(rel) > 0 && len(acq) == 0 {
			out[fn] = &WrapperSummary{Fn: fn, Releases: dedupe(rel)}
		}
	}
	return out
}

func dedupe(s []string) []string {
	seen := map[string]bool{}
	var out []string
	for _, x := range s {
		if !seen[x] {
			seen[x] = true
			out = append(out, x)
		}
	}
	return out
}

// TranslatePath rewrites a callee-side path rooted at one of the callee's
// parameters into the caller's terms using the call's actual arguments.
// ok=false if the path is not parameter-rooted.
func TranslatePath(c CallSite, callee *ssa.Function, path string) (string, bool) {
	mode := ""
	if i := strings.Index(path, "|"); i >= 0 {
		mode, path = path[:i+1], path[i+1:]
	}
	pre := ""
	for strings.HasPrefix(path, "&") || strings.HasPrefix(path, "*") {
		pre, path = pre+path[:1], path[1:]
	}
	args := c.Args()
	for i, prm := range callee.Params {
		if i >= len(args) {
			break
		}
		name := prm.Name()
		if path == name || strings.HasPrefix(path, name+".") || strings.HasPrefix(path, name+"[") {
			ap := AccessPath(args[i])
			if strings.HasPrefix(ap, "&") || strings.HasPrefix(ap, "*") || strings.HasPrefix(ap, "?") {
				if path != name {
					// field of something that is not a plain value path in the caller
					if strings.HasPrefix(ap, "&") {
						// (&v).f == v.f
						ap = ap[1:]
					} else {
						return "", false
					}
				}
			}
			return mode + pre + ap + path[len(name):], true
		}
	}
	return "", false
}
