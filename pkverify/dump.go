package main

import (
	"fmt"
	"os"
	"strings"
)

// dumpMain prints the SSA of functions whose key contains the given substring.
// Development aid only; not used by any registered check.
func dumpMain(args []string) int {
	if len(args) < 1 {
		fmt.Fprintln(os.Stderr, "usage: pkverify dump <substring-of-function-key> [repo]")
		return 2
	}
	repo := "/repo"
	if len(args) > 1 {
		repo = args[1]
	}
	p := LoadProgram(repo, "quick", nil, nil)
	n := 0
	for _, fn := range p.AllFuncs {
		if strings.Contains(FuncKey(fn), args[0]) {
			fmt.Printf("=== %s  (%s)\n", FuncKey(fn), p.Pos(fn.Pos()))
			fn.WriteTo(os.Stdout)
			n++
		}
	}
	fmt.Fprintf(os.Stderr, "%d functions, load %.1fs\n", n, p.LoadDur.Seconds())
	return 0
}
