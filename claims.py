# Claims table consumed by gen_manifest.py.  claim(id, design_ref, technique, level_text, level_note)
STATIC_NOTE = ("Trusted base: go/packages+go/types+go/ssa (x/tools v0.50.0, go1.26.8) as a model of the compiled program; "
               "no alias analysis beyond receiver/parameter-rooted access paths and single-store locals; intra-procedural path rules with "
               "wrapper summaries of bound 1; anchors resolved by role or qualified name (a renamed anchor makes the check exit 2, not report a violation).")

claim("C13", "DESIGN.md §4 C13",
      "static analysis: CFG path pairing (acquire/release) over SSA, typestate and dominance rules",
      "Decides structural necessary conditions only: every gate slot and mutex taken in the storage/KV/schema/index/server packages is released on every CFG path; rollback acts on the file it was captured from; temp-file cleanup registered; error-co-returned values not dereferenced on error paths; channels closed after senders join. Does not decide timing, post-fault equivalence with the reference map, or recovery success.",
      STATIC_NOTE)

for pid, why in {
    "C18": "End-to-end HTTP map semantics over request histories and configurations is a statement about runtime values crossing the wire; the handler-level structure visible statically is already claimed under C01/C02/C17 and no further non-brittle necessary condition was found.",
}.items():
    NA[pid] = why
